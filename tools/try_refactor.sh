#!/bin/sh
# tools/try_refactor.sh <patch.diff> <C01,C02,...>  — run checks against a (supposedly harmless) change
WT=/tmp/seedtry/ref-$$; mkdir -p /tmp/seedtry
git -C /repo worktree add -q "$WT" HEAD || exit 2
trap 'git -C /repo worktree remove --force "$WT" >/dev/null 2>&1' EXIT
(cd "$WT" && (git apply "$1" 2>/dev/null || git apply -3 "$1" 2>/dev/null)) || { echo "patch does not apply"; exit 2; }
for p in $(echo "$2" | tr ',' ' '); do
  (cd "$(dirname "$0")/.." && VERIF_REPO="$WT" ./check "$p" 2>/dev/null | grep -E "VIOLATION|^\[" | cut -c1-150)
done
