#!/bin/sh
# tools/import_round7b.sh Cxx [extra-props]   : copy /tmp/mut7/out-Cxx/{1,2} to seeded/Cxx-{14,15} and try them
P="$1"; EXTRA="${2:-}"
for k in 1 2; do
  n=$((k+13)); src=/tmp/mut7/out-$P/$k
  [ -f "$src/patch.diff" ] || continue
  mkdir -p seeded/$P-$n
  cp $src/patch.diff $src/demo.py seeded/$P-$n/ 2>/dev/null
  cp $src/meta.json seeded/$P-$n/meta.agent.json 2>/dev/null
  echo "== $P-$n"
  tools/try_seeded.sh seeded/$P-$n "$P${EXTRA:+,$EXTRA}" 2>&1 | grep -E "demo with|VIOLATION|^\[" | cut -c1-160 | head -6
done
