#!/usr/bin/env python3
"""Refreshes the generated tables of DESIGN.md (between <!-- X:BEGIN --> / <!-- X:END -->):
FINDINGS from known_findings.json, SEEDED from seeded/*/meta.json."""
import json, pathlib, re
ROOT = pathlib.Path(__file__).resolve().parents[1]

def findings():
    rows = ["| property | key (oracle class) | status | commit | what fails | replay |", "|---|---|---|---|---|---|"]
    for e in json.loads((ROOT / "known_findings.json").read_text()):
        what = e["what"].replace("|", "&#124;")
        rows.append(f"| {e['property']} | `{e['key']}` | {e['status']} | {e.get('commit','—')} | {what} | `{e.get('replay','')}` |")
    return "\n".join(rows)

def seeded():
    rows = ["| seeded change | breaks | what it changes | needs in order to manifest | existing suite with it | caught by | failing input found |", "|---|---|---|---|---|---|---|"]
    for d in sorted((ROOT / "seeded").iterdir()):
        m = d / "meta.json"
        if not m.exists():
            continue
        j = json.loads(m.read_text())
        c = j.get("confirmed", {})
        caught = [p for p, r in c.get("checks", {}).items() if r.get("caught")]
        wf = [p for p, r in c.get("checks", {}).items() if r.get("with_failing_input")]
        def cell(x):
            return re.sub(r"\s+", " ", str(x or "")).replace("|", "&#124;")[:260]
        sup = j.get("superseded")
        by = ', '.join(caught) or '**missed**'
        if sup:
            by += f" (as confirmed at {c.get('base')}; {cell(sup)})"
        rows.append(f"| `seeded/{d.name}` | {', '.join(j.get('breaks', []))} | {cell(j.get('summary'))} | {cell(j.get('needs'))} | {cell(c.get('suite_with_change'))} | {by} | {', '.join(wf) or ('no-failing-input-found' if caught else '—')} |")
    return "\n".join(rows)

def theorems():
    import importlib, sys
    sys.path.insert(0, str(ROOT / "py"))
    rows = ["| property | # | property theorems (`Props/Cxx.lean`; all `#print axioms`-audited on every run) | # | supplementary theorems (`Props/CxxSupp.lean`; audited too, reported as INFO) |", "|---|---|---|---|---|"]
    total = stotal = 0
    for f in sorted((ROOT / "py" / "verifpy" / "props").glob("c[0-9][0-9].py")):
        mod = importlib.import_module(f"verifpy.props.{f.stem}")
        th = list(getattr(mod, "THEOREMS", []))
        st = list(getattr(mod, "SUPP_THEOREMS", []))
        total += len(th)
        stotal += len(st)
        rows.append(f"| {f.stem.upper()} | {len(th)} | " + ", ".join(f"`{t}`" for t in th) + f" | {len(st)} | " + ", ".join(f"`{t}`" for t in st) + " |")
    rows.append(f"| all | {total} | | {stotal} | |")
    return "\n".join(rows)


def glance_counts(s):
    """Keep the leading theorem count of each row of the at-a-glance table (section 0) current."""
    import importlib, sys
    sys.path.insert(0, str(ROOT / "py"))
    def fix(m):
        mod = importlib.import_module(f"verifpy.props.c{m.group(1)}")
        n, k = len(getattr(mod, 'THEOREMS', [])), len(getattr(mod, 'SUPP_THEOREMS', []))
        return f"{m.group(0)[:m.start(3) - m.start(0)]}{n}" + (f"+{k}s" if k else "")
    return re.sub(r"^\| C(\d\d) \|([^|]*)\| (\d+(?:\+\d+s)?)(?=[ :(])", fix, s, flags=re.M)


def main():
    p = ROOT / "DESIGN.md"
    s = glance_counts(p.read_text())
    for tag, fn in (("FINDINGS", findings), ("SEEDED", seeded), ("THEOREMS", theorems)):
        s = re.sub(rf"(<!-- {tag}:BEGIN -->).*?(<!-- {tag}:END -->)", lambda m: m.group(1) + "\n" + fn() + "\n" + m.group(2), s, flags=re.S)
    p.write_text(s)

if __name__ == "__main__":
    main()
