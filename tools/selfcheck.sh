#!/bin/sh
# tools/selfcheck.sh [seeds...]  — every check on /repo itself must be silent (except KNOWN-FINDING)
cd "$(dirname "$0")/.."
SEEDS="${*:-0 1 2}"
bad=0
for p in C01 C02 C03 C04 C05 C06 C07 C08 C09 C10 C11 C12 C13 C14 C15 C16 C17 C18 C19 C20; do
  for s in $SEEDS; do
    out=$(VERIF_SEED=$s ./check $p 2>&1); rc=$?
    line=$(echo "$out" | grep -E "^\[$p\]")
    if [ $rc -ne 0 ] || echo "$out" | grep -q "VIOLATION" || ! echo "$line" | grep -q "divergences=0 violations=0"; then
      bad=1; echo "!! $p seed=$s rc=$rc"; echo "$out" | grep -E "VIOLATION|Traceback|Error|^\[" | head -5
    else
      echo "ok $line" | cut -c1-150
    fi
  done
done
exit $bad
