#!/usr/bin/env python3
"""Regenerates MANIFEST.json from the table below (run after adding a check)."""
import json, pathlib
ROOT = pathlib.Path(__file__).resolve().parents[1]

CHECKS = {
 "C01": dict(
   text="Lean 4 theorems about a timed model of send_message/_await_response (Await.run: well-founded recursion, arbitrary poll period, both tie orders, histories of any length): a return is the payload of the first response bearing the sent id, foreign/same-id-request/batch messages never complete the call, timeout iff no matching response, one request written. The hand-written model is tied to the code by a correspondence run of the real send_message under a virtual-time event loop.",
   note="Trusted: Lean kernel (axioms propext, Classical.choice, Quot.sound only), the correspondence harness and virtual-time loop; anyio/asyncio semantics are sampled, not proved. result:null responses are outside the quantifier.",
   technique="Lean 4 proof (fun_induction over a timed state-machine model) + differential correspondence run under virtual time",
   design="5/C01"),
 "C07": dict(
   text="Lean 4 theorems over ALL integers about the classifier regenerated from types/errors.py on every run (total, non-retryable exactly on the documented permanent set, sets disjoint, named codes partitioned), plus theorems on the timed send_message model that a first-matching error response always raises with the server's code/message and never returns; bool helpers map errors to False. Translation validation of the regenerated function on -33100..-31900, -200..200 and seeded 64-bit values; correspondence of the error path through send_message and every typed helper.",
   note="Trusted: Lean kernel, the AST translator (validated against the real function on the exhaustive grid every run), the correspondence harness; the documented permanent set is pinned from the verified commit.",
   technique="Lean 4 proof over a model regenerated from source by a translator + translation validation + correspondence run",
   design="5/C07"),
 "C14": dict(
   text="Lean 4 theorems on the timed send_message model, for every history and any positive poll period: completion never later than the deadline, cancellation latency <= one poll period, CancelledError only if the token fired, exactly one cancelled notification iff cancelled, cancelled-before-send writes no request, progress callbacks = exactly the matching-token notifications consumed before completion in order, callback failures irrelevant. Tied to the code by the virtual-time correspondence run over cancel/response/deadline placements x traffic x progress streams x tie orders.",
   note="Trusted: Lean kernel, correspondence harness, virtual-time loop; anyio cancel scopes/fail_after semantics are sampled, not proved.",
   technique="Lean 4 proof (invariants by functional induction on a timed model) + differential correspondence run under virtual time",
   design="5/C14"),
}

TITLES = {}
for line in (ROOT / "properties.jsonl").read_text().splitlines():
    p = json.loads(line)
    TITLES[p["id"]] = p["title"]

NOT_YET = "check not built yet in this session (planned: see DESIGN.md section 5); not claimed until its theorems and correspondence run exist"
NA = {}

def main():
    checks = []
    for pid in sorted(CHECKS):
        c = CHECKS[pid]
        checks.append({
            "property_id": pid,
            "quick_cmd": f"./check {pid} --tier quick",
            "thorough_cmd": f"./check {pid} --tier thorough",
            "evidence_file": f"evidence/{pid}.json",
            "replay_cmd_template": f"./check {pid} --replay {{path}}",
            "engine": "lean4-proof+correspondence",
            "level_claimed": {"category": "proof", "text": c["text"], "design_ref": f"DESIGN.md section {c['design']}"},
            "level_note": c["note"],
            "technique": c["technique"],
        })
    na = []
    for pid in sorted(TITLES):
        if pid not in CHECKS:
            na.append({"property_id": pid, "reason": NA.get(pid, NOT_YET)})
    hooks_commits = []
    m = {
        "version": 1,
        "setup_cmd": "./setup.sh",
        "hooks": {
            "guard": "CHUK_MCP_VERIF",
            "enable": "no source hooks are needed: every seam (anyio.open_process, httpx.AsyncClient, time.time, uuid4, event-loop clock) is patched from outside by the harness; the checks export CHUK_MCP_VERIF=1 for uniformity",
            "baseline_off_cmd": "cd /repo && /venv/bin/python -m pytest -ra -q -p no:cacheprovider --timeout=900 --continue-on-collection-errors",
            "source_commits": hooks_commits,
            "add_only": True,
        },
        "engines": [{
            "name": "lean4-proof+correspondence",
            "path": "lean/ (Lean 4 models, lemmas, property theorems, compiled driver) + py/verifpy (translator, runner, harnesses)",
            "serves_properties": sorted(CHECKS),
            "kind_free_text": "machine-checked proof in Lean 4 about executable models; models tied to /repo by a source translator (Gen/*.lean) and by a differential correspondence run against the real implementation",
        }],
        "checks": checks,
        "not_applicable": na,
        "notes": "See DESIGN.md. known_findings.json lists genuine defects (fixed ones with their commit; open ones are printed as KNOWN-FINDING).",
    }
    (ROOT / "MANIFEST.json").write_text(json.dumps(m, indent=1) + "\n")

if __name__ == "__main__":
    main()
