#!/usr/bin/env python3
"""Regenerates MANIFEST.json from the table below (run after adding a check)."""
import json, pathlib
ROOT = pathlib.Path(__file__).resolve().parents[1]

import importlib, sys
sys.path.insert(0, str(ROOT / "py"))
CHECKS = {}
for f in sorted((ROOT / "py" / "verifpy" / "props").glob("c[0-9][0-9].py")):
    mod = importlib.import_module(f"verifpy.props.{f.stem}")
    if hasattr(mod, "MANIFEST"):
        CHECKS[f.stem.upper()] = mod.MANIFEST

TITLES = {}
for line in (ROOT / "properties.jsonl").read_text().splitlines():
    p = json.loads(line)
    TITLES[p["id"]] = p["title"]

NOT_YET = "check not built yet in this session (planned: see DESIGN.md section 5); not claimed until its theorems and correspondence run exist"
NA = {}

def main():
    checks = []
    for pid in sorted(CHECKS):
        c = CHECKS[pid]
        checks.append({
            "property_id": pid,
            "quick_cmd": f"./check {pid} --tier quick",
            "thorough_cmd": f"./check {pid} --tier thorough",
            "evidence_file": f"evidence/{pid}.json",
            "replay_cmd_template": f"./check {pid} --replay {{path}}",
            "engine": "lean4-proof+correspondence",
            "level_claimed": {"category": "proof", "text": c["text"], "design_ref": f"DESIGN.md section {c['design']}"},
            "level_note": c["note"],
            "technique": c["technique"],
        })
    na = []
    for pid in sorted(TITLES):
        if pid not in CHECKS:
            na.append({"property_id": pid, "reason": NA.get(pid, NOT_YET)})
    hooks_commits = []
    m = {
        "version": 1,
        "setup_cmd": "./setup.sh",
        "hooks": {
            "guard": "CHUK_MCP_VERIF",
            "enable": "no source hooks are needed: every seam (anyio.open_process, httpx.AsyncClient, time.time, uuid4, event-loop clock) is patched from outside by the harness; the checks export CHUK_MCP_VERIF=1 for uniformity",
            "baseline_off_cmd": "cd /repo && /venv/bin/python -m pytest -ra -q -p no:cacheprovider --timeout=900 --continue-on-collection-errors",
            "source_commits": hooks_commits,
            "add_only": True,
        },
        "engines": [{
            "name": "lean4-proof+correspondence",
            "path": "lean/ (Lean 4 models, lemmas, property theorems, compiled driver) + py/verifpy (translator, runner, harnesses)",
            "serves_properties": sorted(CHECKS),
            "kind_free_text": "machine-checked proof in Lean 4 about executable models; models tied to /repo by a source translator (Gen/*.lean) and by a differential correspondence run against the real implementation",
        }],
        "checks": checks,
        "not_applicable": na,
        "notes": "See DESIGN.md. known_findings.json lists genuine defects (fixed ones with their commit; open ones are printed as KNOWN-FINDING).",
    }
    (ROOT / "MANIFEST.json").write_text(json.dumps(m, indent=1) + "\n")

if __name__ == "__main__":
    main()
