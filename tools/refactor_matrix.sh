#!/bin/sh
# tools/refactor_matrix.sh <dir-with-patches...> : every check against every harmless patch
cd "$(dirname "$0")/.."
ALL="C01,C02,C03,C04,C05,C06,C07,C08,C09,C10,C11,C12,C13,C14,C15,C16,C17,C18,C19,C20"
for d in "$@"; do
  echo "== $d"
  tools/try_refactor.sh "$d/patch.diff" "${PROPS:-$ALL}" | grep -vE "divergences=0 violations=0" 
done
