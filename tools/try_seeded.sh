#!/bin/sh
# tools/try_seeded.sh <seeded-dir> <Cxx> [--suite]
# Applies <seeded-dir>/patch.diff to a scratch worktree of /repo HEAD, runs the demo with and
# without the change, optionally the existing suite, then the check(s) against the patched copy.
set -u
D="$(cd "$1" && pwd)"; P="$2"; SUITE="${3:-}"
WT=/tmp/seedtry/wt-$$
mkdir -p /tmp/seedtry
git -C /repo worktree add -q "$WT" HEAD || exit 2
cleanup() { git -C /repo worktree remove --force "$WT" >/dev/null 2>&1; }
trap cleanup EXIT
DEMO="$D/demo.py"; [ -f "$DEMO" ] || DEMO="$(ls "$D"/demo* "$D"/test_* 2>/dev/null | head -1)"
run_demo() { (cd "$WT" && PYTHONPATH="$WT/src" timeout 600 /venv/bin/python "$DEMO" >/tmp/seedtry/demo.$$.log 2>&1); echo $?; }
case "$DEMO" in *test_*) run_demo() { (cd "$WT" && PYTHONPATH="$WT/src" timeout 600 /venv/bin/python -m pytest -q -p no:cacheprovider "$DEMO" >/tmp/seedtry/demo.$$.log 2>&1); echo $?; } ;; esac
echo "demo without change: exit $(run_demo)"
(cd "$WT" && (git apply "$D/patch.diff" 2>/dev/null || git apply -3 "$D/patch.diff" 2>/dev/null)) || { echo "patch does not apply"; exit 2; }
echo "demo with change:    exit $(run_demo)"
if [ "$SUITE" = "--suite" ]; then
  (cd "$WT" && PYTHONPATH="$WT/src" /venv/bin/python -m pytest -q -p no:cacheprovider -n 12 --timeout=900 2>&1 | tail -2)
fi
for p in $(echo "$P" | tr ',' ' '); do
  (cd "$(dirname "$0")/.." && VERIF_REPO="$WT" ./check "$p" 2>/dev/null | grep -E "VIOLATION|KNOWN|^\[" )
done
