#!/bin/sh
# tools/import_round8.sh Cxx [extra-props]   : copy /tmp/mut8/out-Cxx/1 to seeded/Cxx-16 and try it
P="$1"; EXTRA="${2:-}"
for k in 1; do
  n=16; src=/tmp/mut8/out-$P/$k
  [ -f "$src/patch.diff" ] || continue
  mkdir -p seeded/$P-$n
  cp $src/patch.diff $src/demo.py seeded/$P-$n/ 2>/dev/null
  cp $src/meta.json seeded/$P-$n/meta.agent.json 2>/dev/null
  echo "== $P-$n"
  tools/try_seeded.sh seeded/$P-$n "$P${EXTRA:+,$EXTRA}" 2>&1 | grep -E "demo with|VIOLATION|^\[" | cut -c1-160 | head -6
done
