#!/usr/bin/env python3
"""tools/confirm_seeded.py <seeded-dir>... : confirm each seeded change independently —
applies patch.diff to a scratch worktree of /repo HEAD, runs the demo without / with the
change, the existing suite with the change, and the named property checks against the
patched copy; writes meta.json."""
import json, os, pathlib, re, subprocess, sys, tempfile, time
ROOT = pathlib.Path(__file__).resolve().parents[1]

def sh(cmd, cwd=None, env=None, timeout=3600):
    p = subprocess.run(cmd, shell=True, cwd=cwd, env=env, capture_output=True, text=True, timeout=timeout)
    return p.returncode, (p.stdout + p.stderr)

def main():
    for d in sys.argv[1:]:
        d = pathlib.Path(d).resolve()
        agent = json.loads((d / "meta.agent.json").read_text()) if (d / "meta.agent.json").exists() else {}
        props = os.environ.get("PROPS") or d.name.split("-")[0]
        wt = pathlib.Path(tempfile.mkdtemp(prefix="seedconf-", dir="/tmp")) / "wt"
        sh(f"git -C /repo worktree add -q {wt} HEAD")
        env = dict(os.environ, PYTHONPATH=f"{wt}/src")
        demo = d / "demo.py"
        runner = f"/venv/bin/python {demo}" if "def test_" not in demo.read_text() or "__main__" in demo.read_text() else f"/venv/bin/python -m pytest -q -p no:cacheprovider {demo}"
        try:
            rc0, _ = sh(runner, cwd=wt, env=env, timeout=900)
            rca, out = sh(f"git apply {d}/patch.diff || git apply -3 {d}/patch.diff", cwd=wt)
            if rca != 0:
                print(d.name, "PATCH DOES NOT APPLY", out[-300:]); continue
            rc1, _ = sh(runner, cwd=wt, env=env, timeout=900)
            rcs, outs = sh("/venv/bin/python -m pytest -q -p no:cacheprovider -n 12 --timeout=900 2>&1 | tail -1", cwd=wt, env=env)
            checks = {}
            for p in props.split(","):
                rcc, outc = sh(f"VERIF_REPO={wt} ./check {p} 2>/dev/null | grep -E 'VIOLATION|^\\[' ", cwd=ROOT)
                checks[p] = {"lines": [re.sub(r"replay=\S*/replays/", "replay=replays/", l) for l in outc.strip().splitlines()],
                             "caught": "VIOLATION" in outc, "with_failing_input": bool(re.search(r"VIOLATION.*json\s*$", outc, re.M))}
            meta = {
                "property": agent.get("property", props), "breaks": props.split(","),
                "summary": agent.get("summary"), "needs": agent.get("needs"),
                "confirmed": {
                    "base": sh("git -C /repo rev-parse --short HEAD")[1].strip(),
                    "demo_without_change_exit": rc0, "demo_with_change_exit": rc1,
                    "suite_with_change": outs.strip().splitlines()[-1] if outs.strip() else "",
                    "checks": checks, "when": time.strftime("%Y-%m-%d %H:%M:%S"),
                },
                "ran": ["git apply patch.diff in a scratch worktree of /repo HEAD", runner.replace(str(d), "."),
                        "pytest -q -p no:cacheprovider -n 12 --timeout=900", "VERIF_REPO=<worktree> ./check <prop>"],
            }
            (d / "meta.json").write_text(json.dumps(meta, indent=1) + "\n")
            print(d.name, "demo", rc0, "->", rc1, "| suite:", meta["confirmed"]["suite_with_change"], "|", {p: (c["caught"], c["with_failing_input"]) for p, c in checks.items()})
        finally:
            sh(f"git -C /repo worktree remove --force {wt}")
            sh(f"rm -rf {wt.parent}")

if __name__ == "__main__":
    main()
