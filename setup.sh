#!/bin/sh
# Offline build of the framework: regenerate Gen/*.lean from /repo, then build every
# property module and the model driver.
set -e
DIR="$(cd "$(dirname "$0")" && pwd)"
cd "$DIR"
python3 tools/gen_driver.py
PYTHONPATH="$DIR/py" PYTHONDONTWRITEBYTECODE=1 /venv/bin/python -c "from verifpy import translate; translate.translate()"
cd lean
lake build Verif verif-driver
