#!/bin/sh
# Offline build of the framework: regenerate Driver.lean / Verif.lean and Gen/*.lean from /repo,
# then build the model driver and every property module.  A property module that does not
# build is reported by its own check (each check rebuilds what it needs), so it does not make
# the setup fail; the driver must build.
set -e
DIR="$(cd "$(dirname "$0")" && pwd)"
cd "$DIR"
python3 tools/gen_driver.py
PYTHONPATH="$DIR/py" PYTHONDONTWRITEBYTECODE=1 /venv/bin/python -c "from verifpy import translate; translate.translate()"
cd lean
lake build verif-driver
lake build Verif || echo "setup: some property modules do not build; their checks will report it" >&2
