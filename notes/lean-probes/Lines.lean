/-! Feasibility probe: split-on-LF line buffer is independent of chunking. -/
namespace Pr.Lines

variable {α : Type} [DecidableEq α]

/-- feed one element: completed lines (reverse order), current partial line (reverse order) -/
def push (sep : α) (st : List (List α) × List α) (x : α) : List (List α) × List α :=
  if x = sep then (st.2.reverse :: st.1, []) else (st.1, x :: st.2)

/-- the reader: process chunks one after another, carrying the buffer -/
def feedChunk (sep : α) (st : List (List α) × List α) (chunk : List α) :=
  chunk.foldl (push sep) st

def feedAll (sep : α) (chunks : List (List α)) : List (List α) × List α :=
  chunks.foldl (feedChunk sep) ([], [])

theorem feedAll_eq_flatten (sep : α) (chunks : List (List α)) :
    feedAll sep chunks = feedChunk sep ([], []) chunks.flatten := by
  unfold feedAll
  generalize (([], []) : List (List α) × List α) = st
  induction chunks generalizing st with
  | nil => simp [feedChunk]
  | cons c cs ih => simp [List.foldl_cons, ih, feedChunk, List.foldl_append]

/-- chunk independence: any two chunkings of the same stream give the same lines and tail -/
theorem chunk_independent (sep : α) (c₁ c₂ : List (List α)) (h : c₁.flatten = c₂.flatten) :
    feedAll sep c₁ = feedAll sep c₂ := by
  rw [feedAll_eq_flatten, feedAll_eq_flatten, h]

end Pr.Lines
