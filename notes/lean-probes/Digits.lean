/-! Feasibility probe for C13: the (translated) cutoff chain agrees with lexicographic
    order on the eight digits of `dddd-dd-dd`, for all digit values. -/
namespace Pr.Digits

/-- shape of what the translator will generate from `supports_batching`'s if/elif chain -/
def supportsBatchingGen (year month day : Int) : Bool :=
  if year > 2025 then false
  else if year == 2025 && month > 6 then false
  else if year == 2025 && month == 6 && day ≥ 18 then false
  else true

def lexLt : List Int → List Int → Bool
  | [], [] => false
  | [], _ :: _ => true
  | _ :: _, [] => false
  | a :: as, b :: bs => if a < b then true else if a > b then false else lexLt as bs

theorem iff_before_cutoff (a b c d e f g h : Int)
    (ha : 0 ≤ a ∧ a < 10) (hb : 0 ≤ b ∧ b < 10) (hc : 0 ≤ c ∧ c < 10) (hd : 0 ≤ d ∧ d < 10)
    (he : 0 ≤ e ∧ e < 10) (hf : 0 ≤ f ∧ f < 10) (hg : 0 ≤ g ∧ g < 10) (hh : 0 ≤ h ∧ h < 10) :
    supportsBatchingGen (1000*a+100*b+10*c+d) (10*e+f) (10*g+h)
      = lexLt [a,b,c,d,e,f,g,h] [2,0,2,5,0,6,1,8] := by
  simp only [supportsBatchingGen, lexLt]
  grind (splits := 80)

/-- finite generated tables: disjointness / partition by kernel evaluation -/
def nonRetryable : List Int := [-32700, -32600, -32601, -32602, -32003, -32005, -32006, -32007, -32008, -32000]
def retryable : List Int := [-32603, -32001, -32002, -32004]
def named : List Int := [-32700, -32600, -32601, -32602, -32603, -32000, -32001, -32002, -32003, -32004, -32005, -32006, -32007, -32008]
def isRetryableGen (code : Int) : Bool := !(nonRetryable.contains code)

theorem sets_disjoint : ∀ c ∈ nonRetryable, c ∉ retryable := by decide +kernel
theorem named_partition : ∀ c ∈ named, (c ∈ nonRetryable ∧ c ∉ retryable) ∨ (c ∈ retryable ∧ c ∉ nonRetryable) := by
  decide +kernel
theorem total (c : Int) : isRetryableGen c = false ↔ c ∈ nonRetryable := by
  simp [isRetryableGen]

end Pr.Digits
