/-! Feasibility probe: timed model of `_await_response` with well-founded recursion,
    deadline bound and result soundness. (Design-phase probe; the real model adds
    written messages, Json payloads and the cancel notification.) -/
namespace Pr.Await

inductive Id where
  | int (i : Int) | str (s : String)
  deriving DecidableEq, Repr

inductive In where
  | resp (id : Id) (payload : Nat)
  | err (id : Id) (code : Int)
  | req (id : Id)
  | notif
  | progress (token : String) (v : Nat)
  | batch
  deriving DecidableEq, Repr

structure Cfg where
  reqId : Id
  D : Nat
  P : Nat
  hP : 0 < P
  cancelAt : Option Nat
  token : Option String
  eventsFirst : Bool

inductive Outcome where
  | returned (p : Nat) (t : Nat)
  | raised (code : Int) (t : Nat)
  | timedOut (t : Nat)
  | cancelled (t : Nat)
  deriving DecidableEq, Repr

def Outcome.time : Outcome → Nat
  | .returned _ t | .raised _ t | .timedOut t | .cancelled t => t

def cancelVisible (cfg : Cfg) (t : Nat) (fresh : Bool) : Bool :=
  match cfg.cancelAt with
  | none => false
  | some c => if cfg.eventsFirst || !fresh then c ≤ t else c < t

def arrivesInTime (cfg : Cfg) (a lim : Nat) : Bool :=
  if cfg.eventsFirst then a ≤ lim else a < lim

inductive Cls where
  | ret (p : Nat) | raise (c : Int) | progress (v : Nat) | skip

def classify (cfg : Cfg) : In → Cls
  | .resp id p => if id = cfg.reqId then .ret p else .skip
  | .err id c => if id = cfg.reqId then .raise c else .skip
  | .progress tok v => if cfg.token = some tok then .progress v else .skip
  | _ => .skip

def run (cfg : Cfg) (t : Nat) (fresh : Bool) (ev : List (Nat × In)) (cbs : List Nat) :
    Outcome × List Nat :=
  if cancelVisible cfg t fresh then (.cancelled t, cbs)
  else if cfg.D ≤ t then (.timedOut cfg.D, cbs)
  else
    let lim := min (t + cfg.P) cfg.D
    match ev with
    | [] =>
      if cfg.D ≤ t + cfg.P then (.timedOut cfg.D, cbs)
      else run cfg (t + cfg.P) true [] cbs
    | (a, m) :: rest =>
      if a ≤ t ∨ arrivesInTime cfg a lim then
        let t' := max a t
        match classify cfg m with
        | .ret p => (.returned p t', cbs)
        | .raise c => (.raised c t', cbs)
        | .progress v => run cfg t' false rest (cbs ++ [v])
        | .skip => run cfg t' false rest cbs
      else if cfg.D ≤ t + cfg.P then (.timedOut cfg.D, cbs)
      else run cfg (t + cfg.P) true ((a, m) :: rest) cbs
termination_by (ev.length, cfg.D - t)
decreasing_by
  all_goals simp_wf
  all_goals first
    | (apply Prod.Lex.right; have := cfg.hP; omega)
    | (apply Prod.Lex.left; simp)

/-- C14 (deadline): whatever the traffic, completion is never later than the deadline. -/
theorem run_deadline (cfg : Cfg) (t : Nat) (fresh : Bool) (ev : List (Nat × In)) (cbs : List Nat)
    (ht : t ≤ cfg.D) : (run cfg t fresh ev cbs).1.time ≤ cfg.D := by
  fun_induction run cfg t fresh ev cbs <;> simp_all [Outcome.time, arrivesInTime] <;> try omega
  all_goals (first | (split at * <;> omega) | (rename_i h; rcases h with h | h <;> (try split at h) <;> omega))

theorem classify_ret (cfg : Cfg) (m : In) (p : Nat) (h : classify cfg m = .ret p) :
    m = .resp cfg.reqId p := by
  cases m <;> simp [classify] at h
  all_goals (try (split at h <;> simp_all))

/-- C01 (soundness): a normal return is the payload of a *response* carrying the request's id
    that occurs in the history. -/
theorem run_result_sound (cfg : Cfg) (t : Nat) (fresh : Bool) (ev : List (Nat × In)) (cbs : List Nat)
    (p t' : Nat) (h : (run cfg t fresh ev cbs).1 = .returned p t') :
    ∃ a, (a, In.resp cfg.reqId p) ∈ ev := by
  fun_induction run cfg t fresh ev cbs
  all_goals (try (simp_all; done))
  case case5 a m rest _ _ p' hc =>
    simp at h
    obtain ⟨rfl, _⟩ := h
    exact ⟨a, by rw [classify_ret cfg m _ hc]; simp⟩
  case case7 ih => obtain ⟨a, ha⟩ := ih h; exact ⟨a, List.mem_cons_of_mem _ ha⟩
  case case8 ih => obtain ⟨a, ha⟩ := ih h; exact ⟨a, List.mem_cons_of_mem _ ha⟩

end Pr.Await
