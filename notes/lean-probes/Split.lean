/-! Feasibility probe: the *code-shaped* reader (`buffer += chunk; lines = buffer.split(sep);
    buffer = lines[-1]`) emits exactly the lines of the concatenated stream. -/
namespace Pr.Split

variable {α : Type} [DecidableEq α]

/-- Python's `str.split(sep)` for a one-element separator: never empty. Returns (complete lines, tail). -/
def split (sep : α) : List α → List (List α) × List α
  | [] => ([], [])
  | x :: xs =>
    let r := split sep xs
    if x = sep then
      ([] :: r.1, r.2)
    else
      match r.1 with
      | [] => ([], x :: r.2)
      | l :: ls => ((x :: l) :: ls, r.2)

theorem split_append (sep : α) (a b : List α) :
    split sep (a ++ b) =
      ((split sep a).1 ++ (split sep ((split sep a).2 ++ b)).1, (split sep ((split sep a).2 ++ b)).2) := by
  induction a with
  | nil => simp [split]
  | cons x xs ih =>
    simp only [List.cons_append, split]
    rw [ih]
    by_cases hx : x = sep
    · simp [hx]
    · simp only [hx, if_false]
      cases h1 : (split sep xs).1 with
      | nil =>
        simp only [List.nil_append]
        -- tail of xs has no separator: x is prepended to the first line of what follows
        cases h2 : (split sep ((split sep xs).2 ++ b)).1 with
        | nil => simp [split, hx, h2]
        | cons l ls => simp [split, hx, h2]
      | cons l ls => simp

/-- one reader step as in the code -/
def step (sep : α) (buf : List α) (chunk : List α) : List (List α) × List α :=
  split sep (buf ++ chunk)

/-- run over chunks, collecting emitted lines -/
def run (sep : α) : List α → List (List α) → List (List α) × List α
  | buf, [] => ([], buf)
  | buf, c :: cs =>
    let s := step sep buf c
    let r := run sep s.2 cs
    (s.1 ++ r.1, r.2)

/-- the tail returned by `split` contains no separator, so splitting it again is a no-op -/
theorem split_tail (sep : α) (l : List α) :
    split sep (split sep l).2 = ([], (split sep l).2) := by
  induction l with
  | nil => simp [split]
  | cons x xs ih =>
    simp only [split]
    by_cases hx : x = sep
    · simp [hx, ih]
    · simp only [hx, if_false]
      cases h1 : (split sep xs).1 with
      | nil => simp [split, hx, ih]
      | cons l ls => simp [ih]

theorem run_eq (sep : α) (buf : List α) (chunks : List (List α))
    (hbuf : split sep buf = ([], buf)) :
    run sep buf chunks = split sep (buf ++ chunks.flatten) := by
  induction chunks generalizing buf with
  | nil => simp [run, hbuf]
  | cons c cs ih =>
    simp only [run, step, List.flatten_cons]
    rw [ih _ (split_tail sep (buf ++ c)), ← List.append_assoc, split_append sep (buf ++ c)]

/-- the reader started with an empty buffer emits exactly the lines of the whole stream,
    whatever the chunking -/
theorem run_chunk_independent (sep : α) (c₁ c₂ : List (List α)) (h : c₁.flatten = c₂.flatten) :
    run sep [] c₁ = run sep [] c₂ := by
  rw [run_eq sep [] c₁ (by simp [split]), run_eq sep [] c₂ (by simp [split]), h]

end Pr.Split
