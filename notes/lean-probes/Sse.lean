/-! Feasibility probe for C11: the (repaired) SSE line parser recovers every event from
    every conformant rendering: event field present or absent, space after the colon or
    not, comment lines anywhere before a field line.  Line level (after LF split and CR
    strip, which `Split.lean` covers). -/
namespace Pr.Sse

abbrev Str := List Char

structure St where
  ev : Option Str
  data : List Str
  out : List (Str × Str)
  deriving Repr

def clean (out : List (Str × Str)) : St := { ev := none, data := [], out := out }

/-- `line.partition(":")` : text before the first colon, text after it -/
def partitionColon : Str → Str × Str
  | [] => ([], [])
  | c :: cs => if c = ':' then ([], cs) else let r := partitionColon cs; (c :: r.1, r.2)

def stripOneSpace : Str → Str
  | ' ' :: cs => cs
  | cs => cs

def joinNl : List Str → Str
  | [] => []
  | [l] => l
  | l :: ls => l ++ '\n' :: joinNl ls

def dispatch (st : St) : St :=
  if st.data = [] then { st with ev := none }
  else clean (st.out ++ [(st.ev.getD "message".toList, joinNl st.data)])

def stepLine (st : St) (line : Str) : St :=
  if line = [] then dispatch st
  else if line.head? = some ':' then st
  else
    let r := partitionColon line
    let v := stripOneSpace r.2
    if r.1 = "event".toList then { st with ev := some v }
    else if r.1 = "data".toList then { st with data := st.data ++ [v] }
    else st

def parseLines (ls : List Str) : List (Str × Str) := (dispatch (ls.foldl stepLine (clean []))).out

/-! ### conformant renderings -/

structure FieldChoice where
  space : Bool            -- "data: x" or "data:x"
  comments : List Str     -- comment bodies emitted before this field line

def renderField (name : Str) (v : Str) (c : FieldChoice) : List Str :=
  c.comments.map (fun b => ':' :: b) ++ [name ++ ':' :: (if c.space then ' ' :: v else v)]

structure Event where
  name : Option Str        -- none = no event field on the wire (defaults to "message")
  data : List Str
  nameChoice : FieldChoice
  dataChoices : List FieldChoice   -- one per data line (zipped; missing ones default)

def dflt : FieldChoice := { space := true, comments := [] }

def renderData : List Str → List FieldChoice → List Str
  | [], _ => []
  | d :: ds, [] => renderField "data".toList d dflt ++ renderData ds []
  | d :: ds, c :: cs => renderField "data".toList d c ++ renderData ds cs

def renderEvent (e : Event) : List Str :=
  (match e.name with
   | none => []
   | some n => renderField "event".toList n e.nameChoice)
  ++ renderData e.data e.dataChoices ++ [[]]

/-- a value may be written without the optional space only if it does not itself start with one -/
def okVal (v : Str) (c : FieldChoice) : Prop := c.space = true ∨ v.head? ≠ some ' '

theorem partitionColon_field (name v : Str) (hn : ':' ∉ name) :
    partitionColon (name ++ ':' :: v) = (name, v) := by
  induction name with
  | nil => simp [partitionColon]
  | cons c cs ih =>
    have hc : c ≠ ':' := by intro h; simp [h] at hn
    have hcs : ':' ∉ cs := by intro h; exact hn (List.mem_cons_of_mem _ h)
    simp [partitionColon, hc, ih hcs]

theorem strip_value (v : Str) (c : FieldChoice) (h : okVal v c) :
    stripOneSpace (if c.space then ' ' :: v else v) = v := by
  cases hs : c.space with
  | true => simp [stripOneSpace]
  | false =>
    rcases h with h | h
    · simp [hs] at h
    · cases v with
      | nil => simp [stripOneSpace]
      | cons x xs =>
        have : x ≠ ' ' := by intro hx; simp [hx] at h
        simp [stripOneSpace]
        split <;> simp_all

theorem fold_comments (st : St) (bs : List Str) :
    (bs.map (fun b => ':' :: b)).foldl stepLine st = st := by
  induction bs generalizing st with
  | nil => rfl
  | cons b bs ih => simp [List.foldl_cons, stepLine, ih]


theorem step_field_line (st : St) (name v : Str) (c : FieldChoice) (hn : ':' ∉ name) (hne : name ≠ [])
    (hh : name.head? ≠ some ':') (hv : okVal v c) :
    stepLine st (name ++ ':' :: (if c.space then ' ' :: v else v)) =
      (if name = "event".toList then { st with ev := some v }
       else if name = "data".toList then { st with data := st.data ++ [v] } else st) := by
  have h1 : (name ++ ':' :: (if c.space then ' ' :: v else v)) ≠ [] := by
    cases name <;> simp_all
  have h2 : (name ++ ':' :: (if c.space then ' ' :: v else v)).head? ≠ some ':' := by
    cases name <;> simp_all
  simp only [stepLine, h1, h2, if_false, partitionColon_field _ _ hn, strip_value v c hv]

theorem fold_renderField (st : St) (name v : Str) (c : FieldChoice) (hn : ':' ∉ name) (hne : name ≠ [])
    (hh : name.head? ≠ some ':') (hv : okVal v c) :
    (renderField name v c).foldl stepLine st =
      (if name = "event".toList then { st with ev := some v }
       else if name = "data".toList then { st with data := st.data ++ [v] } else st) := by
  simp only [renderField, List.foldl_append, fold_comments, List.foldl_cons, List.foldl_nil]
  exact step_field_line st name v c hn hne hh hv

def okData : List Str → List FieldChoice → Prop
  | [], _ => True
  | d :: ds, [] => okVal d dflt ∧ okData ds []
  | d :: ds, c :: cs => okVal d c ∧ okData ds cs

theorem fold_renderData (st : St) (ds : List Str) (cs : List FieldChoice) (h : okData ds cs) :
    (renderData ds cs).foldl stepLine st = { st with data := st.data ++ ds } := by
  induction ds generalizing st cs with
  | nil => simp [renderData]
  | cons d ds ih =>
    cases cs with
    | nil =>
      simp only [renderData, List.foldl_append]
      rw [fold_renderField st _ d dflt (by decide) (by decide) (by decide) h.1, ih _ [] h.2]
      simp
    | cons c cs =>
      simp only [renderData, List.foldl_append]
      rw [fold_renderField st _ d c (by decide) (by decide) (by decide) h.1, ih _ cs h.2]
      simp

/-- conformance conditions on one event's rendering -/
def okEvent (e : Event) : Prop :=
  e.data ≠ [] ∧ okData e.data e.dataChoices ∧
  (∀ n, e.name = some n → okVal n e.nameChoice)

theorem fold_renderEvent (out : List (Str × Str)) (e : Event) (h : okEvent e) :
    (renderEvent e).foldl stepLine (clean out) =
      clean (out ++ [(e.name.getD "message".toList, joinNl e.data)]) := by
  obtain ⟨hne, hd, hn⟩ := h
  simp only [renderEvent, List.foldl_append, List.foldl_cons, List.foldl_nil]
  cases hname : e.name with
  | none =>
    simp only [List.foldl_nil]
    rw [fold_renderData _ _ _ hd]
    simp [stepLine, dispatch, clean, hne]
  | some n =>
    rw [fold_renderField _ _ n e.nameChoice (by decide) (by decide) (by decide) (hn n hname)]
    rw [fold_renderData _ _ _ hd]
    simp [stepLine, dispatch, clean, hne]

/-- C11 (line level): every event of every conformant rendering is recovered, in order,
    with its event type defaulted to "message" and its data lines joined by LF. -/
theorem parse_render (evs : List Event) (h : ∀ e ∈ evs, okEvent e) :
    parseLines (evs.flatMap renderEvent) =
      evs.map (fun e => (e.name.getD "message".toList, joinNl e.data)) := by
  have key : ∀ (out : List (Str × Str)) (evs : List Event), (∀ e ∈ evs, okEvent e) →
      (evs.flatMap renderEvent).foldl stepLine (clean out) =
        clean (out ++ evs.map (fun e => (e.name.getD "message".toList, joinNl e.data))) := by
    intro out evs
    induction evs generalizing out with
    | nil => intro _; simp
    | cons e es ih =>
      intro h
      simp only [List.flatMap_cons, List.foldl_append]
      rw [fold_renderEvent out e (h e (by simp)), ih _ (fun x hx => h x (by simp [hx]))]
      simp
  simp only [parseLines, key [] evs h]
  simp [dispatch, clean]

end Pr.Sse
