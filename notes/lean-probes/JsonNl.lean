/-! Feasibility probe: a compact JSON encoder never emits a raw line break. -/
namespace Pr.JsonNl

inductive Json where
  | null | bool (b : Bool) | int (digits : List Char) | str (s : List Char)
  | arr (xs : List Json) | obj (kvs : List (List Char × Json))

def hex (n : Nat) : Char := if n < 10 then Char.ofNat (48 + n) else Char.ofNat (87 + n)

def escChar (c : Char) : List Char :=
  if c = '"' then ['\\', '"'] else if c = '\\' then ['\\', '\\']
  else if c = '\n' then ['\\', 'n'] else if c = '\r' then ['\\', 'r'] else if c = '\t' then ['\\', 't']
  else if c.toNat < 32 then ['\\', 'u', '0', '0', hex (c.toNat / 16), hex (c.toNat % 16)] else [c]

def encStr (s : List Char) : List Char := '"' :: s.flatMap escChar ++ ['"']

mutual
def enc : Json → List Char
  | .null => ['n','u','l','l']
  | .bool true => ['t','r','u','e']
  | .bool false => ['f','a','l','s','e']
  | .int ds => ds
  | .str s => encStr s
  | .arr xs => '[' :: (encList xs ++ [']'])
  | .obj kvs => '{' :: (encKvs kvs ++ ['}'])
def encList : List Json → List Char
  | [] => []
  | [x] => enc x
  | x :: y :: xs => enc x ++ (',' :: encList (y :: xs))
def encKvs : List (List Char × Json) → List Char
  | [] => []
  | [(k, v)] => encStr k ++ (':' :: enc v)
  | (k, v) :: kv :: kvs => encStr k ++ (':' :: (enc v ++ (',' :: encKvs (kv :: kvs))))
end

def NoBreak (l : List Char) : Prop := '\n' ∉ l ∧ '\r' ∉ l

theorem hex_ne (n : Nat) (h : n < 16) : hex n ≠ '\n' ∧ hex n ≠ '\r' := by
  have : ∀ n, n < 16 → hex n ≠ '\n' ∧ hex n ≠ '\r' := by decide
  exact this n h

theorem escChar_noBreak (c : Char) : NoBreak (escChar c) := by
  unfold escChar NoBreak
  have h16 : c.toNat < 32 → c.toNat / 16 < 16 ∧ c.toNat % 16 < 16 := by omega
  split <;> try (simp; done)
  split <;> try (simp; done)
  split <;> try (simp; done)
  split <;> try (simp; done)
  split <;> try (simp; done)
  split
  · rename_i h; have := hex_ne _ (h16 h).1; have := hex_ne _ (h16 h).2
    simp; grind
  · simp; constructor <;> (intro h; subst h; simp_all)

theorem flatMap_noBreak (s : List Char) : NoBreak (s.flatMap escChar) := by
  induction s with
  | nil => simp [NoBreak]
  | cons c cs ih =>
    have := escChar_noBreak c
    simp only [NoBreak, List.flatMap_cons, List.mem_append] at *
    grind

theorem encStr_noBreak (s : List Char) : NoBreak (encStr s) := by
  have := flatMap_noBreak s
  simp only [NoBreak, encStr] at *
  simp; grind

/-- digits of an integer literal: sign and decimal digits only -/
def IntTok (ds : List Char) : Prop := ∀ c ∈ ds, c = '-' ∨ c.isDigit

inductive WF : Json → Prop
  | null : WF .null
  | bool b : WF (.bool b)
  | int ds : IntTok ds → WF (.int ds)
  | str s : WF (.str s)
  | arr xs : (∀ x ∈ xs, WF x) → WF (.arr xs)
  | obj kvs : (∀ kv ∈ kvs, WF kv.2) → WF (.obj kvs)


theorem noBreak_append {a b : List Char} (ha : NoBreak a) (hb : NoBreak b) : NoBreak (a ++ b) := by
  simp only [NoBreak, List.mem_append] at *; grind

theorem noBreak_cons {c : Char} {a : List Char} (hc : c ≠ '\n' ∧ c ≠ '\r') (ha : NoBreak a) :
    NoBreak (c :: a) := by
  simp only [NoBreak, List.mem_cons] at *; grind

theorem intTok_noBreak (ds : List Char) (h : IntTok ds) : NoBreak ds := by
  constructor <;> intro hm <;> have := h _ hm <;> simp at this

mutual
theorem enc_noBreak : ∀ v : Json, WF v → NoBreak (enc v)
  | .null, _ => by simp [enc, NoBreak]
  | .bool true, _ => by simp [enc, NoBreak]
  | .bool false, _ => by simp [enc, NoBreak]
  | .int ds, h => by cases h with | int _ h => exact intTok_noBreak ds h
  | .str s, _ => encStr_noBreak s
  | .arr xs, h => by
      cases h with
      | arr _ h =>
        simp only [enc]
        exact noBreak_cons (by decide) (noBreak_append (encList_noBreak xs h) (by simp [NoBreak]))
  | .obj kvs, h => by
      cases h with
      | obj _ h =>
        simp only [enc]
        exact noBreak_cons (by decide) (noBreak_append (encKvs_noBreak kvs h) (by simp [NoBreak]))
theorem encList_noBreak : ∀ xs : List Json, (∀ x ∈ xs, WF x) → NoBreak (encList xs)
  | [], _ => by simp [encList, NoBreak]
  | [x], h => by simp only [encList]; exact enc_noBreak x (h x (by simp))
  | x :: y :: xs, h => by
      simp only [encList]
      exact noBreak_append (enc_noBreak x (h x (by simp)))
        (noBreak_cons (by decide) (encList_noBreak (y :: xs) (fun z hz => h z (by simp [hz]))))
theorem encKvs_noBreak : ∀ kvs : List (List Char × Json), (∀ kv ∈ kvs, WF kv.2) → NoBreak (encKvs kvs)
  | [], _ => by simp [encKvs, NoBreak]
  | [(k, v)], h => by
      simp only [encKvs]
      exact noBreak_append (encStr_noBreak k) (noBreak_cons (by decide) (enc_noBreak v (h (k, v) (by simp))))
  | (k, v) :: kv :: kvs, h => by
      simp only [encKvs]
      exact noBreak_append (encStr_noBreak k) (noBreak_cons (by decide)
        (noBreak_append (enc_noBreak v (h (k, v) (by simp)))
          (noBreak_cons (by decide) (encKvs_noBreak (kv :: kvs) (fun z hz => h z (by simp [hz]))))))
end

end Pr.JsonNl
