/-! Feasibility probe for C17/C02: the leaf round trips of a JSON codec —
    string bodies with escapes, and decimal integers. -/
namespace Pr.JsonLeaf

def hexDigit (n : Nat) : Char := if n < 10 then Char.ofNat (48 + n) else Char.ofNat (87 + n)
def hexVal (c : Char) : Option Nat :=
  if '0' ≤ c ∧ c ≤ '9' then some (c.toNat - 48)
  else if 'a' ≤ c ∧ c ≤ 'f' then some (c.toNat - 87)
  else if 'A' ≤ c ∧ c ≤ 'F' then some (c.toNat - 55) else none

def escChar (c : Char) : List Char :=
  if c = '"' then ['\\', '"'] else if c = '\\' then ['\\', '\\']
  else if c = '\n' then ['\\', 'n'] else if c = '\r' then ['\\', 'r'] else if c = '\t' then ['\\', 't']
  else if c = '\x08' then ['\\', 'b'] else if c = '\x0c' then ['\\', 'f']
  else if c.toNat < 32 then ['\\', 'u', '0', '0', hexDigit (c.toNat / 16), hexDigit (c.toNat % 16)] else [c]

/-- parse a string body up to and including the closing quote -/
def parseStrBody : List Char → Option (List Char × List Char)
  | [] => none
  | '"' :: rest => some ([], rest)
  | '\\' :: 'u' :: a :: b :: c :: d :: rest =>
    match hexVal a, hexVal b, hexVal c, hexVal d, parseStrBody rest with
    | some a, some b, some c, some d, some (s, r) => some (Char.ofNat (((a * 16 + b) * 16 + c) * 16 + d) :: s, r)
    | _, _, _, _, _ => none
  | '\\' :: e :: rest =>
    let ch : Option Char :=
      if e = '"' then some '"' else if e = '\\' then some '\\' else if e = '/' then some '/'
      else if e = 'n' then some '\n' else if e = 'r' then some '\r' else if e = 't' then some '\t'
      else if e = 'b' then some '\x08' else if e = 'f' then some '\x0c' else none
    match ch, parseStrBody rest with
    | some ch, some (s, r) => some (ch :: s, r)
    | _, _ => none
  | c :: rest =>
    if c.toNat < 32 then none else
    match parseStrBody rest with
    | some (s, r) => some (c :: s, r)
    | none => none

theorem hex_low (c : Char) (h : c.toNat < 32) :
    hexVal (hexDigit (c.toNat / 16)) = some (c.toNat / 16) ∧
    hexVal (hexDigit (c.toNat % 16)) = some (c.toNat % 16) := by
  have key : ∀ n, n < 16 → hexVal (hexDigit n) = some n := by decide
  exact ⟨key _ (by omega), key _ (by omega)⟩

theorem char_of_low (c : Char) (h : c.toNat < 32) :
    Char.ofNat (((0 * 16 + 0) * 16 + c.toNat / 16) * 16 + c.toNat % 16) = c := by
  have : ((0 * 16 + 0) * 16 + c.toNat / 16) * 16 + c.toNat % 16 = c.toNat := by omega
  rw [this]; exact Char.ofNat_toNat c

theorem parse_esc (c : Char) (tail : List Char) (s r : List Char)
    (ih : parseStrBody tail = some (s, r)) :
    parseStrBody (escChar c ++ tail) = some (c :: s, r) := by
  unfold escChar
  split
  · subst_vars; simp [parseStrBody, ih]
  split
  · subst_vars; simp [parseStrBody, ih]
  split
  · subst_vars; simp [parseStrBody, ih]
  split
  · subst_vars; simp [parseStrBody, ih]
  split
  · subst_vars; simp [parseStrBody, ih]
  split
  · subst_vars; simp [parseStrBody, ih]
  split
  · subst_vars; simp [parseStrBody, ih]
  split
  · rename_i hlt
    have hx := hex_low c hlt
    have h0 : hexVal '0' = some 0 := by decide
    simp only [List.cons_append, List.nil_append, parseStrBody, h0, hx.1, hx.2, ih]
    have : c.toNat / 16 * 16 + c.toNat % 16 = c.toNat := by omega
    simp [this, Char.ofNat_toNat]
  · rename_i h1 h2 h3 h4 h5 h6 h7 h8
    simp only [List.cons_append, List.nil_append]
    have hq : c ≠ '"' := h1
    have hb : c ≠ '\\' := h2
    unfold parseStrBody
    split
    · simp_all
    · simp_all
    · simp_all
    · simp_all
    · rename_i heq
      simp at heq
      obtain ⟨rfl, rfl⟩ := heq
      simp [h8, ih]


/-- string bodies round-trip: escape, append the closing quote and anything after it, parse -/
theorem parseStrBody_esc (s rest : List Char) :
    parseStrBody (s.flatMap escChar ++ '"' :: rest) = some (s, rest) := by
  induction s with
  | nil => simp [parseStrBody]
  | cons c cs ih =>
    simp only [List.flatMap_cons, List.append_assoc]
    exact parse_esc c _ cs rest ih

/-! ### decimal integers -/

def digitChar (n : Nat) : Char := Char.ofNat (48 + n)

def digits (n : Nat) : List Char :=
  if n < 10 then [digitChar n] else digits (n / 10) ++ [digitChar (n % 10)]
termination_by n
decreasing_by omega

def digitVal (c : Char) : Nat := c.toNat - 48
def isDig (c : Char) : Bool := 48 ≤ c.toNat && c.toNat ≤ 57

/-- greedy digit reader with accumulator, as a decoder does it -/
def readNat (acc : Nat) : List Char → Nat × List Char
  | [] => (acc, [])
  | c :: cs => if isDig c then readNat (acc * 10 + digitVal c) cs else (acc, c :: cs)

theorem digitChar_props (n : Nat) (h : n < 10) : isDig (digitChar n) = true ∧ digitVal (digitChar n) = n := by
  have : ∀ n, n < 10 → isDig (digitChar n) = true ∧ digitVal (digitChar n) = n := by decide
  exact this n h

theorem readNat_append_digit (acc : Nat) (l : List Char) (k : Nat) (rest : List Char)
    (hl : ∀ c ∈ l, isDig c = true) (hk : k < 10) (hrest : ∀ c, rest.head? = some c → isDig c = false) :
    readNat acc (l ++ digitChar k :: rest) = ((readNat acc l).1 * 10 + k, rest) := by
  induction l generalizing acc with
  | nil =>
    have := digitChar_props k hk
    simp only [List.nil_append, readNat, this.1, this.2, if_true]
    cases rest with
    | nil => simp [readNat]
    | cons r rs => simp [readNat, hrest r (by simp)]
  | cons c cs ih =>
    have hc := hl c (by simp)
    simp only [List.cons_append, readNat, hc, if_true]
    exact ih _ (fun x hx => hl x (by simp [hx]))

theorem digits_allDig (n : Nat) : ∀ c ∈ digits n, isDig c = true := by
  induction n using Nat.strongRecOn with
  | _ n ih =>
    unfold digits
    split
    · rename_i h; intro c hc; simp at hc; subst hc; exact (digitChar_props n h).1
    · rename_i h
      intro c hc
      simp only [List.mem_append, List.mem_singleton] at hc
      rcases hc with hc | hc
      · exact ih (n / 10) (by omega) c hc
      · subst hc; exact (digitChar_props (n % 10) (by omega)).1

theorem readNat_all (acc : Nat) (l : List Char) (hl : ∀ c ∈ l, isDig c = true) :
    (readNat acc l).2 = [] := by
  induction l generalizing acc with
  | nil => simp [readNat]
  | cons c cs ih => simp [readNat, hl c (by simp)]; exact ih _ (fun x hx => hl x (by simp [hx]))

/-- decimal round trip: reading the digits of `n` (followed by a non-digit or nothing) gives `n` back -/
theorem readNat_digits (n : Nat) (rest : List Char) (hrest : ∀ c, rest.head? = some c → isDig c = false) :
    readNat 0 (digits n ++ rest) = (n, rest) := by
  induction n using Nat.strongRecOn generalizing rest with
  | _ n ih =>
    unfold digits
    split
    · rename_i h
      have := readNat_append_digit 0 [] n rest (by simp) h hrest
      simpa [readNat] using this
    · rename_i h
      have h10 : n / 10 < n := by omega
      rw [List.append_assoc]
      simp only [List.singleton_append]
      rw [readNat_append_digit 0 (digits (n / 10)) (n % 10) rest (digits_allDig _) (by omega) hrest]
      have := ih (n / 10) h10 [] (by simp)
      simp only [List.append_nil] at this
      rw [this]
      simp; omega

end Pr.JsonLeaf
