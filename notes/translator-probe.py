"""Design-phase probe: translate two tiny pure functions of chuk-mcp from their Python AST
into Lean source text (restricted subset), and list what falls outside the subset."""
import ast, sys, pathlib
SRC = pathlib.Path("/repo/src/chuk_mcp")

class Untranslatable(Exception): pass

def expr(e, env):
    if isinstance(e, ast.Constant):
        if isinstance(e.value, bool): return "true" if e.value else "false"
        if isinstance(e.value, int): return f"({e.value} : Int)"
        raise Untranslatable(ast.dump(e))
    if isinstance(e, ast.UnaryOp) and isinstance(e.op, ast.USub): return f"(-{expr(e.operand, env)})"
    if isinstance(e, ast.UnaryOp) and isinstance(e.op, ast.Not): return f"(!{expr(e.operand, env)})"
    if isinstance(e, ast.Name):
        if e.id in env: return env[e.id]
        raise Untranslatable(f"name {e.id}")
    if isinstance(e, ast.BoolOp):
        op = " && " if isinstance(e.op, ast.And) else " || "
        return "(" + op.join(expr(v, env) for v in e.values) + ")"
    if isinstance(e, ast.Compare):
        parts=[]; left=e.left
        for op, right in zip(e.ops, e.comparators):
            l, r = expr(left, env), expr(right, env)
            if isinstance(op, ast.In): parts.append(f"({r}.contains {l})")
            elif isinstance(op, ast.NotIn): parts.append(f"(!({r}.contains {l}))")
            else:
                sym = {ast.Gt:">", ast.GtE:"≥", ast.Lt:"<", ast.LtE:"≤", ast.Eq:"==", ast.NotEq:"!="}[type(op)]
                parts.append(f"(decide ({l} {sym} {r}))" if sym not in ("==","!=") else f"({l} {sym} {r})")
            left = right
        return "(" + " && ".join(parts) + ")"
    raise Untranslatable(ast.dump(e)[:80])

def is_logging(stmt):
    return isinstance(stmt, ast.Expr) and isinstance(stmt.value, ast.Call) and isinstance(stmt.value.func, ast.Attribute) \
        and isinstance(stmt.value.func.value, ast.Name) and stmt.value.func.value.id in ("logger", "logging")

def block(stmts, env):
    """if/elif/else chain with returns of bool expressions -> Lean if-then-else"""
    stmts = [s for s in stmts if not is_logging(s) and not (isinstance(s, ast.Expr) and isinstance(s.value, ast.Constant))]
    if not stmts: raise Untranslatable("fallthrough")
    s, rest = stmts[0], stmts[1:]
    if isinstance(s, ast.Return): return expr(s.value, env)
    if isinstance(s, ast.If):
        then = block(s.body, env)
        els = block(s.orelse + rest, env) if (s.orelse or rest) else None
        if els is None: raise Untranslatable("if without else/fallthrough")
        return f"(if {expr(s.test, env)} then {then} else {els})"
    raise Untranslatable(type(s).__name__)

def find_func(tree, name):
    for n in ast.walk(tree):
        if isinstance(n, (ast.FunctionDef, ast.AsyncFunctionDef)) and n.name == name: return n
    raise KeyError(name)

# --- errors.py
et = ast.parse((SRC/"protocol/types/errors.py").read_text())
consts = {}; sets = {}
for n in et.body:
    if isinstance(n, ast.Assign) and len(n.targets)==1 and isinstance(n.targets[0], ast.Name):
        nm = n.targets[0].id
        try: v = ast.literal_eval(n.value)
        except Exception: v = None
        if isinstance(v, int) and not isinstance(v, bool): consts[nm]=v
        elif isinstance(n.value, ast.Set): sets[nm]=[consts[e.id] for e in n.value.elts]
        elif isinstance(n.value, ast.Dict) and nm=="ERROR_MESSAGES": sets["NAMED"]=[consts[k.id] for k in n.value.keys]
f = find_func(et, "is_retryable_error")
env = {"code":"code", **{k: k.lower().title().replace("_","") for k in sets}}
lean = ["namespace Verif.Gen.Errors"]
for k,v in sets.items(): lean.append(f"def {env.get(k,k.title())} : List Int := [{', '.join(map(str,v))}]")
lean.append(f"def isRetryableError (code : Int) : Bool := {block(f.body, env)}")
lean.append("end Verif.Gen.Errors")
print("\n".join(lean))

# --- batching.py : find the if-chain over year/month/day inside the try
bt = ast.parse((SRC/"protocol/features/batching.py").read_text())
f = find_func(bt, "supports_batching")
tr = next(s for s in f.body if isinstance(s, ast.Try))
# statements after the int() assignments
body = tr.body
idx = max(i for i,s in enumerate(body) if isinstance(s, ast.Assign) and isinstance(s.value, ast.Call) and getattr(s.value.func,'id',None)=="int")
names = [s.targets[0].id for s in body if isinstance(s, ast.Assign) and isinstance(s.value, ast.Call) and getattr(s.value.func,'id',None)=="int"]
print("-- int-bound names:", names)
env = {n:n for n in names}
print("def supportsBatchingGen (year month day : Int) : Bool :=", block(body[idx+1:], env))
# handler default literal
ph = ast.parse((SRC/"server/protocol_handler.py").read_text())
for n in ast.walk(ph):
    if isinstance(n, ast.Call) and isinstance(n.func, ast.Attribute) and n.func.attr=="get" and n.args and isinstance(n.args[0], ast.Constant) and n.args[0].value=="protocolVersion":
        print("-- default version literal:", ast.literal_eval(n.args[1]))
vt = ast.parse((SRC/"protocol/types/versioning.py").read_text())
for n in vt.body:
    if isinstance(n, ast.Assign) and getattr(n.targets[0],'id',None)=="SUPPORTED_VERSIONS": print("-- supported:", ast.literal_eval(n.value))
sm = ast.parse((SRC/"protocol/messages/send_message.py").read_text())
f = find_func(sm, "_await_response")
print("-- sub_timeout default:", [ast.literal_eval(d) for a,d in zip(f.args.args[-len(f.args.defaults):], f.args.defaults) if a.arg=="sub_timeout"])
