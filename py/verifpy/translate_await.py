"""Regenerates lean/Verif/Gen/AwaitChain.lean from the body of the receive loop of
`send_message._await_response` on every run: the DECISION CHAIN applied to each received message
(progress notification bearing the request's token -> callback and go on; other id -> skip; carries a
method -> skip; list -> skip; otherwise -> `_process_response`).

The message is seen through four attributes (what the code itself looks at):
    getattr(msg, "method", None)            -> v.method          : Option String
    getattr(msg, "id", None)                -> v.id              : Option Id
    (getattr(msg, "params", None) or {}).get("progressToken") -> v.progressToken : Option Id
    isinstance(msg, list)                   -> v.isList          : Bool
and the call's parameters `req_id`, `progress_token`, `progress_callback`.

Supported statement forms inside the loop body, after the `receive()` under the sub-timeout:
    NAME = getattr(msg, "<attr>", None) [or {}]
    if <cond>: <block>            (a block ends with `continue`, `return _process_response(msg)`, or falls through)
    try: await progress_callback(...) except ...: <effect-free>     (marks "callback invoked")
    logging calls, comments, docstrings
    continue / return _process_response(msg)
Conditions: and / or / not, ==, !=, `is None`, `is not None`, `isinstance(msg, list)`, truthiness of
`progress_token` / `progress_callback`, `<params>.get("progressToken")`, string constants.
Anything else is NOT guessed: `translatable := false`, a placeholder chain, a report line (the
theorem about it is stated under the flag and then holds vacuously; the correspondence run still
compares the hand-written model with the code).
"""
from __future__ import annotations

import ast

from . import translate
from .translate import Untranslatable


def _is_getattr(e, attr=None):
    return (isinstance(e, ast.Call) and isinstance(e.func, ast.Name) and e.func.id == "getattr" and len(e.args) == 3
            and isinstance(e.args[0], ast.Name) and e.args[0].id == "msg" and isinstance(e.args[1], ast.Constant)
            and isinstance(e.args[2], ast.Constant) and e.args[2].value is None and (attr is None or e.args[1].value == attr))


def _val(e, env):
    """Option-valued expressions"""
    if isinstance(e, ast.Constant) and e.value is None:
        return "none"
    if isinstance(e, ast.Constant) and isinstance(e.value, str):
        return f"(some {translate._lean_str(e.value)})"
    if isinstance(e, ast.Name):
        if e.id in env:
            return env[e.id]
        if e.id == "req_id":
            return "(some reqId)"
        if e.id == "progress_token":
            return "token"
        raise Untranslatable(f"name {e.id}")
    if _is_getattr(e, "method"):
        return "v.method"
    if _is_getattr(e, "id"):
        return "v.id"
    if isinstance(e, ast.Call) and isinstance(e.func, ast.Attribute) and e.func.attr == "get" and len(e.args) == 1 \
            and isinstance(e.args[0], ast.Constant) and e.args[0].value == "progressToken" \
            and isinstance(e.func.value, ast.Name) and env.get(e.func.value.id) == "<params>":
        return "v.progressToken"
    raise Untranslatable("value " + ast.dump(e)[:80])


def _cond(e, env):
    if isinstance(e, ast.BoolOp):
        op = " && " if isinstance(e.op, ast.And) else " || "
        return "(" + op.join(_cond(x, env) for x in e.values) + ")"
    if isinstance(e, ast.UnaryOp) and isinstance(e.op, ast.Not):
        return f"(!{_cond(e.operand, env)})"
    if isinstance(e, ast.Name) and e.id == "progress_token":
        return "token.isSome"
    if isinstance(e, ast.Name) and e.id == "progress_callback":
        return "hasCb"
    if isinstance(e, ast.Call) and isinstance(e.func, ast.Name) and e.func.id == "isinstance" and len(e.args) == 2 \
            and isinstance(e.args[0], ast.Name) and e.args[0].id == "msg" and isinstance(e.args[1], ast.Name) and e.args[1].id == "list":
        return "v.isList"
    if isinstance(e, ast.Compare) and len(e.ops) == 1:
        l, r, op = e.left, e.comparators[0], e.ops[0]
        if isinstance(op, ast.IsNot) and isinstance(r, ast.Constant) and r.value is None:
            return f"({_val(l, env)}).isSome"
        if isinstance(op, ast.Is) and isinstance(r, ast.Constant) and r.value is None:
            return f"({_val(l, env)}).isNone"
        if isinstance(op, ast.Eq):
            return f"({_val(l, env)} == {_val(r, env)})"
        if isinstance(op, ast.NotEq):
            return f"({_val(l, env)} != {_val(r, env)})"
    raise Untranslatable("condition " + ast.dump(e)[:80])


def _calls_callback(node):
    for n in ast.walk(node):
        if isinstance(n, ast.Await) and isinstance(n.value, ast.Call) and isinstance(n.value.func, ast.Name) \
                and n.value.func.id == "progress_callback":
            return True
    return False


def _block(stmts, k, env, cb):
    """Lean `Step` expression for the statements, `k` = the expression for what follows them."""
    stmts = [s for s in stmts if not translate._is_effect_free(s)]
    if not stmts:
        return k
    s, rest = stmts[0], stmts[1:]
    if isinstance(s, ast.Continue):
        return "Step.callback" if cb else "Step.skip"
    if isinstance(s, ast.Return):
        if isinstance(s.value, ast.Call) and isinstance(s.value.func, ast.Name) and s.value.func.id == "_process_response" \
                and len(s.value.args) == 1 and isinstance(s.value.args[0], ast.Name) and s.value.args[0].id == "msg":
            return "Step.finish"
        raise Untranslatable("return of something other than _process_response(msg)")
    if isinstance(s, ast.Assign) and len(s.targets) == 1 and isinstance(s.targets[0], ast.Name):
        name, v = s.targets[0].id, s.value
        sub = dict(env)
        if isinstance(v, ast.BoolOp) and isinstance(v.op, ast.Or) and len(v.values) == 2 and _is_getattr(v.values[0], "params") \
                and isinstance(v.values[1], ast.Dict) and not v.values[1].keys:
            sub[name] = "<params>"
        elif _is_getattr(v, "params"):
            raise Untranslatable("params used without `or {}`")
        else:
            sub[name] = _val(v, env)
        return _block(rest, k, sub, cb)
    if isinstance(s, ast.Try) and _calls_callback(s) and not s.finalbody and not s.orelse \
            and all(all(translate._is_effect_free(x) for x in h.body) for h in s.handlers):
        return _block(rest, k, env, True)
    if isinstance(s, ast.If):
        kk = _block(rest, k, env, cb)
        return f"(if {_cond(s.test, env)} then {_block(s.body, kk, env, cb)} else {_block(s.orelse, kk, env, cb)})"
    raise Untranslatable(type(s).__name__ + ": " + ast.unparse(s)[:60])


def _is_receive(s):
    """try: with anyio.fail_after(..): msg = await read_stream.receive()  except TimeoutError: continue
    or:  with anyio.move_on_after(..): msg = await ...receive()"""
    txt = ast.unparse(s)
    return isinstance(s, (ast.Try, ast.With, ast.AsyncWith)) and ".receive()" in txt and "msg" in txt


@translate.register("AwaitChain")
def gen_await_chain(src):
    report = {"file": "Gen/AwaitChain.lean", "untranslatable": []}
    body = "Step.skip"
    try:
        tree = ast.parse((src / "protocol" / "messages" / "send_message.py").read_text())
        fn = translate._find_func(tree, "_await_response")
        loops = [n for n in fn.body if isinstance(n, ast.While)]
        if len(loops) != 1 or not (isinstance(loops[0].test, ast.Constant) and loops[0].test.value is True):
            raise Untranslatable("expected exactly one `while True:` loop")
        stmts = list(loops[0].body)
        idx = [i for i, s in enumerate(stmts) if _is_receive(s)]
        if len(idx) != 1:
            raise Untranslatable("could not find the single receive() statement of the loop")
        after = stmts[idx[0] + 1:]
        # falling off the end of the loop body = next iteration = skip
        body = _block(after, "Step.skip", {}, False)
    except Untranslatable as ex:
        report["untranslatable"].append(f"send_message.py: _await_response: {ex}")
    except Exception as ex:  # noqa
        report["untranslatable"].append(f"send_message.py: _await_response: translator error {ex!r}")
    ok = "true" if not report["untranslatable"] else "false"
    # this Gen file is SUPPLEMENTARY for the properties that import it: its own flag gates the theorem
    report["aux_untranslatable"] = report.pop("untranslatable")
    report["untranslatable"] = []
    lean = f"""-- GENERATED by verifpy/translate_await.py from src/chuk_mcp/protocol/messages/send_message.py. Do not edit.
import Verif.Model.Await
namespace Verif.Gen.AwaitChain
open Verif.Model.Await

/-- `false` when the loop body fell outside the translator's subset (the chain below is then a placeholder) -/
def translatable : Bool := {ok}

/-- what `_await_response` looks at in a received message -/
structure View where
  isList : Bool
  method : Option String
  id : Option Id
  progressToken : Option Id

/-- what one loop iteration does with the message it received -/
inductive Step where
  /-- invoke the progress callback, then go on waiting -/
  | callback
  /-- go on waiting -/
  | skip
  /-- `return _process_response(msg)` -/
  | finish
  deriving DecidableEq, Repr

/-- the decision chain of the loop body, translated statement by statement -/
def chain (reqId : Id) (token : Option Id) (hasCb : Bool) (v : View) : Step :=
  {body}

end Verif.Gen.AwaitChain
"""
    return lean, report
