"""Generators for C11: server behaviours of the property's matrix, their rendering to bytes,
what the oracle may expect of each, and shrinking.

A case is self-contained JSON:
  {"session0": None|str, "reqs": [{"id": None|{"i":n}|{"s":str}, "dict": bool, "b": behaviour}]}
behaviour:
  {"exc": "connect"|"read_timeout"|"protocol"|"asyncio_timeout"}
  {"status": int, "ct": "json"|"sse"|"other"|"absent", "sess": None|str, "body": body}
body:
  {"form": "empty"}
  {"form": "json",  "msgs": [m]}            one JSON object
  {"form": "batch", "msgs": [m, ...]}       a JSON array
  {"form": "value", "v": <JSON value>}      JSON that is not a message
  {"form": "object", "v": <JSON object>}    a JSON object without JSON-RPC members (the library's unified
                                            message class accepts it as an empty message)
  {"form": "text",  "text": str}            not JSON
  {"form": "sse",   "events": [ev, ...], "eols": [bool, ...], "tail": "full"|"noblank"|"noeol"}
  optional: "cut": true (truncated to half its bytes), "bad": "lead"|"instr" (non-UTF-8 byte
  in front of the body / inside a string value)
ev: {"name": None|str, "data": [line, ...], "nc": choice, "dc": [choice, ...], "msg": m|None, "after": [ignored, ...]}
    data == [] is a data-less event (keep-alive): it dispatches nothing and resets the event type
choice: {"sp": bool, "before": [{"c": body} | {"id": v, "sp": bool} | {"retry": v, "sp": bool}]}
"""
from __future__ import annotations

import codecs
import copy
import itertools
import json
import re

# ------------------------------------------------------------------------------- messages

def idval(i):
    if i is None:
        return None
    return i["i"] if "i" in i else i["s"]


def idtag(v):
    """typed canonical id of a Python value"""
    if v is None:
        return None
    if isinstance(v, bool):
        return {"b": v}
    if isinstance(v, int):
        return {"i": v}
    if isinstance(v, str):
        return {"s": v}
    return {"?": repr(v)}


def classify(d):
    """canonical (kind, id, payload) of a message given by its members"""
    mid, method = d.get("id"), d.get("method")
    if method is not None and mid is not None:
        return {"kind": "request", "id": idtag(mid), "payload": {"method": method, "params": d.get("params")}}
    if method is not None:
        return {"kind": "notification", "id": None, "payload": {"method": method, "params": d.get("params")}}
    if mid is not None and d.get("result") is not None:
        return {"kind": "result", "id": idtag(mid), "payload": d.get("result")}
    if mid is not None and d.get("error") is not None:
        return {"kind": "error", "id": idtag(mid), "payload": d.get("error")}
    if mid is None and (d.get("error") is not None or d.get("result") is not None):
        # JSON-RPC error/result with a null id (what servers send when they reject a POST unparsed)
        return {"kind": "other", "id": None, "payload": d.get("error") if d.get("error") is not None else d.get("result")}
    return {"kind": "other", "id": idtag(mid), "payload": None}


def result(i, tag):
    return {"jsonrpc": "2.0", "id": idval(i), "result": {"tag": tag}}


def error(i, tag):
    return {"jsonrpc": "2.0", "id": idval(i), "error": {"code": -32001, "message": "server says no", "data": {"tag": tag}}}


def notif(tag, extra=None):
    p = {"tag": tag}
    if extra is not None:
        p["x"] = extra
    return {"jsonrpc": "2.0", "method": "notifications/message", "params": p}


def server_request(tag):
    return {"jsonrpc": "2.0", "id": f"srv-{tag}", "method": "sampling/createMessage", "params": {"tag": tag}}


EXTRAS = ["plain", "\u00e9 \u00fc \u2014 \u2603", "line\u2028sep\u2029para\u0085nel\x0cff", "a: b :c", " lead and trail ",
          "data: x\\n", "\U0001F600", {"n": [1, None, True, -7, 18446744073709551615], "o": {"": {}}}, "tab\tnl\ncr\r"]


def dumps(v):
    return json.dumps(v, ensure_ascii=False, separators=(",", ":"))


# ------------------------------------------------------------------------------- rendering

def _ignored_line(ig):
    if "c" in ig:
        return ":" + ig["c"]
    name = "id" if "id" in ig else "retry"
    return name + ":" + (" " if ig["sp"] else "") + ig[name]


def _field(name, ch, v):
    return [_ignored_line(g) for g in ch.get("before", [])] + [name + ":" + (" " if ch["sp"] else "") + v]


DFLT = {"sp": True, "before": []}


def sse_lines(events):
    out = []
    for e in events:
        if e.get("name") is not None:
            out += _field("event", e.get("nc") or DFLT, e["name"])
        dc = list(e.get("dc") or [])
        for k, d in enumerate(e["data"]):
            out += _field("data", dc[k] if k < len(dc) else DFLT, d)
        out += [_ignored_line(g) for g in e.get("after") or []]
        out.append("")
    return out


def sse_text(body):
    lines = sse_lines(body["events"])
    eols = list(body.get("eols") or [])
    e = lambda k: "\r\n" if k < len(eols) and eols[k] else "\n"
    tail = body.get("tail", "full")
    if tail == "full":
        return "".join(l + e(k) for k, l in enumerate(lines))
    lines = lines[:-1]
    if tail == "noblank":
        return "".join(l + e(k) for k, l in enumerate(lines))
    return "".join(l + (e(k) if k + 1 < len(lines) else "") for k, l in enumerate(lines))


def body_bytes(body):
    f = body["form"]
    if f == "empty":
        raw = b""
    elif f == "json":
        raw = (json.dumps(body["msgs"][0], ensure_ascii=False, indent=2) + "\n" if body.get("pretty") else dumps(body["msgs"][0])).encode()
    elif f == "batch":
        raw = (json.dumps(body["msgs"], ensure_ascii=False, indent=2) + "\n" if body.get("pretty") else dumps(body["msgs"])).encode()
    elif f in ("value", "object"):
        raw = dumps(body["v"]).encode()
    elif f in ("text", "rawtext"):
        raw = body["text"].encode()
    elif f == "rawmsgs":
        ts = body["texts"]
        if body["enc"] == "json":
            raw = ts[0].encode()
        elif body["enc"] == "batch":
            raw = ("[" + ",".join(ts) + "]").encode()
        elif body["enc"] == "sse-split":
            raw = "".join("data: " + t[:len(t) // 2].rsplit(",", 1)[0] + ",\ndata: " + t[len(t[:len(t) // 2].rsplit(",", 1)[0]) + 1:] + "\n\n" for t in ts).encode()
        else:
            raw = "".join((["", "event: message\n"][k % 2]) + "data: " + t + "\n\n" for k, t in enumerate(ts)).encode()
    elif f == "odd":
        raw = ("data: " + dumps(body["v"]) + "\n\n").encode() if body.get("sse") else dumps(body["v"]).encode()
    elif f == "sse":
        raw = sse_text(body).encode()
    else:
        raise ValueError(f)
    if body.get("dup"):
        # every object repeats a member with the same value (duplicated members: the value is unambiguous)
        raw = raw.replace(b'"jsonrpc":"2.0",', b'"jsonrpc":"2.0","jsonrpc":"2.0",')
    if body.get("bom"):
        raw = b"\xef\xbb\xbf" + raw
    if body.get("cut"):
        raw = raw[: max(1, len(raw) // 2)]
    bad = body.get("bad")
    if bad == "lead":
        raw = b"\xff" + raw
    elif bad == "instr":
        k = raw.find(b'"tag":"')
        if k < 0:
            raw = b"\xff" + raw
        else:
            k += len(b'"tag":"')
            raw = raw[:k] + b"\xfe" + raw[k:]
    return raw


CT_HEADER = {"json": "application/json", "sse": "text/event-stream", "other": "text/plain", "absent": None}


def ct_header(b):
    """the Content-Type header the scripted server sends (None = no header)"""
    return b["ctv"] if b.get("ctv") is not None else CT_HEADER[b["ct"]]


def ct_class(b):
    """what kind of answer the header declares: media types are case-insensitive (RFC 9110 8.3.1), parameters
    and surrounding blanks do not matter"""
    h = ct_header(b)
    if h is None:
        return "absent"
    low = h.lower()
    if "application/json" in low:
        return "json"
    if "text/event-stream" in low:
        return "sse"
    return "other"


def model_behaviour(b):
    """the behaviour as the Lean driver takes it"""
    if "exc" in b:
        return {"exc": "timeout" if b["exc"] in ("asyncio_timeout", "py:TimeoutError") else "other"}
    raw = body_bytes(b["body"])
    try:
        raw.decode("utf-8")
        ok = True
    except UnicodeDecodeError:
        ok = False
    # response.text decodes with the charset the Content-Type declares (httpx; default utf-8); response.json() reads
    # the bytes (json.loads detects the encoding, a UTF-8 BOM included)
    enc = "utf-8"
    mm = re.search(r"charset=([\w-]+)", b.get("ctv") or "", re.I)
    if mm:
        try:
            codecs.lookup(mm.group(1))
            enc = mm.group(1)
        except LookupError:
            pass
    if ct_class(b) == "json":
        enc = "utf-8"
    text = raw.decode(enc, "replace")
    if ct_class(b) == "json" and ok and raw.startswith(b"\xef\xbb\xbf"):
        text = raw[3:].decode("utf-8")
    return {"status": b["status"], "ct": ct_class(b), "cth": ct_header(b), "sess": b.get("sess"), "text": text, "utf8": ok}


# ------------------------------------------------------------------------------- expectations

def body_msgs(body):
    if body["form"] in ("json", "batch"):
        bad = set(body.get("invalid") or [])     # members the message class rejects: not deliverable
        return [m for k, m in enumerate(body["msgs"]) if k not in bad]
    if body["form"] == "sse":
        return [e["msg"] for e in body["events"] if e.get("msg") is not None]
    return []


def _well_formed_msgs(b):
    body = b["body"]
    if body.get("cut") or body.get("bad") or body["form"] not in ("json", "batch", "sse"):
        return []
    return body_msgs(body)


def expect(b):
    """What the property lets the oracle demand for one behaviour (derived from the generator's
    description only — never from the model):
      cls       class name of a failure, or None
      srv       the server's messages, in order, when the body is well-formed
      strict    body form and declared content type agree -> loss-free pass-through demanded
      mangled   the one response arrives with a damaged payload (non-UTF-8 byte inside a string)"""
    if "exc" in b:
        return {"cls": "exception", "srv": [], "strict": False, "mangled": False}
    if b["status"] >= 400:
        # the property demands the synthesised terminal; whether the server's own messages in the
        # error body are also delivered is left open (`may`: not an invention if they are)
        return {"cls": "http-error", "srv": [], "strict": False, "mangled": False, "may": _well_formed_msgs(b)}
    body = b["body"]
    f = body["form"]
    cls = None
    if body.get("bad") == "lead":
        cls = "non-utf8"
    elif body.get("cut"):
        cls = "truncated"
    elif f == "empty":
        cls = "empty-body"
    elif f == "value":
        cls = "json-not-message"
    elif f == "text":
        cls = "non-json"
    elif f in ("rawtext", "odd", "rawmsgs"):
        # a body whose reading is left to the code (does it parse? does the message class take it?): the property
        # only fixes the number of terminals — exactly one when the body is a response to this request at all
        return {"cls": None, "srv": [], "strict": False, "mangled": bool(body.get("own_terminal")), "free": True,
                "tag": body.get("tag")}
    elif f in ("batch", "sse", "json") and not body_msgs(body):
        cls = "no-message-in-body"
    if cls is not None:
        return {"cls": cls, "srv": [], "strict": False, "mangled": False}
    if body.get("bad") == "instr":
        return {"cls": None, "srv": [], "strict": False, "mangled": True}
    if body.get("bom") or body.get("damaged"):
        # a byte-order mark in front of the body / a declared charset that is not the bytes' encoding: whether
        # the body is still read is the code's business; the request ends with exactly one terminal
        return {"cls": None, "srv": [], "strict": False, "mangled": True, "free": True}
    strict = (f in ("json", "batch") and ct_class(b) == "json") or (f == "sse" and ct_class(b) == "sse")
    return {"cls": None, "srv": body_msgs(body), "strict": strict, "mangled": False}


# ------------------------------------------------------------------------------- building blocks

def sse_event(msg, *, name=None, nsp=True, dsp=True, before_name=(), before_data=(), split=False):
    text = dumps(msg)
    if split and text.startswith('{"jsonrpc":"2.0",'):
        k = len('{"jsonrpc":"2.0",')
        data = [text[:k], text[k:]]
    else:
        data = [text]
    return {"name": name, "data": data, "nc": {"sp": nsp, "before": list(before_name)},
            "dc": [{"sp": dsp, "before": list(before_data) if k == 0 else []} for k in range(len(data))], "msg": msg}


def raw_event(data, name=None):
    return {"name": name, "data": [data], "nc": dict(DFLT), "dc": [dict(DFLT)], "msg": None}


def bare_event(name=None, nsp=True, before=(), after=()):
    """an event without data lines: typed keep-alive, comment-only event, or just a blank line"""
    return {"name": name, "data": [], "nc": {"sp": nsp, "before": list(before)}, "dc": [], "msg": None, "after": list(after)}


# kinds of events a stream may mix, in any order (Mu/Mt carry the JSON-RPC messages)
EVENT_KINDS = ["Mu", "Mt", "Td", "Tn", "Co", "Bl"]


def mixed_body(word, msgs, **kw):
    """an SSE body whose events follow `word` over EVENT_KINDS: Mu = message event without event
    field, Mt = `event: message`, Td = typed non-message event with data, Tn = typed event without
    data, Co = comment-only event, Bl = extra blank line.  The k-th M event carries msgs[k]."""
    evs, k = [], 0
    for j, w in enumerate(word):
        if w in ("Mu", "Mt"):
            if k >= len(msgs):
                continue
            evs.append(sse_event(msgs[k], name=None if w == "Mu" else "message"))
            k += 1
        elif w == "Td":
            evs.append(raw_event(["keepalive", "{}", "{\"jsonrpc\":\"2.0\",\"method\":\"not/for/you\"}"][j % 3], ["ping", "keepalive", "endpoint"][j % 3]))
        elif w == "Tn":
            evs.append(bare_event(["ping", "keepalive", "x"][j % 3], nsp=bool(j % 2), after=[{"c": "ka"}] if j % 3 == 2 else []))
        elif w == "Co":
            evs.append(bare_event(None, after=[{"c": " keep-alive"}] + ([{"retry": "5", "sp": True}] if j % 2 else [])))
        elif w == "Bl":
            evs.append(bare_event(None))
    return {"form": "sse", "events": evs, "eols": kw.get("eols", []), "tail": kw.get("tail", "full")}


def sse_body(msgs, **enc):
    eols = enc.pop("eols", [])
    tail = enc.pop("tail", "full")
    return {"form": "sse", "events": [sse_event(m, **enc) for m in msgs], "eols": eols, "tail": tail}


def content(kind, rid, tag):
    """the server's messages for a body class (rid = id of the POSTed request or None)"""
    other = {"s": f"zz-{tag}"}
    if kind == "response":
        return [result(rid, tag)] if rid is not None else [notif(tag)]
    if kind == "error":
        return [error(rid, tag)] if rid is not None else [notif(tag)]
    if kind == "notifs+response":
        return [notif(tag + "-n1", EXTRAS[hash_small(tag) % len(EXTRAS)]), server_request(tag), notif(tag + "-n2")] + (
            [result(rid, tag)] if rid is not None else [])
    if kind == "wrong-id":
        return [result(other, tag)]
    if kind == "error-foreign-id":
        return [error(other, tag)]
    if kind == "error-null-id":
        return [{"jsonrpc": "2.0", "id": None, "error": {"code": -32001, "message": "Session not found", "data": {"tag": tag}}}]
    raise ValueError(kind)


def hash_small(s):
    h = 0
    for ch in s:
        h = (h * 131 + ord(ch)) % 1000003
    return h


def response_b(status, ct, body, sess=None):
    return {"status": status, "ct": ct, "sess": sess, "body": body}


def body_for(ct_form, msgs, enc=None):
    """encode msgs as a JSON body (single / batch) or as SSE"""
    if ct_form == "sse":
        return sse_body(msgs, **(enc or {}))
    if len(msgs) == 1:
        return {"form": "json", "msgs": msgs}
    return {"form": "batch", "msgs": msgs}


REQ_IDS = [{"i": 7}, {"s": "req-a"}, {"i": 0}, None, {"s": ""}, {"s": "7"}, {"i": -3}]


def mkreq(rid, b, as_dict=False):
    return {"id": rid, "dict": as_dict, "b": b}


def mkcase(reqs, session0=None):
    return {"session0": session0, "reqs": reqs}


# ------------------------------------------------------------------------------- the matrix

STATUSES = [200, 202, 204, 301, 404, 500]
CTS = ["json", "sse", "other", "absent"]
BODY_CLASSES = ["response", "error", "batch", "notifs+response", "wrong-id", "error-foreign-id", "error-null-id", "junk-object",
                "empty", "truncated", "non-json", "non-utf8", "non-utf8-instr", "value", "no-message"]


def matrix_body(bclass, ct, rid, tag):
    form = "sse" if ct == "sse" else "json"
    if bclass in ("response", "error", "notifs+response", "wrong-id", "error-foreign-id", "error-null-id"):
        return body_for(form, content(bclass, rid, tag))
    if bclass == "junk-object":
        # a JSON object that is no JSON-RPC message (what web frameworks answer), with or without an `error` member
        objs = [{"detail": "Not Found", "tag": tag}, {"error": {"code": 404, "message": "no such session", "tag": tag}},
                {"error": "unauthorized", "tag": tag}, {"status": 500, "error": {"message": "boom"}, "tag": tag}]
        return {"form": "object", "v": objs[hash_small(tag) % len(objs)]}
    if bclass == "batch":
        msgs = [notif(tag + "-b"), result(rid, tag)] if rid is not None else [notif(tag + "-b"), notif(tag + "-c")]
        return body_for(form, msgs)
    if bclass == "empty":
        return {"form": "empty"}
    if bclass == "truncated":
        return dict(body_for(form, content("response", rid, tag)), cut=True)
    if bclass == "non-json":
        return {"form": "text", "text": "<html><body>502 Bad Gateway</body></html>"}
    if bclass == "non-utf8":
        return dict(body_for(form, content("response", rid, tag)), bad="lead")
    if bclass == "non-utf8-instr":
        return dict(body_for(form, content("response", rid if rid is not None else {"s": "zz-" + tag}, tag)), bad="instr")
    if bclass == "value":
        vals = [42, "just a string", None, True, [], [1, "x"], {"jsonrpc": "2.0", "id": idval(rid) if rid is not None else 1}]
        return {"form": "value", "v": vals[hash_small(tag) % len(vals)]}
    if bclass == "no-message":
        if form == "sse":
            return {"form": "sse", "events": [raw_event("keepalive", "ping"), raw_event("still here")], "eols": [], "tail": "full"}
        return {"form": "batch", "msgs": []}
    raise ValueError(bclass)


def singles():
    """every single behaviour of the matrix status x content type x body class, for the request
    kinds {int id, string id, id 0, notification}; plus mislabelled bodies and exceptions"""
    out = []
    n = 0
    for status, ct, bclass in itertools.product(STATUSES, CTS, BODY_CLASSES):
        for rid in REQ_IDS[:4]:
            n += 1
            tag = f"m{n}"
            sess = [None, "sess-A"][n % 2] if n % 3 else None
            out.append(mkcase([mkreq(rid, response_b(status, ct, matrix_body(bclass, ct, rid, tag), sess), as_dict=(n % 5 == 0))]))
    # mislabelled / unlabelled encodings
    for status in (200, 202):
        for rid in REQ_IDS[:4]:
            for ct, form in (("json", "sse"), ("sse", "json"), ("other", "sse"), ("absent", "sse")):
                for bclass in ("response", "notifs+response"):
                    n += 1
                    out.append(mkcase([mkreq(rid, response_b(status, ct, body_for(form, content(bclass, rid, f"x{n}"))))]))
    # SSE streams mixing message events with typed / data-less / comment-only events, in every order
    for L in (1, 2, 3):
        for word in itertools.product(EVENT_KINDS, repeat=L):
            nm = sum(1 for w in word if w in ("Mu", "Mt"))
            n += 1
            rid = REQ_IDS[n % 2] if n % 7 else None
            tag = f"k{n}"
            msgs = [notif(f"{tag}-n{j}") for j in range(max(0, nm - 1))]
            if nm:
                msgs.append(result(rid, tag) if rid is not None else notif(f"{tag}-last"))
            ct = ["sse", "sse", "sse", "absent", "other"][n % 5] if word[0] in ("Mu", "Mt", "Td") else "sse"
            out.append(mkcase([mkreq(rid, response_b([200, 200, 202][n % 3], ct,
                                                     mixed_body(word, msgs, eols=[[], [True] * 16][n % 2],
                                                                tail=["full", "noblank", "noeol"][n % 3])))]))
    for exc in ("connect", "read_timeout", "protocol", "asyncio_timeout"):
        for rid in REQ_IDS:
            out.append(mkcase([mkreq(rid, {"exc": exc})]))
    # empty bodies for the remaining id shapes (falsy string id, digit string, negative)
    for rid in REQ_IDS[4:]:
        for status, ct in ((200, "absent"), (202, "other"), (204, "absent"), (200, "json"), (200, "sse")):
            out.append(mkcase([mkreq(rid, response_b(status, ct, {"form": "empty"}))]))
    return out


COMMENTS = [
    [],
    [{"c": " keep-alive"}],
    [{"c": ""}, {"id": "41", "sp": True}],
    [{"retry": "3000", "sp": False}, {"c": "x: y"}, {"id": "", "sp": False}],
]


def sse_encodings(stride=1):
    """conformant SSE encodings: event field absent / with / without space, data with / without
    space, LF / CRLF / mixed, comment and ignored lines, stream end, multi-line data, 1 or 4 events"""
    out = []
    n = 0
    names = [(None, True), ("message", True), ("message", False)]
    eolss = [[], [True] * 64, [True, False, False, True, True, False] * 8]
    for (name, nsp), dsp, eols, bi, tail, split, bclass in itertools.product(
            names, (True, False), eolss, range(len(COMMENTS)), ("full", "noblank", "noeol"), (False, True),
            ("response", "notifs+response")):
        n += 1
        if n % stride:
            continue
        rid = REQ_IDS[n % 2]
        tag = f"s{n}"
        before = COMMENTS[bi]
        enc = dict(name=name, nsp=nsp, dsp=dsp, split=split, eols=eols, tail=tail,
                   before_name=before if n % 2 else [], before_data=before if not n % 2 or name is None else [])
        body = sse_body(content(bclass, rid, tag), **enc)
        ka = n % 4   # 0: none; otherwise an event without JSON-RPC content somewhere in the stream
        if ka == 1:
            body["events"].insert(len(body["events"]) - 1, bare_event("ping", nsp=nsp, before=before if not n % 3 else []))
        elif ka == 2:
            body["events"].insert(0, raw_event("keepalive", "ping"))
        elif ka == 3:
            body["events"].insert(len(body["events"]) - 1, bare_event(None, after=[{"c": " ka"}]))
            body["events"].insert(0, bare_event("keepalive"))
        out.append(mkcase([mkreq(rid, response_b(200, "sse", body))]))
    return out


def alphabet():
    """representative behaviours for sequences; each entry: function (rid, tag) -> behaviour"""
    A = []
    A.append(lambda r, t: response_b(200, "json", body_for("json", content("response", r, t)), "sess-A"))
    A.append(lambda r, t: response_b(200, "json", body_for("json", content("response", r, t)), "sess-B"))
    A.append(lambda r, t: response_b(200, "json", body_for("json", content("response", r, t))))
    A.append(lambda r, t: response_b(200, "json", body_for("json", content("notifs+response", r, t))))
    A.append(lambda r, t: response_b(200, "sse", sse_body(content("notifs+response", r, t)), "sess-C"))
    A.append(lambda r, t: response_b(200, "sse", sse_body(content("response", r, t), name=None, dsp=False, eols=[True] * 8, tail="noeol")))
    A.append(lambda r, t: response_b(200, "sse", sse_body(content("error", r, t), name="message", nsp=False, before_name=[{"c": "hi"}])))
    A.append(lambda r, t: response_b(200, "json", body_for("json", content("wrong-id", r, t))))
    A.append(lambda r, t: response_b(202, "absent", {"form": "empty"}, "sess-D"))
    A.append(lambda r, t: response_b(204, "absent", {"form": "empty"}))
    A.append(lambda r, t: response_b(202, "other", {"form": "text", "text": "Accepted"}))
    A.append(lambda r, t: response_b(200, "json", {"form": "value", "v": 42}, "sess-E"))
    A.append(lambda r, t: response_b(200, "json", dict(body_for("json", content("response", r, t)), cut=True)))
    A.append(lambda r, t: response_b(200, "sse", matrix_body("no-message", "sse", r, t)))
    A.append(lambda r, t: response_b(200, "other", dict(body_for("json", content("response", r, t)), bad="lead")))
    A.append(lambda r, t: response_b(404, "json", body_for("json", content("error", r, t)), "sess-X"))
    A.append(lambda r, t: response_b(500, "other", {"form": "text", "text": "boom"}))
    A.append(lambda r, t: response_b(301, "absent", {"form": "empty"}, "sess-F"))
    A.append(lambda r, t: response_b(200, "sse", mixed_body(("Tn", "Mu"), content("response", r, t))))
    A.append(lambda r, t: response_b(200, "sse", mixed_body(("Mt", "Tn", "Mu"), [notif(t + "-n")] + content("response", r, t)), "sess-H"))
    A.append(lambda r, t: response_b(200, "sse", mixed_body(("Td", "Co", "Mu", "Bl"), content("error", r, t), eols=[True] * 16, tail="noeol")))
    A.append(lambda r, t: response_b(404, "json", body_for("json", content("error-null-id", r, t)), "sess-Y"))
    A.append(lambda r, t: response_b(500, "json", body_for("json", content("error-foreign-id", r, t))))
    A.append(lambda r, t: response_b(400, "json", body_for("json", content("wrong-id", r, t))))
    A.append(lambda r, t: response_b(401, "json", matrix_body("junk-object", "json", r, t)))
    A.append(lambda r, t: response_b(503, "sse", sse_body(content("error-null-id", r, t))))
    A.append(lambda r, t: response_b(200, "json", body_for("json", content("error-null-id", r, t))))
    A.append(lambda r, t: response_b(200, "json", body_for("json", content("error-foreign-id", r, t)), "sess-G"))
    A.append(lambda r, t: {"exc": "connect"})
    A.append(lambda r, t: {"exc": "read_timeout"})
    A.append(lambda r, t: {"exc": "asyncio_timeout"})
    A.append(lambda r, t: {"exc": "protocol"})
    return A


SEQ_IDS = [{"i": 11}, {"s": "q-2"}, {"i": 0}, None, {"i": 33}, {"s": "q-6"}]


def sequence(word, rot=0, session0=None):
    """one request per letter; ids pairwise distinct (positions < 6), position 3 (mod 6) is a notification"""
    A = alphabet()
    reqs = []
    for k, a in enumerate(word):
        rid = SEQ_IDS[(k + rot) % len(SEQ_IDS)]
        reqs.append(mkreq(rid, A[a](rid, f"w{k}-{a}")))
    return mkcase(reqs, session0)


def pairs():
    n = len(alphabet())
    out = []
    for a in range(n):
        for b in range(n):
            out.append(sequence((a, b), rot=(a + b) % 4, session0=("sess-0" if (a * n + b) % 7 == 0 else None)))
    return out


def sampled_sequences(rng, count, maxlen=4):
    n = len(alphabet())
    out = []
    for _ in range(count):
        L = rng.randint(2, maxlen)
        word = tuple(rng.randrange(n) for _ in range(L))
        out.append(sequence(word, rot=rng.randrange(6), session0=rng.choice([None, None, "sess-0"])))
    return out


def random_choice(rng):
    before = []
    for _ in range(rng.choice([0, 0, 0, 1, 2])):
        k = rng.randrange(3)
        if k == 0:
            before.append({"c": rng.choice(["", " ping", "data: {}", " x", ":"])})
        elif k == 1:
            before.append({"id": rng.choice(["", "9", "ab c"]), "sp": rng.random() < 0.5})
        else:
            before.append({"retry": rng.choice(["10", "x"]), "sp": rng.random() < 0.5})
    return {"sp": rng.random() < 0.5, "before": before}


def random_single(rng, k):
    """seeded: random content (unicode payloads) in a random conformant SSE encoding or JSON body"""
    rid = rng.choice(REQ_IDS)
    tag = f"r{k}"
    msgs = []
    for j in range(rng.choice([0, 0, 1, 2, 3])):
        msgs.append(rng.choice([notif(f"{tag}-n{j}", rng.choice(EXTRAS)), server_request(f"{tag}-q{j}")]))
    if rid is not None and rng.random() < 0.85:
        r = rng.choice([result, error])(rid, tag)
        if "result" in r:
            r["result"]["x"] = rng.choice(EXTRAS)
        msgs.append(r)
    elif rng.random() < 0.5:
        msgs.append(result({"s": "zz-" + tag}, tag))
    status = rng.choice([200, 200, 200, 202, 301])
    sess = rng.choice([None, None, "sess-R"])
    if rng.random() < 0.7 and msgs:
        events = []
        for m in msgs:
            e = sse_event(m, name=rng.choice([None, "message", "message", "response"]), split=rng.random() < 0.3)
            e["nc"] = random_choice(rng)
            e["dc"] = [random_choice(rng) for _ in e["data"]]
            events.append(e)
            if rng.random() < 0.2:
                events.insert(rng.randrange(len(events) + 1),
                              bare_event(rng.choice([None, "ping", "keepalive", "message"]), nsp=rng.random() < 0.5,
                                         before=random_choice(rng)["before"], after=random_choice(rng)["before"]))
            if rng.random() < 0.15:
                events.append(raw_event(rng.choice(["keepalive", "[1,2]", "{not json"]), rng.choice(["ping", None, "message"])))
        eols = [rng.random() < 0.5 for _ in range(rng.randrange(0, 12))]
        body = {"form": "sse", "events": events, "eols": eols, "tail": rng.choice(["full", "noblank", "noeol"])}
        ct = rng.choice(["sse", "sse", "sse", "other", "absent"])
        # an unlabelled SSE body is only sniffed when it starts with "event:" / "data:"
    else:
        body = body_for("json", msgs) if msgs else {"form": "empty"}
        ct = rng.choice(["json", "json", "other", "absent"])
    return mkcase([mkreq(rid, response_b(status, ct, body, sess), as_dict=rng.random() < 0.2)],
                  session0=rng.choice([None, None, "sess-0"]))


# ------------------------------------------------------------------------------- shrinking

def _simpler_body(body):
    out = []
    if body.get("form") == "sse":
        evs = body["events"]
        if len(evs) > 1:
            for k in range(len(evs)):
                out.append(dict(body, events=evs[:k] + evs[k + 1:]))
        if body.get("eols"):
            out.append(dict(body, eols=[]))
        if body.get("tail", "full") != "full":
            out.append(dict(body, tail="full"))
        for k, e in enumerate(evs):
            cands = []
            if len(e["data"]) > 1:
                cands.append(dict(e, data=["".join(e["data"])], dc=e["dc"][:1]))
            if e.get("after"):
                cands.append(dict(e, after=[]))
            if e["nc"].get("before"):
                cands.append(dict(e, nc=dict(e["nc"], before=[])))
            if any(c.get("before") for c in e["dc"]):
                cands.append(dict(e, dc=[dict(c, before=[]) for c in e["dc"]]))
            if e.get("name") is not None and not e["nc"]["sp"]:
                cands.append(dict(e, nc=dict(e["nc"], sp=True)))
            if any(not c["sp"] for c in e["dc"]):
                cands.append(dict(e, dc=[dict(c, sp=True) for c in e["dc"]]))
            if e.get("name") is None:
                cands.append(dict(e, name="message", nc=dict(DFLT)))
            for c in cands:
                out.append(dict(body, events=evs[:k] + [c] + evs[k + 1:]))
    if body.get("form") == "batch" and len(body["msgs"]) > 1:
        ms = body["msgs"]
        for k in range(len(ms)):
            out.append(dict(body, msgs=ms[:k] + ms[k + 1:]))
    return out


def shrink_candidates(case):
    reqs = case["reqs"]
    if len(reqs) > 1:
        for k in range(len(reqs)):
            yield dict(case, reqs=reqs[:k] + reqs[k + 1:])
    if case.get("session0") is not None:
        yield dict(case, session0=None)
    for k, r in enumerate(reqs):
        b = r["b"]
        cands = []
        if r.get("dict"):
            cands.append(dict(r, dict=False))
        if "exc" not in b:
            if b.get("sess") is not None:
                cands.append(dict(r, b=dict(b, sess=None)))
            if b["status"] not in (200, 404):
                cands.append(dict(r, b=dict(b, status=200 if b["status"] < 400 else 404)))
            for nb in _simpler_body(b["body"]):
                cands.append(dict(r, b=dict(b, body=nb)))
        for c in cands:
            yield dict(case, reqs=reqs[:k] + [copy.deepcopy(c)] + reqs[k + 1:])


# ------------------------------------------------------------------------------- hardening sweep

HOSTILE = ["%", "%s %d %(x)s", "{}", "{0} {x}", "\\", "\"", "'", "\r\n", "line  \u0085", "", "\\n\\u0000", "100%% {{}}"]
BIG = ["x" * 1023, "y" * 1024, "z" * 1025, "w" * 65536, "k" * 100_000]
# constants of the anchored modules fed back as values
MAGIC_STR = ["message", "response", "event:", "data:", "event: ", "data: ", "unknown", "application/json", "text/event-stream",
             "mcp-session-id", "Mcp-Session-Id", "Bearer ", "disconnected", "connection", "Parse error", "Request timeout",
             "No JSON-RPC response in HTTP reply", "transport-detect", "2.0", "jsonrpc", "id", "error", "result", "method"]
MAGIC_CODES = [-32603, -32700, -32000, 0, 202, 400]
CT_VARIANTS = {
    "json": ["application/json; charset=utf-8", "application/json;charset=UTF-8", " application/json ", "application/json; profile=\"x\"",
             "Application/JSON", "APPLICATION/JSON; Charset=UTF-8", "application/Json"],
    "sse": ["text/event-stream; charset=utf-8", "text/event-stream;charset=utf-8", "text/event-stream; x=y",
            "TEXT/EVENT-STREAM", "Text/Event-Stream; charset=utf-8"],
    "other": ["application/octet-stream", "text/html; charset=utf-8", "application/x-ndjson", "", "Text/Plain", "application/jso"],
}
HNAMES = ["mcp-session-id", "Mcp-Session-Id", "MCP-SESSION-ID"]
SESSION_VALUES = ["0", "false", "%s", "{0}", "a" * 512, "sess-A", "None", "null"]
EXC_MSGS = ["", "Server disconnected", "connection reset by peer", "%s {0} %d", "x" * 2000, "no route\nto host", "DISCONNECTED"]
STATUS_SWEEP = [201, 203, 206, 299, 300, 304, 399, 400, 401, 403, 410, 429, 499, 502, 503, 599]
TWIN_IDS = [{"i": 7}, {"s": "7"}, {"i": 0}, {"s": "0"}, {"s": ""}, None]
CFGS = [
    None,
    {"bearer": "tok"},
    {"bearer": "Bearer tok"},
    {"bearer": ""},
    {"env_bearer": "envtok"},
    {"env_bearer": "Bearer envtok", "bearer": "tok"},
    {"env_bearer": ""},
    {"headers": {"X-Custom": "v", "Content-Type": "text/plain", "Accept": "*/*"}},
    {"headers": {"Authorization": "Basic abc"}, "env_bearer": "envtok"},
    {"headers": {"Mcp-Session-Id": "from-config-headers"}},
    {"headers": {}},
    {"mcr": 1},
    {"mcr": 2, "bearer": "tok"},
    {"env_bearer": "Bearer envtok"},
    {"headers": {"user-agent": "ua/0", "authorization": "Basic z"}, "bearer": "tok"},
    {"headers": {"User-Agent": "", "X-Empty": ""}, "bearer": "Bearer "},
]


def twin(i):
    if i is None:
        return {"s": "None"}
    if "i" in i:
        return {"s": str(i["i"])}
    try:
        return {"i": int(i["s"])}
    except ValueError:
        return {"s": i["s"] + " "}


def tagged(kind, case):
    case["hk"] = kind
    return case


def falsy_msgs(rid, tag, k):
    """server messages with falsy members at every position the grammar allows"""
    ms = [
        {"jsonrpc": "2.0", "method": "notifications/message"},                                # no params
        {"jsonrpc": "2.0", "method": "notifications/message", "params": {}},                  # empty params
        {"jsonrpc": "2.0", "method": "notifications/message", "params": {"tag": tag, "v": [0, "", [], {}, False, None, 0.0]}},
        {"jsonrpc": "2.0", "id": 0, "method": "ping"},                                        # server request with id 0
        {"jsonrpc": "2.0", "id": "", "method": "roots/list", "params": {}},                   # ... with id ""
    ]
    out = [ms[(k + j) % len(ms)] for j in range(2)]
    if out[0] == out[1]:
        out = out[:1]
    if rid is not None:
        term = [
            {"jsonrpc": "2.0", "id": idval(rid), "result": {}},
            {"jsonrpc": "2.0", "id": idval(rid), "error": {"code": 0, "message": ""}},
            {"jsonrpc": "2.0", "id": idval(rid), "error": {"code": 0, "message": "", "data": [0, "", [], {}, False][k % 5]}},
            {"jsonrpc": "2.0", "id": idval(rid), "result": {"": "", "0": 0, "f": False, "n": None, "l": [], "d": {}}},
        ]
        out.append(term[k % len(term)])
    # server requests with id 0 / "" must not collide with the request's own id
    return [m for m in out if not ("method" in m and "id" in m and rid is not None and m["id"] == idval(rid))]


def unusual_msgs(rid, tag, k):
    """valid but unusual structure: extra members, unusual member order, duplicated notifications"""
    n = {"params": {"tag": tag + "-dup"}, "method": "notifications/message", "jsonrpc": "2.0"}
    ms = [n, dict(n), {"x-extra": {"a": [1]}, "method": "notifications/progress", "jsonrpc": "2.0", "params": {"tag": tag, "progressToken": 0, "progress": 0}}]
    if rid is not None:
        ms.append({"result": {"tag": tag}, "_meta": {"k": k}, "id": idval(rid), "jsonrpc": "2.0", "extra": None})
    return ms


def hostile_msgs(rid, tag, k):
    t = HOSTILE[k % len(HOSTILE)]
    m = MAGIC_STR[k % len(MAGIC_STR)]
    ms = [{"jsonrpc": "2.0", "method": m if k % 2 else "notifications/message", "params": {"tag": tag, "t": t, m: m, t: [t]}}]
    if rid is not None:
        if k % 3 == 0:
            ms.append({"jsonrpc": "2.0", "id": idval(rid), "error": {"code": MAGIC_CODES[k % len(MAGIC_CODES)], "message": [t, m][k % 2], "data": {"tag": tag, "t": t}}})
        else:
            ms.append({"jsonrpc": "2.0", "id": idval(rid), "result": {"tag": tag, "t": t, "m": m, "big": BIG[k % len(BIG)] if k % 4 == 1 else ""}})
    return ms


def hardening(rng, budget):
    out = []
    quick = budget == "quick"
    n = 0

    def one(kind, rid, b, **kw):
        c = mkcase([mkreq(rid, b, as_dict=kw.pop("as_dict", False))], kw.pop("session0", None))
        c.update(kw)
        out.append(tagged(kind, c))

    # 1/2/4/8: falsy, hostile and unusual payloads in every body form and on accepted / error statuses
    for gen, kind in ((falsy_msgs, "falsy"), (hostile_msgs, "hostile"), (unusual_msgs, "unusual")):
        for k in range(24 if quick else 120):
            for form, ct in (("json", "json"), ("sse", "sse"), ("json", "absent")):
                n += 1
                rid = TWIN_IDS[n % len(TWIN_IDS)]
                msgs = gen(rid, f"h{n}", k)
                body = body_for(form, msgs) if form == "json" else sse_body(msgs, name=[None, "message", "response"][n % 3], dsp=bool(n % 2))
                if form == "json" and n % 4 == 0:
                    body = dict(body, pretty=True)
                one(f"{kind}/{form}", rid, response_b([200, 200, 202, 404][n % 4], ct, body), as_dict=(n % 3 == 0))
    # 2: type twins: the answer carries the id of the other JSON type
    for status in (200, 404):
        for form, ct in (("json", "json"), ("sse", "sse")):
            for rid in TWIN_IDS[:5]:
                n += 1
                for mk in (result, error):
                    one("twin-id", rid, response_b(status, ct, body_for(form, [mk(twin(rid), f"t{n}{mk.__name__}")])))
    # 3: status sweep, content-type spellings, header-name spellings, session values, exception texts, methods
    for st in STATUS_SWEEP:
        for bclass in ("response", "error-null-id", "empty", "junk-object"):
            n += 1
            rid = REQ_IDS[n % 3]
            one("status-sweep", rid, response_b(st, "json", matrix_body(bclass, "json", rid, f"u{n}"), [None, "sess-S"][n % 2]))
    for ct, variants in CT_VARIANTS.items():
        for v in variants:
            for bclass in ("response", "notifs+response", "empty", "non-json"):
                for form in ("json", "sse"):
                    n += 1
                    rid = REQ_IDS[n % 4]
                    body = matrix_body(bclass, "sse" if form == "sse" else "json", rid, f"c{n}")
                    b = response_b([200, 202][n % 2], ct, body)
                    b["ctv"] = v
                    one("content-type-spelling", rid, b)
    for k, sv in enumerate(SESSION_VALUES):
        for hn in HNAMES:
            n += 1
            b1 = response_b(200, "json", body_for("json", content("response", {"i": 1}, f"v{n}")), sv)
            b1["hname"] = hn
            b2 = response_b(200, "json", body_for("json", content("response", {"i": 2}, f"v{n}b")))
            c = mkcase([mkreq({"i": 1}, b1), mkreq({"i": 2}, b2)], [None, "", "0", "cfg-session"][n % 4])
            c["cfg"] = CFGS[n % len(CFGS)]
            out.append(tagged("session-values", c))
    for k, msg in enumerate(EXC_MSGS):
        for exc in ("connect", "read_timeout", "protocol", "asyncio_timeout"):
            n += 1
            one("exception-text", REQ_IDS[n % 4], {"exc": exc, "msg": msg})
    for k, m in enumerate(MAGIC_STR + HOSTILE):
        n += 1
        rid = REQ_IDS[n % 4]
        c = mkcase([dict(mkreq(rid, response_b(200, "json", body_for("json", content("response", rid, f"m{n}")))), method=m or "x")])
        out.append(tagged("method-names", c))
    # 4: hostile text in error bodies
    for k, t in enumerate(HOSTILE + BIG[-2:] + MAGIC_STR[:6]):
        for st in (400, 500):
            n += 1
            one("hostile-error-body", REQ_IDS[n % 4], response_b(st, ["other", "absent", "json"][n % 3], {"form": "text", "text": t} if t else {"form": "empty"}))
    # 1/6: configuration (headers, bearer token, env, semaphore size) x sequences; reuse of the parameters object
    for k, cfg in enumerate(CFGS):
        for w in range(2 if quick else 8):
            word = tuple(rng.randrange(len(alphabet())) for _ in range(3))
            c = sequence(word, rot=rng.randrange(6), session0=rng.choice([None, "sess-0", ""]))
            c["cfg"] = cfg
            c["reuse"] = bool(w % 2)
            out.append(tagged("config" + ("/reuse" if c["reuse"] else ""), c))
    # 6/7: something that is not a message on the write stream, between requests
    for g in range(4):
        for pos in range(3):
            n += 1
            c = sequence((0, 18, 3), rot=g)
            c["reqs"].insert(pos, {"id": None, "garbage": g})
            out.append(tagged("garbage-on-write-stream", c))
    # 5: limits of the 100-slot streams, 1024 / 64 KiB sizes; backpressure with a late reader
    for N in (99, 100, 101, 250):
        for form, ct in (("json", "json"), ("sse", "sse")):
            for rd in (0, 2048):
                n += 1
                rid = REQ_IDS[n % 2]
                msgs = [notif(f"L{n}-{j}") for j in range(N - 1)] + [result(rid, f"L{n}")]
                c = mkcase([mkreq(rid, response_b(200, ct, body_for(form, msgs)))])
                c["read_delay"] = rd
                out.append(tagged(f"limit/body-{N}", c))
    for N in ((99, 101) if quick else (99, 100, 101, 150, 300)):
        reqs = []
        for j in range(N):
            rid = {"i": 1000 + j} if j % 10 else None
            reqs.append(mkreq(rid, response_b(200, "json", body_for("json", content("response", rid, f"Q{N}-{j}")), "sess-Q" if j == 50 else None)))
        for rd in (0, 4096):
            c = mkcase(reqs)
            c["read_delay"] = rd
            out.append(tagged(f"limit/queue-{N}", c))
    for k, big in enumerate(BIG):
        for form, ct in (("json", "json"), ("sse", "sse")):
            n += 1
            rid = REQ_IDS[n % 2]
            r = result(rid, f"B{n}")
            r["result"]["big"] = big
            one("limit/size", rid, response_b(200, ct, body_for(form, [notif(f"B{n}-n", big[:1500]), r])))
    # 9 + concurrency: several messages queued at once, answers of different latency, three tie orders;
    # senders in concurrent tasks with start delays on the same tick grid
    LATS = [0, 1, 2, 1024, 5119, 5120, 5121]
    for k in range(150 if quick else 3000):
        L = rng.randint(2, 4)
        word = tuple(rng.randrange(len(alphabet())) for _ in range(L))
        c = sequence(word, rot=rng.randrange(6), session0=rng.choice([None, None, "sess-0"]))
        for r in c["reqs"]:
            r["b"]["lat"] = rng.choice(LATS)
            if rng.random() < 0.4:
                r["delay"] = rng.choice([0, 1, 2, 1024, 5120])
        c["tie"] = ["events", "timers", "io"][k % 3]
        if rng.random() < 0.3:
            c["cfg"] = {"mcr": rng.choice([1, 2, 3])}
        out.append(tagged(f"latency/{c['tie']}", c))
    # slow first answer, fast later ones (the classic reordering scenario), every tie
    for tie in ("events", "timers", "io"):
        for lat in (1, 1024, 5120):
            c = sequence((0, 4, 2, 3), rot=0)
            c["reqs"][0]["b"]["lat"] = lat
            c["reqs"][1]["b"]["lat"] = lat // 2
            c["tie"] = tie
            out.append(tagged(f"latency/{tie}", c))
    # 7: the transport used directly, with callers waiting on its per-id futures (alternate API)
    for k in range(12 if quick else 200):
        L = rng.randint(1, 3)
        c = sequence(tuple(rng.randrange(len(alphabet())) for _ in range(L)), rot=rng.randrange(6))
        c["direct"] = True
        for r in c["reqs"]:
            r["wait"] = rng.choice([0, 1, 1024, 4096, -1])    # -1: no timeout (cancelled at exit)
            r["b"]["lat"] = rng.choice([0, 1024, 2048])
        out.append(tagged("direct-transport", c))
    # 7: leaving the context while a POST is in flight
    for lat in (1024, 8192):
        for word in ((0,), (4, 18), (2, 2, 2)):
            c = sequence(word, rot=1)
            c["reqs"][-1]["b"]["lat"] = lat
            c["leave_at"] = lat // 2
            out.append(tagged("leave-in-flight", c))
            d = copy.deepcopy(c)
            d["direct"] = True
            d["reqs"][-1]["wait"] = 10 * lat
            out.append(tagged("leave-in-flight", d))
    # close with requests outstanding: every cut point of a serial timeline (k answered, one in flight, rest queued)
    for k in range(20 if quick else 400):
        L = rng.randint(1, 4)
        c = sequence(tuple(rng.randrange(len(alphabet())) for _ in range(L)), rot=rng.randrange(6), session0=rng.choice([None, "sess-0"]))
        t = 0
        cuts = [1]
        for r in c["reqs"]:
            r["b"]["lat"] = rng.choice([512, 1024, 2048])
            t += r["b"]["lat"]
            cuts.append(t + 1)
            cuts.append(t - 1)
        c["leave_at"] = rng.choice(cuts)
        if rng.random() < 0.3:
            c["direct"] = True
            for r in c["reqs"]:
                r["wait"] = rng.choice([0, 100000])
        out.append(tagged("close-outstanding", c))
    return out


# ------------------------------------------------------------------------------- hardening sweep 2

OPTION_SETS = [
    {},
    {"enable_streaming": False},
    {"max_retries": 0},
    {"max_retries": 1, "retry_delay": 0.0},
    {"max_retries": 2, "enable_streaming": False},
    {"max_retries": 3, "retry_delay": 0.5, "timeout": 0.25},
    {"max_retries": 10, "user_agent": "ua/9 (x)"},
    {"timeout": 0.001, "mcr": 1},
    {"timeout": 3600.0, "retry_delay": 3600.0},
    {"enable_streaming": False, "user_agent": "", "bearer": "tok"},
    {"enable_streaming": False, "headers": {"Accept": "text/event-stream"}, "env_bearer": "e"},
    {"max_retries": 1, "enable_streaming": False, "mcr": 2, "timeout": 1.0},
]


# the METHOD of the POSTed message is a dimension of every scenario: nothing in the property depends on it
METHODS = ["initialize", "ping", "tools/list", "notifications/initialized", "totally/unknown", "", "tools/call", "Initialize",
           "initialize ", "notifications/cancelled", "resources/read", "logging/setLevel", "shutdown", "notifications/message"]


def with_methods(case, k):
    """every request of the case gets a method from METHODS (rotating with the case number and the position)"""
    reqs = []
    changed = False
    for j, r in enumerate(case["reqs"]):
        if r.get("garbage") is None and r.get("method") is None:
            r = dict(r, method=METHODS[(k * 5 + j * 3) % len(METHODS)])
            changed = True
        reqs.append(r)
    return dict(case, reqs=reqs) if changed else case


def decorate(cases, salt=0):
    """cross the cases with the options of StreamableHTTPParameters and with DEBUG logging: case k gets
    option set k mod |OPTION_SETS| (merged under an explicit cfg) and every fourth case runs with the
    root logger at DEBUG.  Deterministic: part of the case."""
    out = []
    for k, c in enumerate(cases):
        opt = OPTION_SETS[(k + salt) % len(OPTION_SETS)]
        if opt:
            c = dict(c)
            c["cfg"] = {**opt, **(c.get("cfg") or {})}
        if (k + salt) % 4 == 1:
            c = dict(c)
            c["debug"] = True
        if (k + salt) % 3 != 2:       # a third of the cases keeps the harness's default methods
            c = with_methods(c, k + salt)
        out.append(c)
    return out


PY_EXCS = ["TypeError", "ValueError", "KeyError", "IndexError", "AttributeError", "RuntimeError", "RecursionError", "OSError",
           "Exception", "LookupError", "AssertionError", "NotImplementedError", "UnicodeDecodeError", "StopAsyncIteration",
           "MemoryError", "TimeoutError", "ConnectionError", "ConnectionResetError", "BrokenPipeError", "EOFError"]


def failure_behaviours():
    """every failure kind: name -> function (rid, tag) -> behaviour"""
    F = {}
    for e in ("connect", "connect_timeout", "read_timeout", "protocol", "asyncio_timeout", "badstr"):
        F["exc:" + e] = (lambda e: lambda r, t: {"exc": e})(e)
    for e in PY_EXCS:
        F["exc:py:" + e] = (lambda e: lambda r, t: {"exc": "py:" + e})(e)
    F["404-json"] = lambda r, t: response_b(404, "json", body_for("json", content("error-null-id", r, t)))
    F["500-text"] = lambda r, t: response_b(500, "other", {"form": "text", "text": "boom"})
    F["503-empty"] = lambda r, t: response_b(503, "absent", {"form": "empty"})
    F["200-empty-json"] = lambda r, t: response_b(200, "json", {"form": "empty"})
    F["200-empty-sse"] = lambda r, t: response_b(200, "sse", {"form": "empty"})
    F["200-nonjson"] = lambda r, t: response_b(200, "json", {"form": "text", "text": "<html>"})
    F["202-text"] = lambda r, t: response_b(202, "other", {"form": "text", "text": "Accepted"})
    F["200-truncated"] = lambda r, t: response_b(200, "json", dict(body_for("json", content("response", r, t)), cut=True))
    F["200-value"] = lambda r, t: response_b(200, "json", {"form": "value", "v": 42})
    F["200-sse-nomsg"] = lambda r, t: response_b(200, "sse", matrix_body("no-message", "sse", r, t))
    F["200-sse-unterminated"] = lambda r, t: response_b(200, "sse", dict(sse_body(content("response", r, t)), cut=True))
    F["200-nonutf8"] = lambda r, t: response_b(200, "json", dict(body_for("json", content("response", r, t)), bad="lead"))
    return F


def good_behaviours():
    return [
        lambda r, t: response_b(200, "json", body_for("json", content("response", r, t))),
        lambda r, t: response_b(200, "sse", sse_body(content("notifs+response", r, t))),
        lambda r, t: response_b(200, "sse", sse_body(content("response", r, t), name=None, dsp=False, tail="noeol"), "sess-R"),
        lambda r, t: response_b(200, "json", body_for("json", content("notifs+response", r, t))),
    ]


def repeated_failures(quick=True):
    """the SAME failure 2, 3, 4, 5 times in a row, then successes; with and without a success before;
    and a well-formed answer that leaves something behind (an unterminated SSE body) before a good one"""
    out = []
    F, Gd = failure_behaviours(), good_behaviours()
    n = 0
    for name, f in F.items():
        for rep in (2, 3, 4, 5):
            n += 1
            if quick and name.startswith("exc:py:") and rep not in (3, 4):
                continue
            word = ([Gd[n % 4]] if n % 2 else []) + [f] * rep + [Gd[(n + 1) % 4], Gd[(n + 2) % 4]]
            reqs = []
            for k, beh in enumerate(word):
                rid = {"i": 500 + k} if (k + n) % 5 else ({"s": f"r{k}"} if k % 2 else None)
                reqs.append(mkreq(rid, beh(rid, f"rf{n}-{k}")))
            c = mkcase(reqs, [None, "sess-0"][n % 2])
            c["hk"] = f"repeat/{name.split(':')[0] if name.startswith('exc') else 'status-or-body'}/x{rep}"
            out.append(c)
    return out


FIRST_LINES = [
    [{"c": " keep-alive"}], [{"c": ""}], [{"id": "1", "sp": True}], [{"id": "", "sp": False}], [{"retry": "3000", "sp": True}],
    [{"retry": "10", "sp": False}, {"c": "x"}], [{"c": "data: not a field"}], [{"c": "event: nor this"}],
]


def sse_first_lines():
    """every conformant way an SSE body may BEGIN: comment, `id:`, `retry:`, blank line(s), an event field, a data field,
    a data-less typed event, LF and CRLF — as text/event-stream and unlabelled"""
    out = []
    n = 0
    for eols in ([], [True] * 32):
        for ct in ("sse", "sse", "other", "absent"):
            for first in range(len(FIRST_LINES) + 4):
                for bclass in ("response", "notifs+response"):
                    n += 1
                    rid = REQ_IDS[n % 2]
                    msgs = content(bclass, rid, f"fl{n}")
                    name = [None, "message"][n % 2]
                    if first < len(FIRST_LINES):
                        body = sse_body(msgs, name=name, eols=eols, before_name=FIRST_LINES[first] if name else [],
                                        before_data=FIRST_LINES[first] if not name else [])
                    else:
                        body = sse_body(msgs, name=name, eols=eols)
                        lead = [bare_event(None), bare_event("ping"), bare_event(None, after=[{"c": "ka"}]), raw_event("keepalive", "ping")][first - len(FIRST_LINES)]
                        body["events"].insert(0, lead)
                        if first == len(FIRST_LINES):
                            body["events"].insert(0, bare_event(None))     # two blank lines
                    c = mkcase([mkreq(rid, response_b([200, 202][n % 2], ct, body))])
                    c["hk"] = "sse-first-line/" + ct
                    out.append(c)
    return out


TYPE_VALUES = [None, True, False, 0, 7, 7.0, 7.5, "", "7", [], [7], {}, {"a": 1}]


def type_odd_bodies(rid, tag):
    """JSON objects that look like JSON-RPC messages with a member of every JSON type in every position.
    Returns [(label, object, own_terminal)]: own_terminal = the object is a response to `rid` with a well-typed id
    and a result/error member at all (then the request must end with exactly one terminal, delivered or made up)."""
    own = idval(rid) if rid is not None else 1
    out = []
    for v in TYPE_VALUES:
        out.append((f"id={type(v).__name__}", {"jsonrpc": "2.0", "id": v, "result": {"tag": tag}}, False))
        out.append((f"result={type(v).__name__}", {"jsonrpc": "2.0", "id": own, "result": v, "tag": tag}, rid is not None))
        out.append((f"error={type(v).__name__}", {"jsonrpc": "2.0", "id": own, "error": v, "tag": tag}, rid is not None))
        out.append((f"code={type(v).__name__}", {"jsonrpc": "2.0", "id": own, "error": {"code": v, "message": "m", "data": {"tag": tag}}}, rid is not None))
        out.append((f"message={type(v).__name__}", {"jsonrpc": "2.0", "id": own, "error": {"code": 1, "message": v, "data": {"tag": tag}}}, rid is not None))
        out.append((f"method={type(v).__name__}", {"jsonrpc": "2.0", "method": v, "params": {"tag": tag}}, False))
        out.append((f"params={type(v).__name__}", {"jsonrpc": "2.0", "method": "notifications/message", "params": v, "tag": tag}, False))
        out.append((f"jsonrpc={type(v).__name__}", {"jsonrpc": v, "id": own, "result": {"tag": tag}}, False))
    out.append(("id=missing", {"jsonrpc": "2.0", "result": {"tag": tag}}, False))
    out.append(("jsonrpc=missing", {"id": own, "result": {"tag": tag}}, rid is not None))
    out.append(("both", {"jsonrpc": "2.0", "id": own, "result": {"tag": tag}, "error": {"code": 1, "message": "m"}}, False))
    return out


SYNTAX_TEXT = ["[NaN]", ":Infinity,", "values=[1.0, NaN]", "data:", "data: {}", "event: message", "id: 7", "retry: 10", ":", ": comment",
               "{\"jsonrpc\":\"2.0\",\"id\":7,\"result\":{}}", "{}", "[]", "null", "\\n\\ndata: x\\n\\n", "-Infinity", "NaN", "\"", "\\u0000"]


def syntax_cases():
    """text that looks like the syntax being parsed: as keys and values of payloads (JSON and SSE), and as the whole body"""
    out = []
    n = 0
    for t in SYNTAX_TEXT:
        for form, ct in (("json", "json"), ("sse", "sse"), ("sse", "absent")):
            n += 1
            rid = REQ_IDS[n % 2]
            r = result(rid, f"sy{n}")
            r["result"][t] = t
            r["result"]["nested"] = {"k": [t, {t: dumps({"jsonrpc": "2.0", "id": idval(rid), "result": {}})}]}
            nt = notif(f"sy{n}-n", t)
            nt["params"][t or "k"] = [t]
            body = body_for(form, [nt, r]) if form == "json" else sse_body([nt, r], name=[None, "message"][n % 2], split=bool(n % 3 == 0))
            c = mkcase([mkreq(rid, response_b(200, ct, body))])
            c["hk"] = "syntax/in-payload"
            out.append(c)
        # as the whole body (raw text, unescaped), under every label and on an error status
        raw = t.replace("\\n", "\n").replace("\\u0000", "\x00")
        for status, ct in ((200, "json"), (200, "sse"), (200, "other"), (202, "absent"), (500, "json")):
            n += 1
            rid = REQ_IDS[n % 4]
            # a body without any JSON object in it cannot carry a message: exactly one terminal; with one, the
            # reading is the code's (a message for another id, an object the message class takes as empty, ...)
            c = mkcase([mkreq(rid, response_b(status, ct, {"form": "rawtext", "text": raw,
                                                           "own_terminal": rid is not None and "{" not in raw}))])
            c["hk"] = "syntax/as-body"
            out.append(c)
    # bare NaN / Infinity tokens inside an otherwise well-formed response (some JSON decoders accept them)
    for tok in ("NaN", "Infinity", "-Infinity"):
        for ct in ("json", "other", "sse"):
            n += 1
            rid = REQ_IDS[n % 2]
            text = dumps(result(rid, f"sy{n}")).replace('"tag"', f'"v":{tok},"tag"')
            if ct == "sse":
                text = f"data: {text}\n\n"
            c = mkcase([mkreq(rid, response_b(200, ct, {"form": "rawtext", "text": text, "own_terminal": rid is not None}))])
            c["hk"] = "syntax/bare-nan"
            out.append(c)
    return out


def hardening2(rng, budget):
    quick = budget == "quick"
    out = []
    out += repeated_failures(quick)
    out += sse_first_lines()
    out += syntax_cases()
    n = 0
    # E: type classes in every position of a server message, JSON and SSE, accepted and error statuses
    for rid in (REQ_IDS[0], REQ_IDS[1], None):
        for label, obj, own in type_odd_bodies(rid, "ty"):
            for form, ct, status in (("json", "json", 200), ("sse", "sse", 200), ("json", "json", 404)):
                n += 1
                if quick and rid is not REQ_IDS[0] and n % 3:
                    continue
                tag = f"ty{n}"
                o = json.loads(json.dumps(obj).replace('"ty"', json.dumps(tag)))
                body = {"form": "odd", "v": o, "sse": form == "sse", "own_terminal": own, "tag": tag}
                c = mkcase([mkreq(rid, response_b(status, ct, body))])
                c["hk"] = "type-classes/" + label.split("=")[0]
                out.append(c)
    # F: every exception class, single and followed by a good request
    for name, f in failure_behaviours().items():
        if not name.startswith("exc:"):
            continue
        for rid in (REQ_IDS[0], None, REQ_IDS[2]):
            n += 1
            c = mkcase([mkreq(rid, f(rid, f"ex{n}")), mkreq({"i": 901}, good_behaviours()[n % 4]({"i": 901}, f"ex{n}g"))])
            c["hk"] = "exception-classes"
            out.append(c)
    # B: two and three transports alive at once, the same scenario (equal ids) on each, answers interleaved by latency
    words = [(0, 5, 12), (4, 18, 2), (13, 1, 3), (5, 5), (22, 23, 0), (12, 5)]
    for k, w in enumerate(words if quick else words * 6):
        c = sequence(w, rot=k % 6, session0=[None, "sess-0"][k % 2])
        for j, r in enumerate(c["reqs"]):
            r["b"]["lat"] = [0, 3, 1, 2][(j + k) % 4]
        c["instances"] = 2 + k % 2
        c["hk"] = f"instances/{c['instances']}"
        out.append(c)
    return decorate(out, salt=1)


# ------------------------------------------------------------------------------- hardening sweep 3

def null_variants(rid, tag):
    """otherwise valid replies with explicit nulls, unusual member combinations and orders"""
    i = idval(rid)
    out = []
    if rid is not None:
        out += [
            {"jsonrpc": "2.0", "id": i, "result": {"tag": tag}, "error": None},
            {"jsonrpc": "2.0", "id": i, "error": {"code": -32001, "message": "no", "data": {"tag": tag}}, "result": None},
            {"jsonrpc": "2.0", "id": i, "result": {"tag": tag}, "error": None, "method": None, "params": None},
            {"error": None, "result": {"tag": tag, "error": None, "result": None}, "id": i, "jsonrpc": "2.0"},
            {"id": i, "result": {"tag": tag}},                                   # no jsonrpc member
            {"jsonrpc": "2.0", "id": i, "result": {"tag": tag}, "_meta": None, "extra": {"error": {"code": 1}}},
        ]
    else:
        out += [
            {"jsonrpc": "2.0", "method": "notifications/message", "params": {"tag": tag}, "id": None},
            {"jsonrpc": "2.0", "method": "notifications/message", "params": None, "tag": tag, "result": None, "error": None},
            {"params": {"tag": tag, "error": None}, "method": "notifications/progress", "jsonrpc": "2.0"},
        ]
    return out


INVALID_MEMBERS = [
    {"jsonrpc": "2.0", "id": "job-7", "result": "done"},          # spec-conformant, but the result is no object
    42, "text", None, [], [{"jsonrpc": "2.0", "id": "job-8", "result": 1}],
    {"jsonrpc": "2.0", "id": "job-9"},                              # neither result nor error
    {"jsonrpc": "2.0", "id": "job-10", "error": {"message": "no code"}},
    {"jsonrpc": "2.0", "id": "job-11", "result": {}, "error": {"code": 1, "message": "both"}},
    {"jsonrpc": 2, "method": "notifications/message"},
]


def partial_batches(quick=True):
    """a rejected member at every position of a batch / an event stream, deliverable members around it,
    and then the NEXT request on the same connection"""
    out = []
    n = 0
    for L in (2, 3, 4):
        for word in itertools.product("NRX", repeat=L):
            if "X" not in word or word.count("R") > 1 or (quick and L == 4 and (n := n + 1) % 3):
                continue
            for form, ct in (("json", "json"), ("sse", "sse"), ("json", "absent")):
                n += 1
                rid = REQ_IDS[n % 2] if "R" in word or n % 3 else None
                msgs, invalid = [], []
                for k, w in enumerate(word):
                    if w == "N":
                        msgs.append([notif(f"pb{n}-{k}"), server_request(f"pb{n}-{k}")][(n + k) % 2])
                    elif w == "R":
                        msgs.append((result if n % 2 else error)(rid, f"pb{n}") if rid is not None else notif(f"pb{n}-r"))
                    else:
                        invalid.append(k)
                        msgs.append(INVALID_MEMBERS[(n + k) % len(INVALID_MEMBERS)])
                if form == "json":
                    body = {"form": "batch", "msgs": msgs, "invalid": invalid}
                else:
                    evs = []
                    for k, m in enumerate(msgs):
                        evs.append(raw_event(dumps(m), [None, "message"][k % 2]) if k in invalid else sse_event(m, name=[None, "message"][(n + k) % 2]))
                    body = {"form": "sse", "events": evs, "eols": [[], [True] * 16][n % 2], "tail": "full"}
                nxt = {"i": 950}
                c = mkcase([mkreq(rid, response_b(200, ct, body)),
                            mkreq(nxt, response_b(200, "json", body_for("json", content("response", nxt, f"pb{n}-next"))))])
                c["hk"] = "partial-batch/" + form
                out.append(c)
    return out


def method_session_cases(quick=True):
    """session-header sequences with every method at every position: an id issued by an earlier reply or configured
    through session_id must go out with EVERY later request, whatever its method"""
    out = []
    n = 0
    issuers = [0, 4, 8, 17]      # letters of the alphabet that issue a session id (200 JSON, 200 SSE, 202 empty, 301)
    for m in METHODS:
        for pos in (0, 1, 2):
            for s0 in (None, "sess-cfg"):
                n += 1
                word = [2, 2, 2]
                word[(pos + 2) % 3] = issuers[n % len(issuers)]
                c = sequence(tuple(word), rot=n % 6, session0=s0)
                c["reqs"][pos] = dict(c["reqs"][pos], method=m)
                for j, r in enumerate(c["reqs"]):
                    if j != pos:
                        c["reqs"][j] = dict(r, method=METHODS[(n + j) % len(METHODS)])
                c["hk"] = "method-x-session"
                out.append(c)
    return out


def shared_parameter_cases(quick=True):
    """2-3 connections built from ONE parameters object — side by side and one after the other (a reconnect) — and from
    equal-but-distinct objects; the server issues every connection its own session ids, or none"""
    out = []
    A = alphabet()
    words = [(0, 2, 2), (2, 0, 1), (0, 18, 2), (4, 2), (2, 2, 2), (8, 2, 0), (15, 0, 2), (1,), (2,)]
    n = 0
    for w in words if quick else words * 4:
        for mode in ("share", "reuse", "distinct"):
            for s0 in (None, "sess-0"):
                n += 1
                c = sequence(w, rot=n % 6, session0=s0)
                for j, r in enumerate(c["reqs"]):
                    r["b"]["lat"] = [0, 2, 1, 3][(j + n) % 4]
                if mode == "reuse":
                    c["reuse"] = True
                else:
                    c["instances"] = 2 + n % 2
                    if mode == "share":
                        c["share_params"] = True
                if n % 5 == 0:
                    c["cfg"] = {"headers": {"X-Custom": "v"}}
                c["hk"] = "one-parameters-object/" + mode
                out.append(c)
    return out


def hardening3(rng, budget):
    quick = budget == "quick"
    out = []
    n = 0
    # N: explicit nulls / unusual member combinations / duplicated members / BOM / declared charset, every body form
    for rid in (REQ_IDS[0], REQ_IDS[1], REQ_IDS[2], None):
        for v, m in enumerate(null_variants(rid, "nv")):
            for form, ct, status in (("json", "json", 200), ("batch", "json", 200), ("sse", "sse", 200), ("json", "absent", 202), ("json", "json", 500)):
                n += 1
                tag = f"nv{n}"
                msg = json.loads(json.dumps(m).replace('"nv"', json.dumps(tag)))
                msgs = [msg] if form != "batch" else [notif(tag + "-b"), msg]
                body = sse_body(msgs, name=[None, "message"][n % 2]) if form == "sse" else ({"form": "batch", "msgs": msgs} if form == "batch" else {"form": "json", "msgs": msgs})
                if n % 4 == 0 and form != "sse":
                    body["dup"] = True
                c = mkcase([mkreq(rid, response_b(status, ct, body), as_dict=bool(n % 3 == 0))])
                c["hk"] = "nulls-and-member-combinations"
                out.append(c)
    for rid in (REQ_IDS[0], REQ_IDS[1]):
        for ascii_only in (True, False):
            for ct, ctv in (("json", "application/json; charset=ISO-8859-1"), ("json", "application/json; charset=utf-8"),
                            ("sse", "text/event-stream; charset=iso-8859-1"), ("sse", "text/event-stream; charset=UTF-8"),
                            ("other", "text/plain; charset=latin-1"), ("json", "application/json; charset=bogus-8")):
                n += 1
                r = result(rid, f"cs{n}")
                r["result"]["x"] = "plain ascii" if ascii_only else "éü ☃"
                body = body_for("sse" if ct == "sse" else "json", [r])
                if not ascii_only and "8859" in ctv.lower() + "" or (not ascii_only and "latin" in ctv):
                    if ct != "json":
                        body["damaged"] = True
                b = response_b(200, ct, body)
                b["ctv"] = ctv
                c = mkcase([mkreq(rid, b)])
                c["hk"] = "declared-charset"
                out.append(c)
            for ct in ("json", "sse", "other"):
                n += 1
                body = dict(body_for("sse" if ct == "sse" else "json", content("response", rid, f"bom{n}")), bom=True)
                c = mkcase([mkreq(rid, response_b(200, ct, body))])
                c["hk"] = "byte-order-mark"
                out.append(c)
    # K: partial failure inside a batch / an event stream
    out += partial_batches(quick)
    # every N / K case also with DEBUG logging and a formatting handler (the decorate() rotation only hits a quarter)
    out += [dict(c, debug=True) for c in out]
    # I: sizes far above every buffer, small messages before and after
    for size in ([300_000] if quick else [300_000, 1_000_000]):
        for form, ct in (("json", "json"), ("sse", "sse")):
            n += 1
            rid = REQ_IDS[n % 2]
            r = result(rid, f"big{n}")
            r["result"]["big"] = "x" * size
            c = mkcase([mkreq({"i": 801}, response_b(200, "json", body_for("json", content("response", {"i": 801}, f"big{n}-a")))),
                        mkreq(rid, response_b(200, ct, body_for(form, [notif(f"big{n}-n", "y" * (size // 3)), r]))),
                        mkreq({"i": 802}, response_b(200, "sse", sse_body(content("response", {"i": 802}, f"big{n}-b"))))])
            c["hk"] = f"size/{size // 1000}kB"
            out.append(c)
    if not quick:
        reqs = []
        for j in range(1000):
            rid = {"i": 5000 + j}
            reqs.append(mkreq(rid, response_b(200, ["json", "sse"][j % 2], body_for(["json", "sse"][j % 2], content("response", rid, f"k{j}")))))
        c = mkcase(reqs)
        c["hk"] = "size/1000-messages"
        out.append(c)
    # H: idle for hours of (virtual) time between two requests; a burst right after
    for hours in (1, 10, 1000):
        c = sequence((0, 4, 18, 2), rot=1)
        c["reqs"][2]["delay"] = hours * 3600 * 1024
        c["reqs"][3]["delay"] = hours * 3600 * 1024 + 1
        c["hk"] = "idle-for-hours"
        out.append(c)
    # L: the caller closes its sending end right after queueing / stops listening while POSTs are outstanding
    for k, w in enumerate([(0, 4, 18), (5, 12, 2, 3), (13, 13, 0)]):
        c = sequence(w, rot=k)
        for j, r in enumerate(c["reqs"]):
            r["b"]["lat"] = [0, 512, 1024][(j + k) % 3]
        c["close_wr"] = True
        c["hk"] = "half-close/write-end"
        out.append(c)
        d = copy.deepcopy(c)
        d.pop("close_wr")
        d["close_rd_after"] = k
        d["hk"] = "half-close/read-end"
        out.append(d)
    # M: the library's other message classes, a dict subclass; ids that are canonically equivalent but different strings
    for shape in ("specific", "wrapper", "odict"):
        for w in [(0, 13), (18, 4), (9, 2), (12, 5)]:
            n += 1
            c = sequence(w, rot=n % 6)
            for r in c["reqs"]:
                r["shape"] = shape
            c["hk"] = "message-shape/" + shape
            out.append(c)
    for form in ("json", "sse"):
        a, b_ = {"s": "café"}, {"s": "café"}
        c = mkcase([mkreq(a, response_b(200, form, body_for(form, content("response", a, "nfc")))),
                    mkreq(b_, response_b(200, form, body_for(form, content("wrong-id", a, "nfd") + content("response", b_, "nfd2")))),
                    mkreq({"s": "﻿id"}, response_b(500, "json", {"form": "empty"}))])
        c["hk"] = "unicode-twin-ids"
        out.append(c)
    out += shared_parameter_cases(quick)
    out += method_session_cases(quick)
    return decorate(out, salt=9)


# ------------------------------------------------------------------------------- round 6: encoding twins

EDGE_TOKENS = ['"\\ud83d"', '"\\udc00 tail"', '"ok \\ud83d\\ude00"', "1e400", "-1e400", "1e-400", "NaN", "Infinity", "-Infinity",
               "9223372036854775807", "9223372036854775808", "18446744073709551615", "18446744073709551616", "-9223372036854775809",
               "1" + "0" * 40, "-0.0", "0.0", "-0", "1.5", "1E5", "1e+2", "0.1e1", "[" * 40 + "]" * 40, '"\\u0000"', '"\\/"',
               '{"k":1,"k":2}', "true", "null", '""', "7"]
TWIN_ENCODINGS = [("json", "json"), ("batch", "json"), ("sse", "sse"), ("sse-split", "sse"), ("json", "other"), ("json", "absent"),
                  ("sse", "absent"), ("batch", "other")]


def twin_cases(quick=True):
    """the same server message — with a value at an edge of the JSON grammar or of a decoder — through every body
    encoding in ONE case (one request per encoding): what is delivered must not depend on the encoding"""
    out = []
    for n, tok in enumerate(EDGE_TOKENS):
        for where in ("result", "params", "error-data"):
            if quick and where != "result" and n % 3:
                continue
            reqs = []
            for k, (enc, ct) in enumerate(TWIN_ENCODINGS):
                rid = {"i": 600 + k}
                tag = f"tw{n}"
                if where == "result":
                    main = '{"jsonrpc":"2.0","id":%d,"result":{"tag":"%s","v":%s}}' % (600 + k, tag, tok)
                    texts = [main]
                elif where == "error-data":
                    texts = ['{"jsonrpc":"2.0","id":%d,"error":{"code":-32001,"message":"no","data":{"tag":"%s","v":%s}}}' % (600 + k, tag, tok)]
                else:
                    texts = ['{"jsonrpc":"2.0","method":"notifications/message","params":{"tag":"%s","v":%s}}' % (tag, tok),
                             '{"jsonrpc":"2.0","id":%d,"result":{"tag":"%s"}}' % (600 + k, tag)]
                if enc == "json" and len(texts) > 1:
                    enc_k = "batch"
                else:
                    enc_k = enc
                if enc_k == "batch" and len(texts) == 1:
                    texts = ['{"jsonrpc":"2.0","method":"notifications/message","params":{"tag":"%s-b"}}' % tag] + texts
                body = {"form": "rawmsgs", "texts": texts, "enc": enc_k, "own_terminal": True, "tag": tag}
                reqs.append(mkreq(rid, response_b(200, ct, body)))
            c = mkcase(reqs)
            c["twins"] = True
            c["hk"] = "encoding-twins/" + where
            out.append(c)
    return out
