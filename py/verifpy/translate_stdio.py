"""Extra translator generators for the stdio area (regenerated from /repo on every run):

* `Gen/StdioExit.lean` — the exception filters of `stdio_client()` and `stdio_client_with_initialize()`
  (`transports/stdio/stdio_client.py`): which exception leaving the connection is swallowed and which is
  re-raised.  Translated shape (per function, per handler `except BaseExceptionGroup` / `except Exception`):

      if not isinstance(exc, <cancelled class>):
          msg = str(exc)
          if [isinstance(exc, <ClassName>) and] "<marker>" in msg.lower(): <statements>   # any number of if / elif
          elif "<marker>" in msg.lower(): <statements> [raise]
          else: <statements> [raise]

  A branch "raises" iff its last statement is a bare `raise`.
* `Gen/BatchSelfTest.lean` — the table of `(version, expected)` pairs of the module's own
  `test_version_batching_scenarios()` (`protocol/features/batching.py`).

Anything outside these shapes is NOT guessed: `translatable := false`, placeholders, a report entry.
"""
from __future__ import annotations

import ast
import json

from . import translate
from .translate import Untranslatable


def _lean_str(s):
    return json.dumps(s, ensure_ascii=False)


def _marker_test(test, var, excvar=None):
    """`"<marker>" in <var>.lower()` -> (marker, None);
    `isinstance(<excvar>, <ClassName>) and "<marker>" in <var>.lower()` -> (marker, "ClassName")"""
    if isinstance(test, ast.BoolOp) and isinstance(test.op, ast.And) and len(test.values) == 2:
        g = test.values[0]
        if (isinstance(g, ast.Call) and getattr(g.func, "id", None) == "isinstance" and len(g.args) == 2 and not g.keywords
                and isinstance(g.args[0], ast.Name) and g.args[0].id == excvar and isinstance(g.args[1], ast.Name)):
            return _marker_test(test.values[1], var)[0], g.args[1].id
        raise Untranslatable("class guard " + ast.dump(g)[:80])
    if (isinstance(test, ast.Compare) and len(test.ops) == 1 and isinstance(test.ops[0], ast.In)
            and isinstance(test.left, ast.Constant) and isinstance(test.left.value, str)):
        r = test.comparators[0]
        if (isinstance(r, ast.Call) and isinstance(r.func, ast.Attribute) and r.func.attr == "lower" and not r.args
                and isinstance(r.func.value, ast.Name) and r.func.value.id == var):
            return test.left.value, None
    raise Untranslatable("marker test " + ast.dump(test)[:80])


def _raises(body):
    body = [s for s in body if not translate._is_effect_free(s)]
    if not body:
        return False
    if len(body) == 1 and isinstance(body[0], ast.Raise) and body[0].exc is None:
        return True
    raise Untranslatable("branch body is not logging followed by an optional bare raise")


def _chain(stmt, var, excvar):
    """if/elif/else chain of marker tests -> ([(marker, class guard or None, raises)], else_raises)"""
    markers = []
    while True:
        if not isinstance(stmt, ast.If):
            raise Untranslatable("expected an if-chain")
        markers.append(_marker_test(stmt.test, var, excvar) + (_raises(stmt.body),))
        rest = stmt.orelse
        if len(rest) == 1 and isinstance(rest[0], ast.If):
            stmt = rest[0]
            continue
        return markers, _raises(rest)


def _not_cancelled_guard(stmt, excvar):
    """`if not isinstance(<excvar>, anyio.get_cancelled_exc_class()): msg = str(excvar); <chain>`"""
    if not (isinstance(stmt, ast.If) and not stmt.orelse and isinstance(stmt.test, ast.UnaryOp) and isinstance(stmt.test.op, ast.Not)):
        raise Untranslatable("expected `if not isinstance(exc, cancelled)`")
    c = stmt.test.operand
    if not (isinstance(c, ast.Call) and getattr(c.func, "id", None) == "isinstance" and isinstance(c.args[0], ast.Name)
            and c.args[0].id == excvar and "get_cancelled_exc_class" in ast.dump(c.args[1])):
        raise Untranslatable("expected isinstance(exc, anyio.get_cancelled_exc_class())")
    body = [s for s in stmt.body if not translate._is_effect_free(s)]
    if len(body) != 2 or not (isinstance(body[0], ast.Assign) and isinstance(body[0].value, ast.Call)
                              and getattr(body[0].value.func, "id", None) == "str"
                              and getattr(body[0].value.args[0], "id", None) == excvar):
        raise Untranslatable("expected `msg = str(exc)` followed by the if-chain")
    return _chain(body[1], body[0].targets[0].id, excvar)


def _filters_of(func):
    tr = next((s for s in func.body if isinstance(s, ast.Try)), None)
    if tr is None or len(tr.handlers) != 2:
        raise Untranslatable("expected one try with two handlers")
    hg, hs = tr.handlers
    if getattr(hg.type, "id", None) != "BaseExceptionGroup" or getattr(hs.type, "id", None) != "Exception":
        raise Untranslatable("expected handlers (BaseExceptionGroup, Exception)")
    gb = [s for s in hg.body if not translate._is_effect_free(s)]
    if len(gb) != 1 or not (isinstance(gb[0], ast.For) and isinstance(gb[0].iter, ast.Attribute) and gb[0].iter.attr == "exceptions"
                            and getattr(gb[0].iter.value, "id", None) == hg.name and not gb[0].orelse):
        raise Untranslatable("expected `for exc in eg.exceptions:`")
    loop = [s for s in gb[0].body if not translate._is_effect_free(s)]
    if len(loop) != 1:
        raise Untranslatable("expected one statement in the loop")
    group = _not_cancelled_guard(loop[0], gb[0].target.id)
    sb = [s for s in hs.body if not translate._is_effect_free(s)]
    if len(sb) != 1:
        raise Untranslatable("expected one statement in `except Exception`")
    single = _not_cancelled_guard(sb[0], hs.name)
    return group, single


def _lean_filter(f):
    markers, other = f
    return "⟨[" + ", ".join(f"({_lean_str(m)}, {'none' if c is None else 'some ' + _lean_str(c)}, {'true' if r else 'false'})"
                            for m, c, r in markers) + f"], {'true' if other else 'false'}⟩"


@translate.register("StdioExit")
def gen_stdio_exit(src):
    report = {"file": "Gen/StdioExit.lean", "untranslatable": []}
    dflt = ([], True)
    out = {}
    try:
        tree = ast.parse((src / "transports/stdio/stdio_client.py").read_text())
    except Exception as ex:  # noqa
        tree = None
        report["untranslatable"].append(f"stdio_client.py: {ex}")
    for fn in ("stdio_client", "stdio_client_with_initialize"):
        try:
            if tree is None:
                raise Untranslatable("no source")
            out[fn] = _filters_of(translate._find_func(tree, fn))
        except Untranslatable as ex:
            report["untranslatable"].append(f"stdio_client.py: {fn}: {ex}")
            out[fn] = (dflt, dflt)
    ok = "true" if not report["untranslatable"] else "false"
    lean = f"""-- GENERATED by verifpy/translate_stdio.py from transports/stdio/stdio_client.py. Do not edit.
namespace Verif.Gen.StdioExit

def translatable : Bool := {ok}

/-- `markers`: the if / elif chain `[isinstance(exc, <Class>) and] "<marker>" in str(exc).lower()` - the marker, the
class guard in front of it (if any), and "this branch ends in a bare raise"; `otherwise`: the else branch ends in a bare raise -/
structure Filter where
  markers : List (String × Option String × Bool)
  otherwise : Bool
  deriving Repr, DecidableEq

/-- `stdio_client()`: handler `except BaseExceptionGroup` (per member) / `except Exception` -/
def clientGroup : Filter := {_lean_filter(out['stdio_client'][0])}
def clientSingle : Filter := {_lean_filter(out['stdio_client'][1])}
/-- `stdio_client_with_initialize()` -/
def initGroup : Filter := {_lean_filter(out['stdio_client_with_initialize'][0])}
def initSingle : Filter := {_lean_filter(out['stdio_client_with_initialize'][1])}

end Verif.Gen.StdioExit
"""
    report["filters"] = {k: [list(map(list, v[0][0])), v[0][1], list(map(list, v[1][0])), v[1][1]] for k, v in out.items()}
    return lean, report


@translate.register("BatchSelfTest")
def gen_batch_selftest(src):
    report = {"file": "Gen/BatchSelfTest.lean", "untranslatable": []}
    cases = []
    try:
        tree = ast.parse((src / "protocol/features/batching.py").read_text())
        f = translate._find_func(tree, "test_version_batching_scenarios")
        tab = next((s for s in f.body if isinstance(s, ast.Assign) and getattr(s.targets[0], "id", None) == "test_cases"), None)
        if tab is None:
            raise Untranslatable("no `test_cases = [...]`")
        for row in ast.literal_eval(tab.value):
            v, e = row[0], row[1]
            if not ((v is None or isinstance(v, str)) and isinstance(e, bool)):
                raise Untranslatable(f"row {row!r}")
            cases.append((v, e))
    except Untranslatable as ex:
        report["untranslatable"].append(f"batching.py: test_version_batching_scenarios: {ex}")
    except Exception as ex:  # noqa
        report["untranslatable"].append(f"batching.py: test_version_batching_scenarios: {ex!r}")
    ok = "true" if not report["untranslatable"] else "false"
    rows = ", ".join(f"({'none' if v is None else 'some ' + _lean_str(v)}, {'true' if e else 'false'})" for v, e in cases)
    lean = f"""-- GENERATED by verifpy/translate_stdio.py from protocol/features/batching.py. Do not edit.
namespace Verif.Gen.BatchSelfTest

def translatable : Bool := {ok}

/-- the `(version, expected supports_batching)` table of the module's own `test_version_batching_scenarios()` -/
def cases : List (Option String × Bool) := [{rows}]

end Verif.Gen.BatchSelfTest
"""
    report["cases"] = cases
    return lean, report
