"""Import-time introspection of every `McpPydanticBase` subclass reachable from the package.

Run as a SCRIPT in a subprocess (one per validation backend; the backend is selected by the
library's own `MCP_FORCE_FALLBACK=1` at import time):

    VERIF_SRC=/repo/src [MCP_FORCE_FALLBACK=1] python schema_introspect.py  ->  one JSON document on stdout

Nothing here is listed by hand: the package is walked with pkgutil, every module imported, and
the subclass tree of the base class is enumerated.  Field tables are read from the backend's own
metadata (`model_fields` under Pydantic, `__model_fields__`/`__model_required__`/`__field_aliases__`
under the fallback) so that the two views can be compared by the translator.

Also used (imported) by the worker processes for `class_index()` / `type_tree()`.
"""
from __future__ import annotations

import importlib
import json
import os
import pkgutil
import sys
import typing
from typing import Any, Union, get_args, get_origin

HOOK_NAMES = ("__post_init__", "model_post_init")


def load_package():
    src = os.environ.get("VERIF_SRC")
    if src:
        if src in sys.path:
            sys.path.remove(src)
        sys.path.insert(0, src)
    import logging

    logging.disable(logging.CRITICAL)
    import chuk_mcp
    from chuk_mcp.protocol import mcp_pydantic_base as B

    errors = []
    for m in pkgutil.walk_packages(chuk_mcp.__path__, "chuk_mcp."):
        if m.name.endswith("__main__"):
            continue
        try:
            importlib.import_module(m.name)
        except BaseException as ex:  # noqa  (a module that cannot be imported is reported, not fatal)
            errors.append([m.name, type(ex).__name__])
    return B, errors


def all_classes(B):
    seen, out = set(), []

    def rec(c):
        for s in c.__subclasses__():
            if s not in seen:
                seen.add(s)
                if s.__module__.startswith("chuk_mcp."):
                    out.append(s)
                rec(s)

    rec(B.McpPydanticBase)
    out.sort(key=lambda c: (c.__module__, c.__qualname__))
    return out


def class_ids(classes):
    """Unique, stable identifier per class: the bare name when unique, else Name@module-tail."""
    from collections import Counter

    cnt = Counter(c.__name__ for c in classes)
    ids = {}
    for c in classes:
        if cnt[c.__name__] == 1:
            ids[c] = c.__name__
        else:
            ids[c] = f"{c.__name__}@{c.__module__[len('chuk_mcp.'):]}"
    return ids


def class_index():
    """{id: class} for the worker processes (same walk, same ids)."""
    B, _ = load_package()
    cl = all_classes(B)
    ids = class_ids(cl)
    return B, {ids[c]: c for c in cl}, ids


# ------------------------------------------------------------------------------------ types
def ty(t, ids, B, module=None):
    if t is Any:
        return {"k": "any"}
    if t is type(None):
        return {"k": "none"}
    if isinstance(t, (str, typing.ForwardRef)):
        name = t if isinstance(t, str) else t.__forward_arg__
        target = getattr(module, name, None) if module is not None else None
        if target is None:
            return {"k": "unknown", "repr": f"forward:{name}"}
        return ty(target, ids, B, module)
    origin = get_origin(t)
    if origin is typing.Annotated:
        return ty(get_args(t)[0], ids, B, module)
    if origin is Union or (hasattr(__import__("types"), "UnionType") and origin is __import__("types").UnionType):
        args = list(get_args(t))
        non_none = [a for a in args if a is not type(None)]
        inner = [ty(a, ids, B, module) for a in non_none]
        u = inner[0] if len(inner) == 1 else {"k": "union", "ts": inner}
        if len(non_none) != len(args):
            return {"k": "opt", "t": u}
        return u
    if origin is typing.Literal:
        vals = list(get_args(t))
        if all(isinstance(v, str) for v in vals):
            return {"k": "lit", "vals": vals}
        return {"k": "unknown", "repr": f"literal-non-string:{vals!r}"}
    if origin in (list, typing.List):
        a = get_args(t)
        return {"k": "list", "t": ty(a[0], ids, B, module) if a else {"k": "any"}}
    if origin in (dict, typing.Dict):
        a = get_args(t)
        kt = ty(a[0], ids, B, module) if a else {"k": "any"}
        vt = ty(a[1], ids, B, module) if len(a) > 1 else {"k": "any"}
        return {"k": "dict", "kt": kt, "t": vt}
    if origin is not None:
        return {"k": "unknown", "repr": f"origin:{origin!r}"}
    if t is str:
        return {"k": "str"}
    if t is bool:
        return {"k": "bool"}
    if t is int:
        return {"k": "int"}
    if t is float:
        return {"k": "float"}
    if t is dict:
        return {"k": "dict", "kt": {"k": "any"}, "t": {"k": "any"}}
    if t is list:
        return {"k": "list", "t": {"k": "any"}}
    if isinstance(t, type) and issubclass(t, B.McpPydanticBase):
        if t in ids:
            return {"k": "ref", "cls": ids[t]}
        return {"k": "unknown", "repr": f"model-outside-package:{t!r}"}
    return {"k": "unknown", "repr": repr(t)[:80]}


# ------------------------------------------------------------------------------------ values
def instance_items(o, B):
    """(attribute name, value) pairs of a model instance in the backend's own storage order:
    declared fields first, then extras."""
    if B.PYDANTIC_AVAILABLE:
        items = [(n, getattr(o, n)) for n in type(o).model_fields]
        items += list((getattr(o, "model_extra", None) or {}).items())
        return items
    return [(k, v) for k, v in o.__dict__.items()]


def tval(v, ids, B):
    """typed value -> {"m": cls, "f": [[attr, tval]...]} | {"l":[...]} | {"d":[[k,tval]...]} | {"j": json}"""
    if isinstance(v, B.McpPydanticBase):
        return {"m": ids.get(type(v), type(v).__name__), "f": [[k, tval(x, ids, B)] for k, x in instance_items(v, B)]}
    if isinstance(v, (list, tuple)):
        return {"l": [tval(x, ids, B) for x in v]}
    if isinstance(v, dict):
        if not all(isinstance(k, str) for k in v):
            raise TypeError("non-string key")
        return {"d": [[k, tval(x, ids, B)] for k, x in v.items()]}
    if v is None or isinstance(v, (bool, int, float, str)):
        return {"j": v}
    raise TypeError(f"not representable: {type(v).__name__}")


def type_tree(v, B):
    """`type(...).__name__` at every level: model -> [name, {attr: subtree}], containers keep only
    the positions that hold models, everything else is null."""
    if isinstance(v, B.McpPydanticBase):
        sub = {}
        for k, x in instance_items(v, B):
            t = type_tree(x, B)
            if t is not None:
                sub[k] = t
        return [type(v).__name__, sub]
    if isinstance(v, (list, tuple)):
        ts = [type_tree(x, B) for x in v]
        return ts if any(t is not None for t in ts) else None
    if isinstance(v, dict):
        ts = {k: type_tree(x, B) for k, x in v.items()}
        ts = {k: t for k, t in ts.items() if t is not None}
        return ts or None
    return None


# ------------------------------------------------------------------------------------ classes
def describe(c, ids, B):
    module = sys.modules.get(c.__module__)
    out = {
        "id": ids[c],
        "name": c.__name__,
        "module": c.__module__,
        "protocol": c.__module__.startswith("chuk_mcp.protocol."),
        "fields": [],
        "problems": [],
    }
    own_ann = c.__dict__.get("__annotations__", {})
    if B.PYDANTIC_AVAILABLE:
        from pydantic_core import PydanticUndefined

        out["extra"] = c.model_config.get("extra") or "ignore"
        out["populate_by_name"] = bool(c.model_config.get("populate_by_name"))
        deco = getattr(c, "__pydantic_decorators__", None)
        vals = []
        if deco is not None:
            for grp in ("field_validators", "model_validators", "validators", "root_validators"):
                vals += sorted(getattr(deco, grp, {}) or {})
        out["validators"] = vals
        try:
            hints = typing.get_type_hints(c, include_extras=True)
        except Exception:
            hints = {}
        for n, f in c.model_fields.items():
            fd = {"name": n, "alias": f.alias, "required": bool(f.is_required()), "own": n in own_ann}
            fd["ty"] = ty(hints.get(n, f.annotation), ids, B, module)
            if f.default_factory is not None:
                fd["default_kind"] = "factory"
                dv = f.default_factory()
            elif f.default is not PydanticUndefined:
                fd["default_kind"] = "value"
                dv = f.default
            else:
                fd["default_kind"] = "absent"
                dv = None
            try:
                fd["default"] = tval(dv, ids, B)
            except TypeError as ex:
                fd["default"] = None
                out["problems"].append(f"default of {n}: {ex}")
            cons = {}
            for md in f.metadata or []:
                for k in ("ge", "le", "gt", "lt", "min_length", "max_length"):
                    if hasattr(md, k) and getattr(md, k) is not None:
                        cons[k] = getattr(md, k)
            fd["constraints"] = cons
            out["fields"].append(fd)
    else:
        out["extra"] = "allow"  # the fallback constructor keeps every unknown member
        out["populate_by_name"] = True  # `_process_aliases` accepts alias and attribute name
        out["validators"] = sorted(
            k for k, v in vars(c).items() if type(v).__name__ == "PydanticDescriptorProxy"
        )
        try:
            hints = typing.get_type_hints(c, include_extras=True)
        except Exception:
            hints = getattr(c, "__annotations__", {})
        for n, f in c.__model_fields__.items():
            fd = {"name": n, "alias": c.__field_aliases__.get(n), "required": n in c.__model_required__,
                  "own": n in own_ann}
            fd["ty"] = ty(hints.get(n, Any), ids, B, module)
            if f.default_factory is not None:
                fd["default_kind"] = "factory"
                dv = f.default_factory()
            elif f.default is not ...:
                fd["default_kind"] = "value"
                dv = f.default
            else:
                fd["default_kind"] = "absent"
                dv = None
            try:
                fd["default"] = tval(dv, ids, B)
            except TypeError as ex:
                fd["default"] = None
                out["problems"].append(f"default of {n}: {ex}")
            fd["constraints"] = {k: v for k, v in (f.kwargs or {}).items()
                                 if k in ("ge", "le", "gt", "lt", "min_length", "max_length")}
            out["fields"].append(fd)
    hooks = []
    for h in HOOK_NAMES:
        for k in c.__mro__:
            if k is B.McpPydanticBase:
                break
            if h in vars(k):
                hooks.append(h)
                break
    out["hooks"] = hooks
    out["overrides"] = sorted(
        h for h in ("model_dump", "model_dump_json", "model_validate", "__init__")
        if any(h in vars(k) for k in c.__mro__[: c.__mro__.index(B.McpPydanticBase)])
    )
    return out


def probe_hook_calls(B):
    """Which of the hook names does THIS backend call when an instance is constructed?
    Observed on a throw-away subclass, so a refactor of the calling code is followed."""
    calls = []

    class _VerifHookProbe(B.McpPydanticBase):  # noqa
        x: int = 0

        def __post_init__(self):
            calls.append("__post_init__")

        def model_post_init(self, _ctx):
            calls.append("model_post_init")

    _VerifHookProbe(x=1)
    return sorted(set(calls))


def _param_ty(t, ids, B, module):
    d = ty(t, ids, B, module)

    def clean(x):
        """drop union members outside the subset (bytes, callables); None when nothing is left"""
        if x["k"] == "unknown":
            return None
        if x["k"] == "union":
            ms = [m for m in (clean(m) for m in x["ts"]) if m is not None]
            if not ms:
                return None
            return ms[0] if len(ms) == 1 else {"k": "union", "ts": ms}
        if x["k"] in ("opt", "list"):
            i = clean(x["t"])
            return None if i is None else {"k": x["k"], "t": i}
        if x["k"] == "dict":
            i = clean(x["t"])
            return None if i is None else {"k": "dict", "kt": x["kt"], "t": i}
        return x

    return clean(d)


def find_constructors(B, ids):
    """library-side constructors: module-level `create_*` functions of the protocol modules and
    `create_*` classmethods of model classes, with the declared types of their parameters"""
    import inspect

    out = []

    def describe_fn(fn, owner, modname, qual):
        module = sys.modules.get(modname)
        try:
            hints = typing.get_type_hints(fn)
            sig = inspect.signature(fn)
        except Exception:
            return
        params, ok = [], True
        for name, prm in sig.parameters.items():
            if name in ("self", "cls"):
                continue
            if prm.kind in (prm.VAR_POSITIONAL, prm.VAR_KEYWORD):
                ok = False
                break
            t = _param_ty(hints[name], ids, B, module) if name in hints else None
            if t is None:
                if prm.default is prm.empty:
                    ok = False
                    break
                continue  # an optional parameter outside the subset is left at its default
            params.append({"name": name, "ty": t, "optional": prm.default is not prm.empty})
        if ok:
            d = {"module": modname, "qual": qual, "owner": owner, "params": params}
            if qual.startswith("parse_"):
                r = _param_ty(hints["return"], ids, B, module) if "return" in hints else None
                refs_only = r is not None and (r["k"] == "ref" or (r["k"] == "union" and all(m["k"] == "ref" for m in r["ts"])))
                if not (refs_only and len(params) == 1 and params[0]["ty"]["k"] == "dict"):
                    return
                d["returns"] = r
            out.append(d)

    for modname, module in sorted(sys.modules.items()):
        if not modname.startswith("chuk_mcp.protocol.") or module is None:
            continue
        for name, fn in sorted(vars(module).items()):
            if ((name.startswith("create_") or (name.startswith("parse_") and name != "parse_message")) and inspect.isfunction(fn) and fn.__module__ == modname
                    and not inspect.iscoroutinefunction(fn)):
                describe_fn(fn, None, modname, name)
    for c, cid in ids.items():
        if not c.__module__.startswith("chuk_mcp.protocol."):
            continue
        for name, m in sorted(vars(c).items()):
            if name.startswith("create_") and isinstance(m, classmethod):
                describe_fn(getattr(c, name), cid, c.__module__, f"{c.__name__}.{name}")
    return out


def main():
    B, errors = load_package()
    classes = all_classes(B)
    ids = class_ids(classes)
    doc = {
        "backend": "pydantic" if B.PYDANTIC_AVAILABLE else "fallback",
        "import_errors": errors,
        "classes": [describe(c, ids, B) for c in classes],
        "hook_calls": probe_hook_calls(B),
        "constructors": find_constructors(B, ids),
    }
    json.dump(doc, sys.stdout, sort_keys=True)


if __name__ == "__main__":
    main()
