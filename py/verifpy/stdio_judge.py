"""Which lines are well-formed messages - asked of the library's own parser IN A PROCESS THAT HAS PARSED NOTHING ELSE.

    python -m verifpy.stdio_judge   < pickle([text, ...])   > pickle({"verdicts": {text: verdict}, "history_dependent": [text, ...]})

"Well-formed" is a property of the line, not of what the process happened to parse before it.  The verdict of
`stdio_h.parse_line_uncached` is therefore taken in forked children of a process that has only imported the library:
all lines in the given order in one child; every line refused there (wholly, or one member of a batch) is asked once
more ALONE, in a child of its own, and that answer counts (a difference = the parser keeps state between calls).
"""
from __future__ import annotations

import logging
import os
import pickle
import sys


def _in_child(texts, fn):
    r, w = os.pipe()
    pid = os.fork()
    if pid == 0:
        code = 0
        try:
            os.close(r)
            out = []
            for t in texts:
                try:
                    v = fn(t)
                    pickle.dumps(v)
                except BaseException:  # noqa
                    v = None  # undecided here: the caller falls back to asking in-process
                out.append(v)
            with os.fdopen(w, "wb") as f:
                pickle.dump(out, f)
        except BaseException:  # noqa
            code = 1
        finally:
            os._exit(code)
    os.close(w)
    with os.fdopen(r, "rb") as f:
        data = f.read()
    os.waitpid(pid, 0)
    try:
        return pickle.loads(data)
    except Exception:  # noqa
        return [None] * len(texts)


def main():
    logging.disable(logging.CRITICAL)
    sys.setrecursionlimit(max(sys.getrecursionlimit(), 1000))
    from . import core

    core.use_repo_source()
    from . import stdio_h
    import chuk_mcp.protocol.messages.json_rpc_message  # noqa: F401  (imported, nothing parsed)
    from chuk_mcp.protocol import fast_json  # noqa: F401

    texts = pickle.loads(sys.stdin.buffer.read())
    fn = stdio_h.parse_line_uncached
    a = _in_child(texts, fn)
    verdicts, dep = {}, []

    def refused(v):
        return v is None or v[0] == "junk" or (v[0] == "batch" and any(m is None for m in v[1]))

    for t, x in zip(texts, a):
        if not refused(x):
            verdicts[t] = x  # accepted with other lines before it
            continue
        z = _in_child([t], fn)[0]  # refused (wholly or one member): asked again ALONE, in a child that has parsed nothing else
        if z is not None:
            verdicts[t] = z
            if x is not None and repr(z) != repr(x):
                dep.append(t)
        elif x is not None:
            verdicts[t] = x
    sys.stdout.buffer.write(pickle.dumps({"verdicts": verdicts, "history_dependent": dep}))


if __name__ == "__main__":
    main()
