"""Suites shared by C09 (backends agree) and C10 (lossless views, wire names): case generation,
three-way execution (Pydantic worker, fallback worker, Lean model), schema-directed oracles."""
from __future__ import annotations

import copy

from . import schema_gen, schema_h
from .runner import Suite

HOOK_KEY = "hook-enforced-by-one-backend:"


def gen() -> schema_gen.Gen:
    S = schema_h.schema()
    g = _GEN.get(id(S))
    if g is None:
        _GEN.clear()
        g = _GEN[id(S)] = schema_gen.Gen(S, schema_h.schema_pyd())
    return g


def name_is_result(cid, f) -> bool:
    """members the generator keeps object-shaped (an MCP result is an object)"""
    return f["name"] == "result" and cid in ("JSONRPCResponse", "JSONRPCMessage")


def protocol_classes(S) -> list[str]:
    return [cid for cid, c in S.items() if c["protocol"]]


# --------------------------------------------------------------------------------- diffing
def first_diff(a, b, path="$"):
    """first position where two JSON values differ (numbers by value, bool/number/string never identified)"""
    if isinstance(a, dict) and isinstance(b, dict):
        for k in sorted(set(a) | set(b)):
            if k not in a or k not in b:
                return (f"{path}.{k}", a.get(k, "<absent>"), b.get(k, "<absent>"))
            d = first_diff(a[k], b[k], f"{path}.{k}")
            if d:
                return d
        return None
    if isinstance(a, list) and isinstance(b, list):
        if len(a) != len(b):
            return (path, f"<{len(a)} items>", f"<{len(b)} items>")
        for i, (x, y) in enumerate(zip(a, b)):
            d = first_diff(x, y, f"{path}[{i}]")
            if d:
                return d
        return None
    return None if schema_h.strict_eq(a, b) else (path, a, b)


def digit_string_vs_int(a, b) -> bool:
    for x, y in ((a, b), (b, a)):
        if isinstance(x, str) and isinstance(y, int) and not isinstance(y, bool):
            try:
                return int(x) == y
            except ValueError:
                return False
    return False


def attr_name_members(case):
    """does the input carry a member named like the Python ATTRIBUTE of an aliased field of its class?
    -> None | "both" (the alias member is present too) | "only" """
    S = schema_h.schema()
    c = S.get(case.get("cls"))
    w = case.get("wire")
    if c is None or not isinstance(w, dict):
        return None
    res = None
    for f in c["fields"]:
        if f["alias"] and f["alias"] != f["name"] and f["name"] in w:
            res = "both" if f["alias"] in w else (res or "only")
    return res


def agree(case, o):
    """C09 oracle on one input: same accept/reject, same variant tree, same re-serialised JSON value"""
    p, f = o["pydantic"], o["fallback"]
    tag = "alias-and-attribute-name-members" if attr_name_members(case) == "both" else None
    if p.get("ok") != f.get("ok"):
        who = "pydantic" if p.get("ok") else "fallback"
        return (tag or "accepted-by-one-backend",
                f"{case.get('cls', 'message')}: accepted only by the {who} backend", {"accepted_by": "both"})
    if not p.get("ok"):
        return None
    if "dump_error" in p or "dump_error" in f:
        if p.get("dump_error") != f.get("dump_error"):
            return (tag or "dump-raises-under-one-backend", "model_dump raises under one backend only", None)
        return None
    if p.get("type") != f.get("type") or p.get("tree") != f.get("tree") or p.get("kind") != f.get("kind"):
        return (tag or "union-variant-differs",
                f"typed as {p.get('tree') or p.get('type')} under pydantic, {f.get('tree') or f.get('type')} under the fallback",
                {"tree": p.get("tree"), "kind": p.get("kind")})
    d = first_diff(p.get("dump"), f.get("dump"))
    if d:
        key = tag or ("digit-string-becomes-int" if digit_string_vs_int(d[1], d[2]) else "dump-differs")
        return (key, f"re-serialised value differs at {d[0]}: {d[1]!r} under pydantic, {d[2]!r} under the fallback",
                {"dump": p.get("dump")})
    # the other forms in which the library itself serialises (argument combinations of its dump
    # sites, the JSON text of the stdio writer), a repeated dump, a repeated validation of the same dict
    pv, fv = dict(p.get("variants") or {}), dict(f.get("variants") or {})
    for k in ("second", "from_instance", "input_intact", "reuse_error"):
        pv[k], fv[k] = p.get(k), f.get(k)
    for k in sorted(pv):
        d = first_diff(pv.get(k), fv.get(k))
        if d:
            return (tag or f"serialised-form-differs:{k}",
                    f"{case.get('cls', 'message')}: form '{k}' differs at {d[0]}: {d[1]!r} under pydantic, {d[2]!r} under the fallback",
                    {k: pv.get(k)})
    return None


# --------------------------------------------------------------------------------- lossless oracle
def _wire(f):
    return f["alias"] or f["name"]


def _default_json(tv):
    """declared default (tval form of the introspection) as the JSON it dumps to (by_alias, exclude_none)"""
    if tv is None:
        return None
    if "j" in tv:
        return tv["j"]
    if "l" in tv:
        return [_default_json(x) for x in tv["l"]]
    if "d" in tv:
        return {k: _default_json(x) for k, x in tv["d"]}
    S = schema_h.schema()
    c = S.get(tv["m"])
    al = {f["name"]: _wire(f) for f in c["fields"]} if c else {}
    return {al.get(k, k): _default_json(x) for k, x in tv["f"] if _default_json(x) is not None}


def lossless(S, t, wire, out, path="$"):
    """C10 oracle, schema-directed: every member of the input is preserved exactly; at a typed
    object a member that was not in the input must be a declared default.
    -> None | (key, what)"""
    k = t["k"]
    if k == "opt":
        return lossless(S, t["t"], wire, out, path)
    if k == "union":
        errs = []
        for m in t["ts"]:
            if _conforms_shallow(S, m, wire):
                r = lossless(S, m, wire, out, path)
                if r is None:
                    return None
                errs.append(r)
        if errs:
            return errs[0]
        return None if schema_h.strict_eq(wire, out) else ("member-changed", f"{path}: {wire!r} became {out!r}")
    if k == "list" and isinstance(wire, list):
        if not isinstance(out, list) or len(out) != len(wire):
            return ("member-changed", f"{path}: list of {len(wire)} became {out!r}"[:300])
        for i, (x, y) in enumerate(zip(wire, out)):
            r = lossless(S, t["t"], x, y, f"{path}[{i}]")
            if r:
                return r
        return None
    if k == "dict" and isinstance(wire, dict):
        if not isinstance(out, dict) or set(out) != set(wire):
            return ("member-lost", f"{path}: members {sorted(set(wire) ^ set(out if isinstance(out, dict) else []))} differ")
        for kk in wire:
            r = lossless(S, t["t"], wire[kk], out[kk], f"{path}.{kk}")
            if r:
                return r
        return None
    if k == "ref" and isinstance(wire, dict):
        c = S[t["cls"]]
        if not isinstance(out, dict):
            return ("member-changed", f"{path}: object became {out!r}"[:300])
        by_wire = {_wire(f): f for f in c["fields"]}
        for kk, v in wire.items():
            if kk not in out:
                f = next((f for f in c["fields"] if f["name"] == kk and f["alias"] and f["alias"] != kk), None)
                if f is not None and f["alias"] in out and f["alias"] not in wire:
                    return ("attribute-name-member-renamed",
                            f"{path}: unknown member {kk!r} of a {c['name']} left as {f['alias']!r}")
                return ("member-lost", f"{path}: member {kk!r} of a {c['name']} is not in the output")
            if kk in by_wire:
                r = lossless(S, by_wire[kk]["ty"], v, out[kk], f"{path}.{kk}")
            else:
                r = None if schema_h.strict_eq(v, out[kk]) else (
                    "member-changed", f"{path}.{kk}: unknown member {v!r} became {out[kk]!r}"[:300])
            if r:
                return r
        for kk, v in out.items():
            if kk in wire:
                continue
            f = by_wire.get(kk)
            if f is None or f["default_kind"] == "absent" or not schema_h.strict_eq(_default_json(f["default"]), v):
                return ("added-member-not-a-default", f"{path}: member {kk!r}={v!r} of a {c['name']} was added and is not its declared default"[:300])
        return None
    return None if schema_h.strict_eq(wire, out) else ("member-changed", f"{path}: {wire!r} became {out!r}"[:300])


def _conforms_shallow(S, t, v):
    k = t["k"]
    if k == "ref":
        if not isinstance(v, dict):
            return False
        c = S[t["cls"]]
        for f in c["fields"]:
            w = _wire(f)
            if f["ty"]["k"] == "lit":
                if v.get(w) not in f["ty"]["vals"]:
                    return False
            elif f["required"] and w not in v:
                return False
        return True
    if k == "str":
        return isinstance(v, str)
    if k == "int":
        return isinstance(v, int) and not isinstance(v, bool)
    if k == "float":
        return isinstance(v, (int, float)) and not isinstance(v, bool)
    if k == "bool":
        return isinstance(v, bool)
    if k == "lit":
        return v in t["vals"]
    if k == "list":
        return isinstance(v, list)
    if k == "dict":
        return isinstance(v, dict)
    return True


def py_conforms(S, t, v, cons=None, top=True) -> bool:
    """the generator's validity rules as a checker (used to keep shrinking inside spec-valid inputs)"""
    k = t["k"]
    if k == "any":
        return not (top and v is None)
    if k == "opt":
        return v is not None and py_conforms(S, t["t"], v, cons, top)
    if k == "union":
        return any(py_conforms(S, m, v, cons, top) for m in t["ts"])
    if k == "str":
        return isinstance(v, str)
    if k == "int":
        return isinstance(v, int) and not isinstance(v, bool)
    if k == "bool":
        return isinstance(v, bool)
    if k == "float":
        if isinstance(v, bool) or not isinstance(v, (int, float)):
            return False
        c = cons or {}
        return (c.get("ge") is None or v >= c["ge"]) and (c.get("le") is None or v <= c["le"])
    if k == "lit":
        return isinstance(v, str) and v in t["vals"]
    if k == "list":
        return isinstance(v, list) and all(py_conforms(S, t["t"], x, cons, False) for x in v)
    if k == "dict":
        return isinstance(v, dict) and all(py_conforms(S, t["t"], x, None, False) for x in v.values())
    if k == "ref":
        if not isinstance(v, dict):
            return False
        c = S[t["cls"]]
        G = gen()
        for f in c["fields"]:
            w = _wire(f)
            if w in v:
                if v[w] is None or not py_conforms(S, f["ty"], v[w], f.get("constraints"), True):
                    return False
            elif G.on_wire_required(t["cls"], f):
                return False
        if any(x is None for x in v.values()):
            return False
        cid = t["cls"]
        if cid == "Root" and not str(v.get("uri", "")).startswith("file://"):
            return False
        if cid == "CompletionResult" and len(v.get("values", [])) > 100:
            return False
        if cid in ("JSONRPCError", "JSONRPCMessage") and "error" in v:
            e = v["error"]
            if not (isinstance(e.get("code"), int) and not isinstance(e.get("code"), bool) and isinstance(e.get("message"), str)):
                return False
        if cid == "JSONRPCMessage":
            if "method" not in v and not (("result" in v) != ("error" in v) and "id" in v):
                return False
            if "method" in v and ("result" in v or "error" in v):
                return False
        return True
    return False


_GEN = {}


# --------------------------------------------------------------------------------- model cases
class ModelCases(Suite):
    """type-directed valid wire objects for every discovered protocol class, executed under both
    backends and on the Lean model"""

    name = "models"
    compare_pydantic = True
    compare_tree = True  # the type(...).__name__ tree is C09's observable, not C10's

    def cases(self, ctx, budget):
        S = schema_h.schema()
        G = gen()
        out = []
        seeds = 3 if budget == "quick" else 40
        for cid in protocol_classes(S):
            rng = ctx.sub_rng(self.name, cid)
            # every optional-field subset (small models) / seeded subsets (large), extras varied
            for present in G.subsets(cid, rng, budget):
                for s in range(seeds):
                    mode = ["none", "random", "random"][(s + len(present)) % 3]
                    out.append({"cls": cid, "mode": mode, "wire": G.obj(cid, rng, present=present, extras=mode)})
            for _ in range(4 * seeds):
                out.append({"cls": cid, "mode": "random", "wire": G.obj(cid, rng, extras="random")})
            # directed: a union member carrying a member that a sibling variant requires
            for f, members in G.union_paths(cid):
                for m in members:
                    for nm in sorted(G.siblings.get(m, ())):
                        for val in ("caption", {"k": 1}) + (() if m in G.untagged else (5,)):
                            inner = G.obj(m, rng, present=set(), extras="none")
                            inner[nm] = val
                            w = G.obj(cid, rng, present=set(), extras="none")
                            w[G.wire(f)] = G.wrap(f["ty"], inner)
                            out.append({"cls": cid, "mode": "sibling", "wire": w})
                for _ in range(2 * seeds):
                    w = G.obj(cid, rng, present={f["name"]}, extras="sibling")
                    out.append({"cls": cid, "mode": "sibling", "wire": w})
            # directed: every declared member with a `str` position carries strings whose ends a tolerant
            # validator would alter (whitespace, newline, tab, NBSP, U+2028), empty, look-alikes, non-BMP
            k = 0
            for f in S[cid]["fields"]:
                if cid in ("Root",) and f["name"] == "uri":
                    edge = ["file:///trail ", "file:///nl\n", "file://\u00a0"]
                else:
                    edge = schema_gen.EDGE_STRS
                for r in range(2 if budget == "quick" else len(edge)):
                    sval = edge[(k + r * 7) % len(edge)]
                    v = G.with_str(f["ty"], sval)
                    if v is None:
                        break
                    w = G.obj(cid, rng, present={f["name"]}, extras="none")
                    if cid == "JSONRPCMessage" and G.wire(f) not in w:
                        continue
                    w[G.wire(f)] = v
                    out.append({"cls": cid, "mode": "edge-str", "wire": w})
                k += 1
            # directed: the falsy value and the type twins of every declared member's leaf kind (0, 0.0, "",
            # false, [], {} where the declared type admits them; 7 / 7.0 for numbers, "7" / "true" for
            # strings), and empty containers
            for f in S[cid]["fields"]:
                if cid in ("JSONRPCError", "JSONRPCMessage") and f["name"] == "error":
                    continue
                if cid == "Root" and f["name"] == "uri":
                    continue
                cons = f.get("constraints") or {}
                for leaf, mode, pool in [(lk, "falsy", schema_gen.FALSY[lk]) for lk in schema_gen.FALSY] + \
                                        [(lk, "twin", schema_gen.TWINS[lk]) for lk in schema_gen.TWINS] + [("empty", "falsy", [None])]:
                    for val in pool:
                        if leaf in ("float", "int") and cons and not (cons.get("ge", val) <= val <= cons.get("le", val)):
                            continue
                        if leaf == "any" and val is None and f["ty"]["k"] in ("any", "opt"):
                            continue  # null only INSIDE free-form payloads
                        v = G.with_str(f["ty"], val, leaf)
                        if v is None and not (leaf == "empty" and f["ty"]["k"] in ("list", "dict")):
                            break
                        if leaf == "any" and name_is_result(cid, f) and not isinstance(v, dict):
                            continue
                        w = G.obj(cid, rng, present={f["name"]}, extras="none")
                        if cid == "JSONRPCMessage" and G.wire(f) not in w:
                            continue
                        w[G.wire(f)] = v
                        out.append({"cls": cid, "mode": mode, "wire": w})
            # directed: large and deep values (long lists, wide objects, deep nesting in free-form payloads)
            if budget != "quick" or cid in ("ToolResult@protocol.types.tools", "JSONRPCRequest", "CompletionResult", "Tool@protocol.messages.tools.tool"):
                for f in S[cid]["fields"]:
                    if cid == "CompletionResult" and f["name"] == "values":
                        continue
                    tk = f["ty"]["t"] if f["ty"]["k"] == "opt" else f["ty"]
                    big = None
                    if tk["k"] == "list":
                        item = lambda: G.value(tk["t"], rng, 3, {})  # noqa: E731
                        big = [item() for _ in range(300)]
                    elif tk["k"] == "dict" and tk["t"]["k"] == "any":
                        deep = {"leaf": [1, "x", None]}
                        for i in range(40):
                            deep = {"d%d" % i: deep, "l": [deep] if i % 7 == 0 else []}
                        big = {"wide%d" % i: i for i in range(300)}
                        big["deep"] = deep
                        if f["name"] == "error":  # a JSON-RPC error object keeps its code and message
                            big.update({"code": -32000, "message": "big"})
                    elif tk["k"] == "str" and not (cid == "Root" and f["name"] == "uri"):
                        big = "S" * 100_000
                    if big is not None:
                        w = G.obj(cid, rng, present={f["name"]}, extras="none")
                        if cid == "JSONRPCMessage" and G.wire(f) not in w:
                            continue
                        w[G.wire(f)] = big
                        out.append({"cls": cid, "mode": "size", "wire": w})
            # directed: constants harvested from the SOURCE of the class's module (dict keys/values,
            # comparison operands, Literal arguments, defaults) with spelling variants, at every open
            # string position — a hook that rewrites particular values is only hit by those values
            M = schema_h.magic().get(cid, {"strs": [], "imported": [], "ints": []})
            imported = M["imported"] if budget != "quick" else rng.sample(M["imported"], min(12, len(M["imported"])))
            for f in S[cid]["fields"]:
                if G.with_str(f["ty"], "x") is not None:
                    for sval in M["strs"] + imported:
                        if cid == "Root" and f["name"] == "uri":
                            sval = "file://" + sval
                        w = G.obj(cid, rng, present={f["name"]}, extras="none")
                        if cid == "JSONRPCMessage" and G.wire(f) not in w:
                            continue
                        w[G.wire(f)] = G.with_str(f["ty"], sval)
                        out.append({"cls": cid, "mode": "magic", "wire": w})
                if G.with_str(f["ty"], 0, "int") is not None and not (f.get("constraints") or {}):
                    for ival in M["ints"]:
                        w = G.obj(cid, rng, present={f["name"]}, extras="none")
                        if cid == "JSONRPCMessage" and G.wire(f) not in w:
                            continue
                        if cid in ("JSONRPCError", "JSONRPCMessage") and f["name"] == "error":
                            continue
                        w[G.wire(f)] = G.with_str(f["ty"], ival, "int")
                        out.append({"cls": cid, "mode": "magic", "wire": w})
            # aliased members populated; the attribute name of an aliased member as a member name
            for f in G.aliased(cid):
                for _ in range(2 * seeds):
                    out.append({"cls": cid, "mode": "alias", "wire": G.obj(cid, rng, present={f["name"]}, extras="random")})
                if self.attr_name_cases:
                    base = G.obj(cid, rng, present={f["name"]}, extras="none")
                    v2 = G.field_value(cid, f, rng, 1, "none")
                    a = dict(base)
                    a[f["name"]] = v2
                    out.append({"cls": cid, "mode": "attr-both", "wire": a})
                    out.append({"cls": cid, "mode": "attr-both", "wire": dict([(f["name"], v2)] + list(base.items()))})
                    b = {k: v for k, v in base.items() if k != f["alias"]}
                    b[f["name"]] = v2
                    out.append({"cls": cid, "mode": "attr-only", "wire": b})
        # classes that share their name with another class, once more in the opposite class order
        # (whatever a backend remembers per class NAME depends on which of them it met first)
        names = {}
        for cid in protocol_classes(S):
            names.setdefault(S[cid]["name"], []).append(cid)
        for nm, ids in sorted(names.items(), reverse=True):
            if len(ids) > 1:
                for cid in reversed(ids):
                    rng = ctx.sub_rng(self.name, "reorder", cid)
                    for _ in range(3):
                        out.append({"cls": cid, "mode": "reorder", "wire": G.obj(cid, rng, extras="random")})
        if budget == "quick":
            # the other wire forms / reuse observations (7 more dumps, 2 more validations per backend):
            # every directed case, every third of the bulk modes in the quick tier, all in thorough
            n = 0
            for c in out:
                if c["mode"] in ("random", "none", "magic"):
                    n += 1
                    if n % 3:
                        c["forms"] = False
        return out

    attr_name_cases = True

    def impl_batch(self, cases):
        return schema_h.both("validate", [{"cls": c["cls"], "wire": c["wire"], "forms": c.get("forms", True)} for c in cases])

    def model_line(self, case):
        if attr_name_members(case) == "both":
            # An alias member together with a member named like its Python attribute: which of the
            # two the attribute ends up holding is an accident of dict assignment order in the pinned
            # code (and both are kept after fixes/C09-attr-name-member-kept.diff); the input is
            # outside `conforms`, so the model is not consulted — the oracle compares the backends.
            return None
        return {"m": "schema", "op": "validate", "cls": case["cls"], "j": schema_h.enc(case["wire"])}

    def model_obs(self, out, case):
        if "driver_error" in out:
            return {"driver_error": out["driver_error"]}
        m = {"ok": out["ok"], "conforms": out.get("conforms"), "unamb": out.get("unamb")}
        if out["ok"]:
            m["tree"] = out["tree"]
            m["dump"] = schema_h.dec(out["dump"])
            m["expected"] = schema_h.dec(out["expected"])
        return m

    def compare(self, case, o, m):
        if "driver_error" in m:
            return "driver: " + str(m["driver_error"])
        sides = ["fallback"] + (["pydantic"] if self.compare_pydantic else [])
        for side in sides:
            r = o[side]
            if bool(r.get("ok")) != bool(m["ok"]):
                return f"accept/reject differs from the {side} backend"
            if m["ok"]:
                if self.compare_tree and r.get("tree") != m["tree"]:
                    return f"variant tree differs from the {side} backend"
                if not schema_h.same(r.get("dump"), m["dump"]):
                    return f"dump differs from the {side} backend"
        if m["ok"] and m.get("conforms") and m.get("unamb") and not schema_h.same(m["dump"], m["expected"]):
            return "model: dump of a conforming input is not the specified value"
        if case.get("mode") not in ("attr-both", "attr-only") and not (m.get("conforms") and m.get("unamb")):
            return "generated valid input lies outside the theorem's domain (conforms/unamb false)"
        return None

    def kind(self, case, o):
        return f"{self.name}/{case.get('mode')}/" + ("accepted" if o["fallback"].get("ok") and o["pydantic"].get("ok") else
                                                      "rejected" if not o["fallback"].get("ok") and not o["pydantic"].get("ok") else "split")

    def nontrivial(self, case, o):
        return bool(o["pydantic"].get("ok") or o["fallback"].get("ok"))

    def shrink_candidates(self, case):
        w = case["wire"]
        S = schema_h.schema()
        c = S.get(case["cls"])
        req = set()
        if c:
            G = gen()
            req = {G.wire(f) for f in c["fields"] if G.on_wire_required(case["cls"], f)}
        for x in shrink_json(w, keep=req):
            if py_conforms(S, {"k": "ref", "cls": case["cls"]}, x):
                yield {**case, "wire": x}


def shrink_json(v, keep=frozenset(), depth=0):
    """smaller variants of a JSON value: drop members / items, simplify leaves (top-level `keep` members stay)"""
    if isinstance(v, dict):
        for k in list(v):
            if k in keep:
                continue
            yield {kk: x for kk, x in v.items() if kk != k}
        for k, x in v.items():
            for y in shrink_json(x, frozenset(), depth + 1):
                yield {**v, k: y}
    elif isinstance(v, list):
        for i in range(len(v)):
            yield v[:i] + v[i + 1:]
        for i, x in enumerate(v):
            for y in shrink_json(x, frozenset(), depth + 1):
                yield v[:i] + [y] + v[i + 1:]
    elif isinstance(v, str) and len(v) > 1 and depth > 0:
        yield v[:1]


def deep(v):
    return copy.deepcopy(v)


class FreshOrder(Suite):
    """Sequences of validations, each sequence in its own freshly started pair of worker processes:
    same-named classes in both orders, and seeded shuffles of all protocol classes.  What a backend
    carries from one call to the next must not change what a later call returns."""

    name = "fresh-order"
    uses_model = False

    def cases(self, ctx, budget):
        S = schema_h.schema()
        G = gen()
        out = []
        names = {}
        for cid in protocol_classes(S):
            names.setdefault(S[cid]["name"], []).append(cid)
        groups = [ids for _, ids in sorted(names.items()) if len(ids) > 1]

        def objs(cid, rng, n):
            full = {f["name"] for f in G.optional_fields(cid)}
            res = [{"cls": cid, "wire": G.obj(cid, rng, present=full, extras="none")}]
            for _ in range(n - 1):
                res.append({"cls": cid, "wire": G.obj(cid, rng, extras="random")})
            return res

        def users(ids):
            """classes whose fields refer to one of `ids` (a container exercises the nested class)"""
            res = []
            for cid in protocol_classes(S):
                if cid not in ids and any(("\"cls\": \"%s\"" % i) in __import__("json").dumps(S[cid]["fields"]) for i in ids):
                    res.append(cid)
            return res

        for ids in groups:
            for order in (ids, list(reversed(ids))):
                rng = ctx.sub_rng(self.name, *order)
                steps = []
                for cid in order:
                    steps += objs(cid, rng, 3)
                    for u in users([cid]):
                        steps += objs(u, rng, 2)
                out.append({"steps": steps, "order": [S[c]["module"].split(".")[-2] + "." + S[c]["name"] for c in order]})
        for k in range(2 if budget == "quick" else 8):
            rng = ctx.sub_rng(self.name, "shuffle", k)
            ids = protocol_classes(S)
            rng.shuffle(ids)
            steps = []
            for cid in ids:
                steps += objs(cid, rng, 1)
            out.append({"steps": steps, "order": ["shuffle-%d" % k]})
        return out

    def impl_batch(self, cases):
        res = schema_h.fresh_both("validate", [[{"cls": st["cls"], "wire": st["wire"]} for st in c["steps"]] for c in cases])
        return [{"steps": r} for r in res]

    def step_oracle(self, step, o):  # overridden per property
        return None

    def oracle(self, case, o):
        for i, (st, so) in enumerate(zip(case["steps"], o["steps"])):
            r = self.step_oracle(st, so)
            if r is not None:
                key, what, exp = r
                return (key, f"step {i + 1} of {len(case['steps'])} in a fresh process ({', '.join(case['order'])}): {what}", exp)
        return None

    def kind(self, case, o):
        return "fresh-order/" + "+".join(case["order"])

    def shrink_candidates(self, case):
        st = case["steps"]
        for i in range(len(st) - 1, -1, -1):
            if len(st) > 1:
                yield {**case, "steps": st[:i] + st[i + 1:]}


class Constructors(Suite):
    """the library's own constructors (every module-level `create_*` helper of the protocol modules
    and every `create_*` classmethod of a model class, discovered by introspection) called with
    type-directed arguments — Python values and model INSTANCES, not wire dicts: the instance
    pass-through, list-of-instances and default-argument branches of both backends"""

    name = "constructors"
    uses_model = True
    _gen = None

    def generated(self):
        """(module, name) of the helpers Gen/Builders.lean carries, and the parse_* dispatch tables"""
        if Constructors._gen is None:
            from . import core, translate_schema

            views = translate_schema.load_views()
            src = core.REPO / "src" / "chuk_mcp"
            built, _ = translate_schema.find_builders(src, views["fallback"]["classes"])
            parsers = translate_schema.find_parse_tables(src, views["fallback"]["classes"])
            Constructors._gen = ({(b["module"], b["qual"]) for b in built}, {(p["module"], p["qual"]) for p in parsers})
        return Constructors._gen

    @staticmethod
    def wire_args(v):
        if isinstance(v, dict):
            if "$model" in v:
                return v["wire"]
            if "$tuple" in v:
                return [Constructors.wire_args(x) for x in v["$tuple"]]
            return {k: Constructors.wire_args(x) for k, x in v.items()}
        if isinstance(v, list):
            return [Constructors.wire_args(x) for x in v]
        return v

    def model_line(self, case):
        built, parsers = self.generated()
        key = (case["module"], case["qual"])
        if case.get("returns"):
            wire = next(iter(case["kwargs"].values()))
            if key in parsers:
                return {"m": "schema", "op": "parseBy", "name": case["qual"], "j": schema_h.enc(wire)}
            return {"m": "schema", "op": "validate", "cls": case["returns"], "j": schema_h.enc(wire)}
        if key in built:
            return {"m": "schema", "op": "build", "module": case["module"], "name": case["qual"],
                    "j": schema_h.enc(self.wire_args(case["kwargs"]))}
        return None

    def model_obs(self, out, case):
        if "driver_error" in out or out.get("untranslated"):
            return {"skip": out.get("driver_error") or "untranslated"}
        m = {"ok": out["ok"]}
        if out["ok"]:
            m["dump"] = schema_h.dec(out["dump"])
            m["tree"] = out["tree"]
        return m

    def compare(self, case, o, m):
        if "skip" in m:
            return None if m["skip"] == "untranslated" else "driver: " + str(m["skip"])
        for side in ("fallback", "pydantic"):
            r = o[side]
            if bool(r.get("ok")) != bool(m["ok"]):
                return f"helper result accepted/raised differs from the {side} backend"
            if m["ok"]:
                if not schema_h.same(r.get("dump"), m["dump"]):
                    return f"helper result dumps differently from the {side} backend"
                if "tree" in r and r.get("tree") != m["tree"]:
                    return f"helper result is typed differently from the {side} backend"
        return None

    def ctors(self):
        from . import translate_schema

        return translate_schema.load_views()["fallback"].get("constructors", [])

    def arg(self, G, t, rng, depth=0, pname=""):
        k = t["k"]
        if k == "ref":
            return {"$model": t["cls"], "wire": G.obj(t["cls"], rng, depth=depth + 1, extras=rng.choice(["none", "random"]))}
        if k == "opt":
            return self.arg(G, t["t"], rng, depth, pname)
        if k == "list":
            items = [self.arg(G, t["t"], rng, depth + 1, pname) for _ in range(rng.randrange(0, 3))]
            # a tuple where a list is declared (both backends accept sequences from Python callers)
            return {"$tuple": items} if depth == 0 and rng.random() < 0.25 else items
        if k == "union":
            return self.arg(G, rng.choice(t["ts"]), rng, depth, pname)
        if k == "dict" and t["t"]["k"] != "any":
            return {kk: self.arg(G, t["t"], rng, depth + 1, pname) for kk in rng.sample(schema_gen.ANY_KEYS, rng.randrange(0, 3))}
        if k == "str" and pname == "uri" :
            return "file://" + rng.choice(["/a", "/tmp/x y", "/", ""])
        if k == "float" and "priority" in pname:
            return rng.choice([0, 0.0, 1, 1.0, 0.5, 0.25])
        return G.value(t, rng, depth, {})

    def cases(self, ctx, budget):
        G = gen()
        out = []
        n = 12 if budget == "quick" else 120
        for c in self.ctors():
            rng = ctx.sub_rng(self.name, c["module"], c["qual"])
            if c["qual"] == "create_root":
                pass
            for i in range(n):
                if c.get("returns"):
                    # a parse_* helper: a spec-valid wire object of (one member of) its return type
                    r = c["returns"]
                    m = rng.choice(r["ts"]) if r["k"] == "union" else r
                    out.append({"module": c["module"], "qual": c["qual"], "returns": m["cls"],
                                "kwargs": {c["params"][0]["name"]: G.obj(m["cls"], rng, extras=rng.choice(["none", "random", "sibling"]))}})
                    continue
                kwargs = {}
                for p in c["params"]:
                    # defaults: first call with required arguments only, then every optional one now and then
                    if p["optional"] and (i == 0 or rng.random() < 0.4):
                        continue
                    kwargs[p["name"]] = self.arg(G, p["ty"], rng, 0, p["name"])
                out.append({"module": c["module"], "qual": c["qual"], "kwargs": kwargs})
        return out

    def impl_batch(self, cases):
        return schema_h.both("construct", cases)

    def kind(self, case, o):
        ok = o["pydantic"].get("ok"), o["fallback"].get("ok")
        return f"constructors/{case['qual']}/" + ("built" if all(ok) else "raised" if not any(ok) else "split")

    def nontrivial(self, case, o):
        return bool(o["pydantic"].get("ok") and o["fallback"].get("ok"))

    def shrink_candidates(self, case):
        kw = case["kwargs"]
        for k in list(kw):
            yield {**case, "kwargs": {kk: v for kk, v in kw.items() if kk != k}}
        for k, v in kw.items():
            for y in shrink_json(v, frozenset(("$model", "wire")), 1):
                yield {**case, "kwargs": {**kw, k: y}}
