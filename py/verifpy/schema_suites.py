"""Suites shared by C09 (backends agree) and C10 (lossless views, wire names): case generation,
three-way execution (Pydantic worker, fallback worker, Lean model), schema-directed oracles."""
from __future__ import annotations

import copy

from . import core, schema_gen, schema_h
from .runner import Suite

HOOK_KEY = "hook-enforced-by-one-backend:"


def gen() -> schema_gen.Gen:
    S = schema_h.schema()
    g = _GEN.get(id(S))
    if g is None:
        _GEN.clear()
        g = _GEN[id(S)] = schema_gen.Gen(S, schema_h.schema_pyd())
    return g


def name_is_result(cid, f) -> bool:
    """members the generator keeps object-shaped (an MCP result is an object)"""
    return f["name"] == "result" and cid in ("JSONRPCResponse", "JSONRPCMessage")


def protocol_classes(S) -> list[str]:
    return [cid for cid, c in S.items() if c["protocol"]]


# --------------------------------------------------------------------------------- diffing
def first_diff(a, b, path="$"):
    """first position where two JSON values differ (numbers by value, bool/number/string never identified)"""
    if isinstance(a, dict) and isinstance(b, dict):
        for k in sorted(set(a) | set(b)):
            if k not in a or k not in b:
                return (f"{path}.{k}", a.get(k, "<absent>"), b.get(k, "<absent>"))
            d = first_diff(a[k], b[k], f"{path}.{k}")
            if d:
                return d
        return None
    if isinstance(a, list) and isinstance(b, list):
        if len(a) != len(b):
            return (path, f"<{len(a)} items>", f"<{len(b)} items>")
        for i, (x, y) in enumerate(zip(a, b)):
            d = first_diff(x, y, f"{path}[{i}]")
            if d:
                return d
        return None
    return None if schema_h.strict_eq(a, b) else (path, a, b)


def digit_string_vs_int(a, b) -> bool:
    for x, y in ((a, b), (b, a)):
        if isinstance(x, str) and isinstance(y, int) and not isinstance(y, bool):
            try:
                return int(x) == y
            except ValueError:
                return False
    return False


import collections

INFO_FORM_DIFFS: collections.Counter = collections.Counter()


def attr_name_members(case):
    """does the input carry a member named like the Python ATTRIBUTE of an aliased field of its class?
    -> None | "both" (the alias member is present too) | "only" """
    S = schema_h.schema()
    c = S.get(case.get("cls"))
    w = case.get("wire")
    if c is None or not isinstance(w, dict):
        return None
    res = None
    for f in c["fields"]:
        if f["alias"] and f["alias"] != f["name"] and f["name"] in w:
            res = "both" if f["alias"] in w else (res or "only")
    return res


def agree(case, o):
    """C09 oracle on one input: same accept/reject, same variant tree, same re-serialised JSON value"""
    p, f = o["pydantic"], o["fallback"]
    tag = "alias-and-attribute-name-members" if attr_name_members(case) == "both" else None
    if p.get("ok") != f.get("ok"):
        who = "pydantic" if p.get("ok") else "fallback"
        return (tag or "accepted-by-one-backend",
                f"{case.get('cls', 'message')}: accepted only by the {who} backend", {"accepted_by": "both"})
    if not p.get("ok"):
        return None
    if "dump_error" in p or "dump_error" in f:
        if p.get("dump_error") != f.get("dump_error"):
            return (tag or "dump-raises-under-one-backend", "model_dump raises under one backend only", None)
        return None
    if p.get("type") != f.get("type") or p.get("tree") != f.get("tree") or p.get("kind") != f.get("kind"):
        return (tag or "union-variant-differs",
                f"typed as {p.get('tree') or p.get('type')} under pydantic, {f.get('tree') or f.get('type')} under the fallback",
                {"tree": p.get("tree"), "kind": p.get("kind")})
    d = first_diff(p.get("dump"), f.get("dump"))
    if d:
        key = tag or ("digit-string-becomes-int" if digit_string_vs_int(d[1], d[2]) else "dump-differs")
        return (key, f"re-serialised value differs at {d[0]}: {d[1]!r} under pydantic, {d[2]!r} under the fallback",
                {"dump": p.get("dump")})
    # the other forms in which the library itself serialises (argument combinations of its dump
    # sites, the JSON text of the stdio writer), a repeated dump, a repeated validation of the same dict
    pv, fv = dict(p.get("variants") or {}), dict(f.get("variants") or {})
    for k in ("second", "from_instance", "fresh_after_instances_edited", "input_intact", "reuse_error", "value_subclasses", "enum_members",
              "shared_subobjects", "tree_of_the_same"):
        pv[k], fv[k] = p.get(k), f.get(k)
    for k in sorted(pv):
        d = first_diff(pv.get(k), fv.get(k))
        if d and k.startswith("info_"):
            INFO_FORM_DIFFS[k] += 1  # argument combinations the library never uses: counted, not judged
            continue
        if d:
            return (tag or f"serialised-form-differs:{k}",
                    f"{case.get('cls', 'message')}: form '{k}' differs at {d[0]}: {d[1]!r} under pydantic, {d[2]!r} under the fallback",
                    {k: pv.get(k)})
    return None


# --------------------------------------------------------------------------------- lossless oracle
def _wire(f):
    return f["alias"] or f["name"]


def _default_json(tv):
    """declared default (tval form of the introspection) as the JSON it dumps to (by_alias, exclude_none)"""
    if tv is None:
        return None
    if "j" in tv:
        return tv["j"]
    if "l" in tv:
        return [_default_json(x) for x in tv["l"]]
    if "d" in tv:
        return {k: _default_json(x) for k, x in tv["d"]}
    S = schema_h.schema()
    c = S.get(tv["m"])
    al = {f["name"]: _wire(f) for f in c["fields"]} if c else {}
    return {al.get(k, k): _default_json(x) for k, x in tv["f"] if _default_json(x) is not None}


def lossless(S, t, wire, out, path="$"):
    """C10 oracle, schema-directed: every member of the input is preserved exactly; at a typed
    object a member that was not in the input must be a declared default.
    -> None | (key, what)"""
    k = t["k"]
    if k == "opt":
        return lossless(S, t["t"], wire, out, path)
    if k == "union":
        errs = []
        for m in t["ts"]:
            if _conforms_shallow(S, m, wire):
                r = lossless(S, m, wire, out, path)
                if r is None:
                    return None
                errs.append(r)
        if errs:
            return errs[0]
        return None if schema_h.strict_eq(wire, out) else ("member-changed", f"{path}: {wire!r} became {out!r}")
    if k == "list" and isinstance(wire, list):
        if not isinstance(out, list) or len(out) != len(wire):
            return ("member-changed", f"{path}: list of {len(wire)} became {out!r}"[:300])
        for i, (x, y) in enumerate(zip(wire, out)):
            r = lossless(S, t["t"], x, y, f"{path}[{i}]")
            if r:
                return r
        return None
    if k == "dict" and isinstance(wire, dict):
        if not isinstance(out, dict) or set(out) != set(wire):
            return ("member-lost", f"{path}: members {sorted(set(wire) ^ set(out if isinstance(out, dict) else []))} differ")
        for kk in wire:
            r = lossless(S, t["t"], wire[kk], out[kk], f"{path}.{kk}")
            if r:
                return r
        return None
    if k == "ref" and isinstance(wire, dict):
        c = S[t["cls"]]
        if not isinstance(out, dict):
            return ("member-changed", f"{path}: object became {out!r}"[:300])
        by_wire = {_wire(f): f for f in c["fields"]}
        for kk, v in wire.items():
            if kk not in out:
                f = next((f for f in c["fields"] if f["name"] == kk and f["alias"] and f["alias"] != kk), None)
                if f is not None and f["alias"] in out and f["alias"] not in wire:
                    return ("attribute-name-member-renamed",
                            f"{path}: unknown member {kk!r} of a {c['name']} left as {f['alias']!r}")
                return ("member-lost", f"{path}: member {kk!r} of a {c['name']} is not in the output")
            if kk in by_wire:
                r = lossless(S, by_wire[kk]["ty"], v, out[kk], f"{path}.{kk}")
            else:
                r = None if schema_h.strict_eq(v, out[kk]) else (
                    "member-changed", f"{path}.{kk}: unknown member {v!r} became {out[kk]!r}"[:300])
            if r:
                return r
        for kk, v in out.items():
            if kk in wire:
                continue
            f = by_wire.get(kk)
            if f is None or f["default_kind"] == "absent" or not schema_h.strict_eq(_default_json(f["default"]), v):
                return ("added-member-not-a-default", f"{path}: member {kk!r}={v!r} of a {c['name']} was added and is not its declared default"[:300])
        return None
    return None if schema_h.strict_eq(wire, out) else ("member-changed", f"{path}: {wire!r} became {out!r}"[:300])


def _conforms_shallow(S, t, v):
    k = t["k"]
    if k == "ref":
        if not isinstance(v, dict):
            return False
        c = S[t["cls"]]
        for f in c["fields"]:
            w = _wire(f)
            if f["ty"]["k"] == "lit":
                if v.get(w) not in f["ty"]["vals"]:
                    return False
            elif f["required"] and w not in v:
                return False
        return True
    if k == "str":
        return isinstance(v, str)
    if k == "int":
        return isinstance(v, int) and not isinstance(v, bool)
    if k == "float":
        return isinstance(v, (int, float)) and not isinstance(v, bool)
    if k == "bool":
        return isinstance(v, bool)
    if k == "lit":
        return v in t["vals"]
    if k == "list":
        return isinstance(v, list)
    if k == "dict":
        return isinstance(v, dict)
    return True


def py_conforms(S, t, v, cons=None, top=True) -> bool:
    """the generator's validity rules as a checker (used to keep shrinking inside spec-valid inputs)"""
    k = t["k"]
    if k in ("any", "unknown"):
        return not (top and v is None)
    if k == "opt":
        return v is not None and py_conforms(S, t["t"], v, cons, top)
    if k == "union":
        return any(py_conforms(S, m, v, cons, top) for m in t["ts"])
    if k == "str":
        return isinstance(v, str)
    if k == "int":
        return isinstance(v, int) and not isinstance(v, bool)
    if k == "bool":
        return isinstance(v, bool)
    if k == "float":
        if isinstance(v, bool) or not isinstance(v, (int, float)):
            return False
        c = cons or {}
        return (c.get("ge") is None or v >= c["ge"]) and (c.get("le") is None or v <= c["le"])
    if k == "lit":
        return isinstance(v, str) and v in t["vals"]
    if k == "list":
        return isinstance(v, list) and all(py_conforms(S, t["t"], x, cons, False) for x in v)
    if k == "dict":
        return isinstance(v, dict) and all(py_conforms(S, t["t"], x, None, False) for x in v.values())
    if k == "ref":
        if not isinstance(v, dict):
            return False
        c = S[t["cls"]]
        G = gen()
        for f in c["fields"]:
            w = _wire(f)
            if w in v:
                if v[w] is None or not py_conforms(S, f["ty"], v[w], f.get("constraints"), True):
                    return False
            elif G.on_wire_required(t["cls"], f):
                return False
        if any(x is None for x in v.values()):
            return False
        cid = t["cls"]
        if cid == "Root" and not str(v.get("uri", "")).startswith("file://"):
            return False
        if cid == "CompletionResult" and len(v.get("values", [])) > 100:
            return False
        if cid in ("JSONRPCError", "JSONRPCMessage") and "error" in v:
            e = v["error"]
            if not (isinstance(e.get("code"), int) and not isinstance(e.get("code"), bool) and isinstance(e.get("message"), str)):
                return False
        if cid == "JSONRPCMessage":
            if "method" not in v and not (("result" in v) != ("error" in v) and "id" in v):
                return False
            if "method" in v and ("result" in v or "error" in v):
                return False
        return True
    return False


_GEN = {}


# --------------------------------------------------------------------------------- model cases
class ModelCases(Suite):
    """type-directed valid wire objects for every discovered protocol class, executed under both
    backends and on the Lean model"""

    name = "models"
    compare_pydantic = True
    compare_tree = True  # the type(...).__name__ tree is C09's observable, not C10's

    def cases(self, ctx, budget):
        S = schema_h.schema()
        G = gen()
        out = []
        seeds = 3 if budget == "quick" else 40
        for cid in protocol_classes(S):
            rng = ctx.sub_rng(self.name, cid)
            # every optional-field subset (small models) / seeded subsets (large), extras varied
            for present in G.subsets(cid, rng, budget):
                for s in range(seeds):
                    mode = ["none", "random", "random"][(s + len(present)) % 3]
                    out.append({"cls": cid, "mode": mode, "wire": G.obj(cid, rng, present=present, extras=mode)})
            for _ in range(4 * seeds):
                out.append({"cls": cid, "mode": "random", "wire": G.obj(cid, rng, extras="random")})
            # directed: a union member carrying a member that a sibling variant requires
            for f, members in G.union_paths(cid):
                for m in members:
                    for nm in sorted(G.siblings.get(m, ())):
                        for val in ("caption", {"k": 1}) + (() if m in G.untagged else (5,)):
                            inner = G.obj(m, rng, present=set(), extras="none")
                            inner[nm] = val
                            w = G.obj(cid, rng, present=set(), extras="none")
                            w[G.wire(f)] = G.wrap(f["ty"], inner)
                            out.append({"cls": cid, "mode": "sibling", "wire": w})
                for _ in range(2 * seeds):
                    w = G.obj(cid, rng, present={f["name"]}, extras="sibling")
                    out.append({"cls": cid, "mode": "sibling", "wire": w})
            # directed: every declared member with a `str` position carries strings whose ends a tolerant
            # validator would alter (whitespace, newline, tab, NBSP, U+2028), empty, look-alikes, non-BMP
            k = 0
            for f in S[cid]["fields"]:
                if cid in ("Root",) and f["name"] == "uri":
                    edge = ["file:///trail ", "file:///nl\n", "file://\u00a0"]
                else:
                    edge = schema_gen.EDGE_STRS
                for r in range(2 if budget == "quick" else len(edge)):
                    sval = edge[(k + r * 7) % len(edge)]
                    v = G.with_str(f["ty"], sval)
                    if v is None:
                        break
                    w = G.obj(cid, rng, present={f["name"]}, extras="none")
                    if cid == "JSONRPCMessage" and G.wire(f) not in w:
                        continue
                    w[G.wire(f)] = v
                    out.append({"cls": cid, "mode": "edge-str", "wire": w})
                k += 1
            # directed: the falsy value and the type twins of every declared member's leaf kind (0, 0.0, "",
            # false, [], {} where the declared type admits them; 7 / 7.0 for numbers, "7" / "true" for
            # strings), and empty containers
            for f in S[cid]["fields"]:
                if cid in ("JSONRPCError", "JSONRPCMessage") and f["name"] == "error":
                    continue
                if cid == "Root" and f["name"] == "uri":
                    continue
                cons = f.get("constraints") or {}
                for leaf, mode, pool in [(lk, "falsy", schema_gen.FALSY[lk]) for lk in schema_gen.FALSY] + \
                                        [(lk, "twin", schema_gen.TWINS[lk]) for lk in schema_gen.TWINS] + [("empty", "falsy", [None])]:
                    for val in pool:
                        if leaf in ("float", "int") and cons and not (cons.get("ge", val) <= val <= cons.get("le", val)):
                            continue
                        if leaf == "any" and val is None and f["ty"]["k"] in ("any", "opt"):
                            continue  # null only INSIDE free-form payloads
                        v = G.with_str(f["ty"], val, leaf)
                        if v is None and not (leaf == "empty" and f["ty"]["k"] in ("list", "dict")):
                            break
                        if leaf == "any" and name_is_result(cid, f) and not isinstance(v, dict):
                            continue
                        w = G.obj(cid, rng, present={f["name"]}, extras="none")
                        if cid == "JSONRPCMessage" and G.wire(f) not in w:
                            continue
                        w[G.wire(f)] = v
                        out.append({"cls": cid, "mode": mode, "wire": w})
            # directed: large and deep values (long lists, wide objects, deep nesting in free-form payloads)
            if budget != "quick" or cid in ("ToolResult@protocol.types.tools", "JSONRPCRequest", "CompletionResult", "Tool@protocol.messages.tools.tool"):
                for f in S[cid]["fields"]:
                    if cid == "CompletionResult" and f["name"] == "values":
                        continue
                    tk = f["ty"]["t"] if f["ty"]["k"] == "opt" else f["ty"]
                    big = None
                    if tk["k"] == "list":
                        item = lambda: G.value(tk["t"], rng, 3, {})  # noqa: E731
                        big = [item() for _ in range(300)]
                    elif tk["k"] == "dict" and tk["t"]["k"] == "any":
                        deep = {"leaf": [1, "x", None]}
                        for i in range(40):
                            deep = {"d%d" % i: deep, "l": [deep] if i % 7 == 0 else []}
                        big = {"wide%d" % i: i for i in range(300)}
                        big["deep"] = deep
                        if f["name"] == "error":  # a JSON-RPC error object keeps its code and message
                            big.update({"code": -32000, "message": "big"})
                    elif tk["k"] == "str" and not (cid == "Root" and f["name"] == "uri"):
                        big = "S" * 100_000
                    if big is not None:
                        w = G.obj(cid, rng, present={f["name"]}, extras="none")
                        if cid == "JSONRPCMessage" and G.wire(f) not in w:
                            continue
                        w[G.wire(f)] = big
                        out.append({"cls": cid, "mode": "size", "wire": w})
            # directed: constants harvested from the SOURCE of the class's module (dict keys/values,
            # comparison operands, Literal arguments, defaults) with spelling variants, at every open
            # string position — a hook that rewrites particular values is only hit by those values
            M = schema_h.magic().get(cid, {"strs": [], "imported": [], "ints": []})
            imported = M["imported"] if budget != "quick" else rng.sample(M["imported"], min(12, len(M["imported"])))
            for f in S[cid]["fields"]:
                if G.with_str(f["ty"], "x") is not None:
                    for sval in M["strs"] + imported:
                        if cid == "Root" and f["name"] == "uri":
                            sval = "file://" + sval
                        w = G.obj(cid, rng, present={f["name"]}, extras="none")
                        if cid == "JSONRPCMessage" and G.wire(f) not in w:
                            continue
                        w[G.wire(f)] = G.with_str(f["ty"], sval)
                        out.append({"cls": cid, "mode": "magic", "wire": w})
                if G.with_str(f["ty"], 0, "int") is not None and not (f.get("constraints") or {}):
                    for ival in M["ints"]:
                        w = G.obj(cid, rng, present={f["name"]}, extras="none")
                        if cid == "JSONRPCMessage" and G.wire(f) not in w:
                            continue
                        if cid in ("JSONRPCError", "JSONRPCMessage") and f["name"] == "error":
                            continue
                        w[G.wire(f)] = G.with_str(f["ty"], ival, "int")
                        out.append({"cls": cid, "mode": "magic", "wire": w})
            # members whose declared type the translator does not know: every plausible wire form, directed
            for f in S[cid]["fields"]:
                if '"unknown"' in core.canon(f["ty"]):
                    for sval in schema_gen.WIRE_SCALARS + [7, 0.5, True, {"a": 1}, ["x"]]:
                        v = G.with_str(f["ty"], sval, "any")
                        if v is None:
                            break
                        w = G.obj(cid, rng, present={f["name"]}, extras="none")
                        w[G.wire(f)] = v
                        out.append({"cls": cid, "mode": "untranslated-member", "wire": w})
            # LIMITS: every integer literal of the class's module (with its neighbours N-1, N, N+1) as the
            # length of every list / string / free-form object member and as the value of every number
            # member (the latter through the magic ints above) — spec-valid ones only: what a documented
            # invariant forbids (101 completion values) is the hooks suite's business
            t_self = {"k": "ref", "cls": cid}
            for f in S[cid]["fields"]:
                tk = f["ty"]["t"] if f["ty"]["k"] == "opt" else f["ty"]
                for n_ in M["ints"]:
                    if not (2 <= n_ <= 1100):
                        continue
                    if tk["k"] == "list":
                        if tk["t"]["k"] == "ref":
                            item = G.obj(tk["t"]["cls"], rng, present=set(), extras="none")
                            val = [item] * n_
                        else:
                            one = G.value(tk["t"], rng, 3, {})
                            val = [one if i % 2 else G.value(tk["t"], rng, 3, {}) for i in range(n_)]
                    elif tk["k"] == "str":
                        val = "s" * n_
                    elif tk["k"] == "dict" and tk["t"]["k"] == "any":
                        val = {"k%d" % i: i for i in range(n_)}
                    else:
                        continue
                    if cid == "Root" and f["name"] == "uri":
                        val = "file://" + val
                    w = G.obj(cid, rng, present={f["name"]}, extras="none")
                    if cid == "JSONRPCMessage" and G.wire(f) not in w:
                        continue
                    if cid in ("JSONRPCError", "JSONRPCMessage") and f["name"] == "error":
                        continue
                    w[G.wire(f)] = val
                    if py_conforms(S, t_self, w):
                        out.append({"cls": cid, "mode": "limit", "wire": w})
            # aliased models nested under alias-free parents: every optional member present at every level,
            # so that each aliased member reachable from the class is on the wire at least thrice
            if not G.aliased(cid) and self.reaches_alias(S, cid):
                G.force_all = True
                try:
                    for _ in range(3):
                        out.append({"cls": cid, "mode": "nested-alias", "wire": G.obj(cid, rng, extras="none")})
                finally:
                    G.force_all = False
            # aliased members populated; the attribute name of an aliased member as a member name
            for f in G.aliased(cid):
                for _ in range(2 * seeds):
                    out.append({"cls": cid, "mode": "alias", "wire": G.obj(cid, rng, present={f["name"]}, extras="random")})
                if self.attr_name_cases:
                    base = G.obj(cid, rng, present={f["name"]}, extras="none")
                    v2 = G.field_value(cid, f, rng, 1, "none")
                    a = dict(base)
                    a[f["name"]] = v2
                    out.append({"cls": cid, "mode": "attr-both", "wire": a})
                    out.append({"cls": cid, "mode": "attr-both", "wire": dict([(f["name"], v2)] + list(base.items()))})
                    b = {k: v for k, v in base.items() if k != f["alias"]}
                    b[f["name"]] = v2
                    out.append({"cls": cid, "mode": "attr-only", "wire": b})
        # classes that share their name with another class, once more in the opposite class order
        # (whatever a backend remembers per class NAME depends on which of them it met first)
        names = {}
        for cid in protocol_classes(S):
            names.setdefault(S[cid]["name"], []).append(cid)
        for nm, ids in sorted(names.items(), reverse=True):
            if len(ids) > 1:
                for cid in reversed(ids):
                    rng = ctx.sub_rng(self.name, "reorder", cid)
                    for _ in range(3):
                        out.append({"cls": cid, "mode": "reorder", "wire": G.obj(cid, rng, extras="random")})
        if budget == "quick":
            # the other wire forms / reuse observations (7 more dumps, 2 more validations per backend):
            # every directed case, every sixth of the bulk modes in the quick tier, all in thorough
            n = 0
            for c in out:
                if c["mode"] in ("random", "none", "magic"):
                    n += 1
                    if n % 8:
                        c["forms"] = False
        return out

    attr_name_cases = True

    @staticmethod
    def reaches_alias(S, cid, seen=None):
        seen = seen or set()
        if cid in seen or cid not in S:
            return False
        seen.add(cid)
        import json as _json
        import re as _re
        for f in S[cid]["fields"]:
            for r in _re.findall(r'"cls": "([^"]+)"', _json.dumps(f["ty"])):
                if any(g["alias"] and g["alias"] != g["name"] for g in S.get(r, {"fields": []})["fields"]) or ModelCases.reaches_alias(S, r, seen):
                    return True
        return False

    def impl_batch(self, cases):
        return schema_h.both("validate", [{"cls": c["cls"], "wire": c["wire"], "forms": c.get("forms", True)} for c in cases])

    def model_line(self, case):
        if attr_name_members(case) == "both":
            # An alias member together with a member named like its Python attribute: which of the
            # two the attribute ends up holding is an accident of dict assignment order in the pinned
            # code (and both are kept after fixes/C09-attr-name-member-kept.diff); the input is
            # outside `conforms`, so the model is not consulted — the oracle compares the backends.
            return None
        return {"m": "schema", "op": "validate", "cls": case["cls"], "j": schema_h.enc(case["wire"])}

    def model_obs(self, out, case):
        if "driver_error" in out:
            return {"driver_error": out["driver_error"]}
        m = {"ok": out["ok"], "conforms": out.get("conforms"), "unamb": out.get("unamb")}
        if out["ok"]:
            m["tree"] = out["tree"]
            m["dump"] = schema_h.dec(out["dump"])
            m["expected"] = schema_h.dec(out["expected"])
        return m

    def compare(self, case, o, m):
        if "driver_error" in m:
            return "driver: " + str(m["driver_error"])
        sides = ["fallback"] + (["pydantic"] if self.compare_pydantic else [])
        for side in sides:
            r = o[side]
            if bool(r.get("ok")) != bool(m["ok"]):
                return f"accept/reject differs from the {side} backend"
            if m["ok"]:
                if self.compare_tree and r.get("tree") != m["tree"]:
                    return f"variant tree differs from the {side} backend"
                if not schema_h.same(r.get("dump"), m["dump"]):
                    return f"dump differs from the {side} backend"
        if m["ok"] and m.get("conforms") and m.get("unamb") and not schema_h.same(m["dump"], m["expected"]):
            return "model: dump of a conforming input is not the specified value"
        if case.get("mode") not in ("attr-both", "attr-only") and not (m.get("conforms") and m.get("unamb")):
            return "generated valid input lies outside the theorem's domain (conforms/unamb false)"
        return None

    def kind(self, case, o):
        return f"{self.name}/{case.get('mode')}/" + ("accepted" if o["fallback"].get("ok") and o["pydantic"].get("ok") else
                                                      "rejected" if not o["fallback"].get("ok") and not o["pydantic"].get("ok") else "split")

    def nontrivial(self, case, o):
        return bool(o["pydantic"].get("ok") or o["fallback"].get("ok"))

    def shrink_candidates(self, case):
        w = case["wire"]
        S = schema_h.schema()
        c = S.get(case["cls"])
        req = set()
        if c:
            G = gen()
            req = {G.wire(f) for f in c["fields"] if G.on_wire_required(case["cls"], f)}
        for x in shrink_json(w, keep=req):
            if py_conforms(S, {"k": "ref", "cls": case["cls"]}, x):
                yield {**case, "wire": x}


def shrink_json(v, keep=frozenset(), depth=0):
    """smaller variants of a JSON value: drop members / items, simplify leaves (top-level `keep` members stay)"""
    if isinstance(v, dict):
        for k in list(v):
            if k in keep:
                continue
            yield {kk: x for kk, x in v.items() if kk != k}
        for k, x in v.items():
            for y in shrink_json(x, frozenset(), depth + 1):
                yield {**v, k: y}
    elif isinstance(v, list):
        for i in range(len(v)):
            yield v[:i] + v[i + 1:]
        for i, x in enumerate(v):
            for y in shrink_json(x, frozenset(), depth + 1):
                yield v[:i] + [y] + v[i + 1:]
    elif isinstance(v, str) and len(v) > 1 and depth > 0:
        yield v[:1]


def deep(v):
    return copy.deepcopy(v)


class FreshOrder(Suite):
    """Sequences of operations, each sequence in its own freshly started pair of worker processes:
    * same-named classes in both orders, seeded shuffles of all protocol classes;
    * `host-aliases`: a host module that defines typing aliases named like the model classes is
      imported first; `probe-classes`: host models named like the library's, with the same attribute
      names but other types and aliases, are defined and used first — and once more in between;
    * `lazy-import`: nothing of the package is imported up front, each class's module is imported when
      first needed, in a shuffled order;
    * `failures`: the same invalid object two, three, four times, then a valid one, then again;
    * `env-skip-validation`: the library's own `SKIP_JSONRPC_VALIDATION` option, crossed with valid
      and malformed envelopes.
    What a backend carries from one call to the next, and what else lives in the process, must not
    change what a later call returns."""

    name = "fresh-order"
    uses_model = False

    def cases(self, ctx, budget):
        S = schema_h.schema()
        G = gen()
        out = []
        names = {}
        for cid in protocol_classes(S):
            names.setdefault(S[cid]["name"], []).append(cid)
        groups = [ids for _, ids in sorted(names.items()) if len(ids) > 1]

        def step(cid, wire, valid=True):
            # sequences are about state and order: the plain observation (accept, tree, dump), not the other forms
            return {"op": "validate", "cls": cid, "wire": wire, "valid": valid, "forms": False,
                    "where": [S[cid]["module"], S[cid]["name"]]}

        def objs(cid, rng, n):
            full = {f["name"] for f in G.optional_fields(cid)}
            res = [step(cid, G.obj(cid, rng, present=full, extras="none"))]
            for _ in range(n - 1):
                res.append(step(cid, G.obj(cid, rng, extras="random")))
            return res

        def users(ids):
            """classes whose fields refer to one of `ids` (a container exercises the nested class)"""
            import json as _json

            res = []
            for cid in protocol_classes(S):
                if cid not in ids and any(('"cls": "%s"' % i) in _json.dumps(S[cid]["fields"]) for i in ids):
                    res.append(cid)
            return res

        def all_classes(rng, shuffle=True, n=1):
            ids = protocol_classes(S)
            if shuffle:
                rng.shuffle(ids)
            steps = []
            for cid in ids:
                steps += objs(cid, rng, n)
            return steps

        for ids in groups:
            for order in (ids, list(reversed(ids))):
                rng = ctx.sub_rng(self.name, *order)
                steps = []
                for cid in order:
                    steps += objs(cid, rng, 3)
                    for u in users([cid]):
                        steps += objs(u, rng, 2)
                out.append({"seq": "order", "steps": steps, "order": [S[c]["module"].split(".")[-2] + "." + S[c]["name"] for c in order]})
        for k in range(2 if budget == "quick" else 8):
            rng = ctx.sub_rng(self.name, "shuffle", k)
            out.append({"seq": "order", "steps": all_classes(rng), "order": ["shuffle-%d" % k]})
        # a host module with typing aliases named like the model classes
        rng = ctx.sub_rng(self.name, "host-aliases")
        cls_names = sorted({S[c]["name"] for c in protocol_classes(S)})
        out.append({"seq": "host-aliases", "order": ["host-aliases"],
                    "steps": [{"op": "setup", "kind": "host-aliases", "names": cls_names}] + all_classes(rng)})
        # host models named like the library's, same attribute names: before, and again in between
        rng = ctx.sub_rng(self.name, "probe-classes")
        probe = {"op": "setup", "kind": "probe-classes",
                 "classes": [{"name": S[c]["name"], "fields": [f["name"] for f in S[c]["fields"]]} for c in protocol_classes(S)]}
        out.append({"seq": "probe-classes", "order": ["probe-classes"], "steps": [probe] + all_classes(rng) + [probe] + all_classes(rng)})
        out.append({"seq": "probe-classes", "order": ["probe-classes-after"], "steps": all_classes(rng) + [probe] + all_classes(rng)})
        # import order: modules imported on demand
        for k in range(2 if budget == "quick" else 6):
            rng = ctx.sub_rng(self.name, "lazy", k)
            out.append({"seq": "lazy-import", "order": ["lazy-import-%d" % k], "lazy": True, "steps": all_classes(rng)})
        # the same failure repeated, then success, then the failure again
        rng = ctx.sub_rng(self.name, "failures")
        steps = []
        some = [c for c in protocol_classes(S) if any(G.on_wire_required(c, f) and not G.is_tag(f) for f in S[c]["fields"])]
        for cid in (some if budget != "quick" else rng.sample(some, min(16, len(some)))):
            good = G.obj(cid, rng, extras="random")
            req = [G.wire(f) for f in S[cid]["fields"] if G.on_wire_required(cid, f) and not G.is_tag(f)]
            missing = {k2: v for k2, v in good.items() if k2 != req[0]}
            wrong = {**good, req[0]: {"not": ["the", "declared", "type"]}} if S[cid]["fields"][0]["ty"]["k"] != "any" else missing
            for bad in (missing, wrong):
                for reps in (2, 3):
                    steps += [step(cid, bad, valid=False)] * reps + [step(cid, good)]
                steps += [step(cid, bad, valid=False), step(cid, good), step(cid, good)]
        out.append({"seq": "failures", "order": ["failures"], "steps": steps})
        # dump histories: in a fresh process every class that has or reaches an aliased member is dumped
        # FIRST in one mode (rotating over the modes), then in two others, then at the wire-name sites
        modes = ["plain", "exclude_none", "names_json", "wire", "wire_all", "wire_json", "mcp", "site"]
        hist_classes = [c for c in protocol_classes(S) if G.aliased(c) or ModelCases.reaches_alias(S, c)]
        for k in range(len(modes) if budget != "quick" else 5):
            rng = ctx.sub_rng(self.name, "history", k)
            steps = []
            G.force_all = True
            try:
                for i, cid in enumerate(hist_classes):
                    first = modes[(k + i) % len(modes)]
                    rest = [m for m in modes if m != first]
                    rng.shuffle(rest)
                    steps.append({"op": "history", "cls": cid, "wire": G.obj(cid, rng, extras="none"), "valid": True,
                                  "modes": [first] + rest[:2] + ["site", "wire", "wire_json"],
                                  "where": [S[cid]["module"], S[cid]["name"]]})
            finally:
                G.force_all = False
            out.append({"seq": "dump-history", "order": ["dump-history-%d" % k], "steps": steps})
        # the library's own option SKIP_JSONRPC_VALIDATION, crossed with valid and malformed envelopes
        rng = ctx.sub_rng(self.name, "env")
        envs = []
        for idv in (1, "1", 0, "", "a"):
            envs += [{"jsonrpc": "2.0", "id": idv, "method": "m"}, {"jsonrpc": "2.0", "id": idv, "result": {}},
                     {"jsonrpc": "2.0", "id": idv, "error": {"code": 1, "message": "m"}},
                     {"jsonrpc": "2.0", "id": idv}, {"jsonrpc": "2.0", "id": idv, "result": {}, "error": {"code": 1, "message": "m"}}]
        envs += [{"jsonrpc": "2.0", "method": "n"}, {"jsonrpc": "2.0"}, {}]
        for val in ("true", "TRUE", "false", "1"):
            out.append({"seq": "env-skip-validation", "order": ["SKIP_JSONRPC_VALIDATION=" + val],
                        "steps": [{"op": "setup", "kind": "env", "set": {"SKIP_JSONRPC_VALIDATION": val}}]
                        + [{"op": "parse", "wire": w, "valid": False} for w in envs]
                        + [step("JSONRPCMessage", w, valid=False) for w in envs if w]})
        return out

    def impl_batch(self, cases):
        res = schema_h.fresh_both("step", [c["steps"] for c in cases],
                                  [({"VERIF_LAZY": "1"} if c.get("lazy") else None) for c in cases])
        return [{"steps": r} for r in res]

    def step_oracle(self, step, o):  # overridden per property
        return None

    def oracle(self, case, o):
        seq = case.get("seq", "order")
        for i, (st, so) in enumerate(zip(case["steps"], o["steps"])):
            if st["op"] == "setup":
                continue
            r = None
            if st["op"] == "history":
                r = self.history_oracle(st, so)
            elif st["op"] == "validate" and st.get("valid", True):
                r = self.step_oracle(st, so)
            elif self.judge_agreement:
                # invalid objects / envelopes under an option: the property does not say what must happen,
                # only (C09) that with or without Pydantic the library does the same — accept/reject apart,
                # which the property ties to VALID traffic only
                p, f = so["pydantic"], so["fallback"]
                if p.get("ok") and f.get("ok"):
                    r = agree({"cls": st.get("cls", "message")}, so)
            if r is not None:
                key, what, exp = r
                if seq != "order":
                    key = f"{seq}:{key.split(':')[0]}"
                return (key, f"step {i + 1} of {len(case['steps'])} in a fresh process ({', '.join(case['order'])}): {what}", exp)
        return None

    judge_agreement = False

    def history_oracle(self, step, o):  # overridden per property
        return None

    def kind(self, case, o):
        return "fresh-order/" + "+".join(case["order"])

    def shrink_candidates(self, case):
        # every candidate costs a fresh pair of processes: halve first, single steps only when short
        st = case["steps"]
        setups = [x for x in st if x["op"] == "setup"]
        rest = [x for x in st if x["op"] != "setup"]
        n = len(rest)
        if n > 1:
            yield {**case, "steps": setups + rest[-1:]}
            yield {**case, "steps": setups + rest[n // 2:]}
            yield {**case, "steps": setups + rest[: n // 2]}
        if 1 < n <= 6:
            for i in range(n - 1, -1, -1):
                yield {**case, "steps": setups + rest[:i] + rest[i + 1:]}
        if setups and n >= 1:
            yield {**case, "steps": rest}


class Constructors(Suite):
    """the library's own constructors (every module-level `create_*` helper of the protocol modules
    and every `create_*` classmethod of a model class, discovered by introspection) called with
    type-directed arguments — Python values and model INSTANCES, not wire dicts: the instance
    pass-through, list-of-instances and default-argument branches of both backends"""

    name = "constructors"
    uses_model = True
    supplementary = True  # the model side is Gen/Builders (regenerated helpers): a difference is INFO, the oracle is core
    _gen = None

    def generated(self):
        """(module, name) of the helpers Gen/Builders.lean carries, and the parse_* dispatch tables"""
        if Constructors._gen is None:
            from . import core, translate_schema

            views = translate_schema.load_views()
            src = core.REPO / "src" / "chuk_mcp"
            built, _ = translate_schema.find_builders(src, views["fallback"]["classes"])
            parsers = translate_schema.find_parse_tables(src, views["fallback"]["classes"])
            Constructors._gen = ({(b["module"], b["qual"]) for b in built}, {(p["module"], p["qual"]) for p in parsers})
        return Constructors._gen

    @staticmethod
    def wire_args(v):
        if isinstance(v, dict):
            if "$model" in v:
                return v["wire"]
            if "$tuple" in v:
                return [Constructors.wire_args(x) for x in v["$tuple"]]
            if "$sub" in v:
                return v["value"]
            return {k: Constructors.wire_args(x) for k, x in v.items()}
        if isinstance(v, list):
            return [Constructors.wire_args(x) for x in v]
        return v

    def model_line(self, case):
        built, parsers = self.generated()
        key = (case["module"], case["qual"])
        if case.get("returns"):
            wire = next(iter(case["kwargs"].values()))
            if key in parsers:
                return {"m": "schema", "op": "parseBy", "name": case["qual"], "j": schema_h.enc(wire)}
            return {"m": "schema", "op": "validate", "cls": case["returns"], "j": schema_h.enc(wire)}
        if key in built:
            return {"m": "schema", "op": "build", "module": case["module"], "name": case["qual"],
                    "j": schema_h.enc(self.wire_args(case["kwargs"]))}
        return None

    def model_obs(self, out, case):
        if "driver_error" in out or out.get("untranslated"):
            return {"skip": out.get("driver_error") or "untranslated"}
        m = {"ok": out["ok"]}
        if out["ok"]:
            m["dump"] = schema_h.dec(out["dump"])
            m["tree"] = out["tree"]
        return m

    def compare(self, case, o, m):
        if "skip" in m:
            return None if m["skip"] == "untranslated" else "driver: " + str(m["skip"])
        for side in ("fallback", "pydantic"):
            r = o[side]
            if bool(r.get("ok")) != bool(m["ok"]):
                return f"helper result accepted/raised differs from the {side} backend"
            if m["ok"]:
                if not schema_h.same(r.get("dump"), m["dump"]):
                    return f"helper result dumps differently from the {side} backend"
                if "tree" in r and r.get("tree") != m["tree"]:
                    return f"helper result is typed differently from the {side} backend"
        return None

    def ctors(self):
        from . import translate_schema

        return translate_schema.load_views()["fallback"].get("constructors", [])

    def arg(self, G, t, rng, depth=0, pname=""):
        k = t["k"]
        if k == "ref":
            return {"$model": t["cls"], "wire": G.obj(t["cls"], rng, depth=depth + 1, extras=rng.choice(["none", "random"]))}
        if k == "opt":
            return self.arg(G, t["t"], rng, depth, pname)
        if k == "list":
            items = [self.arg(G, t["t"], rng, depth + 1, pname) for _ in range(rng.randrange(0, 3))]
            # a tuple where a list is declared (both backends accept sequences from Python callers)
            return {"$tuple": items} if depth == 0 and rng.random() < 0.25 else items
        if k == "union":
            return self.arg(G, rng.choice(t["ts"]), rng, depth, pname)
        if k == "dict" and t["t"]["k"] != "any":
            return {kk: self.arg(G, t["t"], rng, depth + 1, pname) for kk in rng.sample(schema_gen.ANY_KEYS, rng.randrange(0, 3))}
        if k == "str" and pname == "uri" :
            return "file://" + rng.choice(["/a", "/tmp/x y", "/", ""])
        if k in ("str", "int") and depth == 0 and rng.random() < 0.3:
            # a caller's str / int SUBCLASS instance or StrEnum / IntEnum member (marker types for ids, names)
            v = G.value(t, rng, depth, {})
            return {"$sub": rng.choice(["class", "enum"]), "value": v}
        if k == "float" and "priority" in pname:
            return rng.choice([0, 0.0, 1, 1.0, 0.5, 0.25])
        return G.value(t, rng, depth, {})

    def cases(self, ctx, budget):
        G = gen()
        out = []
        n = 12 if budget == "quick" else 120
        for c in self.ctors():
            rng = ctx.sub_rng(self.name, c["module"], c["qual"])
            if c["qual"] == "create_root":
                pass
            for i in range(n):
                if c.get("returns"):
                    # a parse_* helper: a spec-valid wire object of (one member of) its return type
                    r = c["returns"]
                    m = rng.choice(r["ts"]) if r["k"] == "union" else r
                    out.append({"module": c["module"], "qual": c["qual"], "returns": m["cls"],
                                "kwargs": {c["params"][0]["name"]: G.obj(m["cls"], rng, extras=rng.choice(["none", "random", "sibling"]))}})
                    continue
                kwargs = {}
                for p in c["params"]:
                    # defaults: first call with required arguments only, then every optional one now and then
                    if p["optional"] and (i == 0 or rng.random() < 0.4):
                        continue
                    kwargs[p["name"]] = self.arg(G, p["ty"], rng, 0, p["name"])
                out.append({"module": c["module"], "qual": c["qual"], "kwargs": kwargs})
                if i % 3 == 0 and '"$model"' in core.canon(kwargs):
                    # the same call with SHARED sub-objects: every list argument carries its first item twice
                    # (one instance referenced from two places), equal model arguments are one instance
                    kw2 = {k: (v + v[:1] if isinstance(v, list) and v else v) for k, v in kwargs.items()}
                    out.append({"module": c["module"], "qual": c["qual"], "kwargs": kw2, "share": True})
                    out.append({"module": c["module"], "qual": c["qual"], "kwargs": kw2})
            # directed: every parameter that admits a string / an int given as a SUBCLASS instance and as an
            # enum member whose value looks like the other type ("12" for a str, 1 for an int)
            if not c.get("returns"):
                for p in c["params"]:
                    for leaf, val in (("str", "12"), ("int", 1)):
                        if G.with_str(p["ty"], val, leaf) is None or p["name"] == "uri":
                            continue
                        for how in ("class", "enum"):
                            kwargs = {q["name"]: self.arg(G, q["ty"], rng, 1, q["name"]) for q in c["params"] if not q["optional"]}
                            kwargs[p["name"]] = G.with_str(p["ty"], {"$sub": how, "value": val}, leaf)
                            out.append({"module": c["module"], "qual": c["qual"], "kwargs": kwargs})
        return out

    def impl_batch(self, cases):
        return schema_h.both("construct", cases)

    def kind(self, case, o):
        ok = o["pydantic"].get("ok"), o["fallback"].get("ok")
        return f"constructors/{case['qual']}/" + ("built" if all(ok) else "raised" if not any(ok) else "split")

    def nontrivial(self, case, o):
        return bool(o["pydantic"].get("ok") and o["fallback"].get("ok"))

    def shrink_candidates(self, case):
        kw = case["kwargs"]
        for k in list(kw):
            yield {**case, "kwargs": {kk: v for kk, v in kw.items() if kk != k}}
        for k, v in kw.items():
            for y in shrink_json(v, frozenset(("$model", "wire")), 1):
                yield {**case, "kwargs": {**kw, k: y}}


EXC_CLASSES = ["TypeError", "ValueError", "KeyError", "IndexError", "AttributeError", "RuntimeError", "RecursionError", "OSError",
               "Exception", "ZeroDivisionError", "UnicodeError", "StopIteration", "AssertionError", "NotImplementedError", "BadStr"]


SUPP_FLOWS = ("file-root", "complete-path", "elicit-example", "alias-strategies")


class HelperFlows(Suite):
    """the remaining helper functions of types/content.py, types/tools.py, types/elicitation.py driven
    end to end under both backends: content predicates / content_to_dict / parse_content on dicts and
    instances, validate_tool_result / tool_result_to_dict / parse_tool_result, ToolRegistry.call_tool
    with every kind of handler outcome (twice on one registry), ElicitationClient / ElicitationHandler
    with every kind of reply, create_embedded_resource with bytes.  Where the helper builds a model
    through a generated builder the Lean evaluation of that builder predicts the emitted object."""

    name = "helper-flows"
    supp_notes: list = []
    supplementary = True  # model side: the generated builder call_tool uses; the oracle is core

    def cases(self, ctx, budget):
        S = schema_h.schema()
        G = gen()
        rng = ctx.sub_rng(self.name)
        n = 6 if budget == "quick" else 60
        out = []
        magic = sorted({v for m in schema_h.magic().values() for v in m["strs"][:40]})
        for cid in ("TextContent", "ImageContent", "AudioContent", "EmbeddedResource"):
            if cid in S:
                for _ in range(n):
                    out.append({"flow": "content-kind", "cls": cid, "wire": G.obj(cid, rng, extras=rng.choice(["none", "random", "sibling"])),
                                "bad_tag": rng.choice(magic + ["", "TEXT", "Text", " text"])})
        tr = "ToolResult@protocol.types.tools"
        if tr in S:
            for w in ({}, {"content": []}, {"structuredContent": []}, {"content": [], "structuredContent": []}, {"isError": False}):
                out.append({"flow": "tool-result", "cls": tr, "wire": w})
            for _ in range(2 * n):
                out.append({"flow": "tool-result", "cls": tr, "wire": G.obj(tr, rng, extras=rng.choice(["none", "random"]))})
            rets = [("unknown", None)]
            rets += [("result", G.obj(tr, rng, extras="none")) for _ in range(n)] + [("result", {})]
            rets += [("dict", schema_gen.any_object(rng)) for _ in range(n)] + [("dict", {}), ("dict", {"result": None}), ("dict", {"schema": 1, "schema_": 2})]
            rets += [("str", sv) for sv in rng.sample(schema_gen.STRS, min(n, len(schema_gen.STRS)))] + [("str", "")]
            rets += [("other", ov) for ov in (0, 1, 7.5, True, False, None, [], [1, "a"], [None])]
            rets += [("raise", sv) for sv in rng.sample(schema_gen.STRS, min(n, len(schema_gen.STRS)))] + [("raise", ""), ("raise", "%s {0}")]
            for k, v in rets:
                out.append({"flow": "registry", "ret": {"kind": k, "value": v}})
            # every builtin exception class a handler may raise, and one whose str() raises
            for ec in EXC_CLASSES:
                out.append({"flow": "registry", "ret": {"kind": "raise", "value": rng.choice(["boom", "", "%s", "'k'"]), "exc": ec}})
        if "ElicitationParams" in S:
            from .props.c09 import ID_SHAPES
            for i in range(2 * n):
                msg = {"jsonrpc": "2.0", "method": "elicitation/create", "id": ID_SHAPES[i % len(ID_SHAPES)]}
                if i % 5:
                    msg["params"] = G.obj("ElicitationParams", rng, extras=rng.choice(["none", "random"]))
                    if i % 7 == 0:
                        msg["params"] = {k: v for k, v in msg["params"].items() if k != "schema"}
                c = {"flow": "elicit-client", "message": msg}
                if i % 3 == 0:
                    c["raise"] = rng.choice(schema_gen.STRS)
                    c["exc"] = EXC_CLASSES[i % len(EXC_CLASSES)]
                else:
                    c["data"] = rng.choice([{}, schema_gen.any_object(rng), {"confirmed": False}, {"": ""}])
                out.append(c)
            replies = [
                {"id": "$same", "result": {"data": {}}}, {"id": "$same", "result": {"data": {"a": None}, "cancelled": False}},
                {"id": "$same", "result": {"data": {"x": 0}, "cancelled": True, "extra": ""}},
                {"id": "$same", "result": {}}, {"id": "$same", "result": {"cancelled": True}},
                {"id": "$same", "error": {"code": -1, "message": "no %s"}}, {"id": "$same", "error": {"code": 0}},
                {"id": "$same", "error": {}, "result": {"data": {}}}, {"id": "$same"}, {"id": "someone-else", "result": {"data": {}}},
                {"result": {"data": {}}}, {"id": "", "result": {"data": {}}}, {"id": 0, "result": {"data": {}}},
            ]
            for r in replies:
                out.append({"flow": "elicit-route", "cls": "ElicitationParams", "wire": G.obj("ElicitationParams", rng, extras="random"), "reply": r})
            out.append({"flow": "elicit-route", "cls": "ElicitationParams", "wire": G.obj("ElicitationParams", rng, extras="none"),
                        "reply": {"id": "$same", "result": {"data": {"k": 1}}}, "timeout": 0})
        for q in ["", "one", "a b c d e", "%s {0}\n", "x" * 500]:
            out.append({"flow": "example-tool", "arguments": {"query": q}})
        out.append({"flow": "example-tool", "arguments": {}})
        if "Root" in S:
            # helpers that keep models in containers (and may compare them): add, re-add the same value, the
            # same OBJECT, a rename under the same uri, remove, clear — on two managers with equal uris
            for i in range(max(2, n // 2)):
                a = G.obj("Root", rng, present={"name"}, extras="none")
                b = {**a, "name": a.get("name", "") + " renamed"}
                c = G.obj("Root", rng, present=set(), extras="random")
                ops = [{"op": "add", "root": a}, {"op": "add", "root": a}, {"op": "add-same-object"}, {"op": "add", "root": b},
                       {"op": "add", "root": a, "mgr": 1}, {"op": "list", "id": i}, {"op": "add", "root": c}, {"op": "add", "root": b, "mgr": 1},
                       {"op": "remove", "uri": a["uri"]}, {"op": "remove", "uri": a["uri"]}, {"op": "list", "id": "7", "mgr": 1},
                       {"op": "add", "root": a}, {"op": "clear"}, {"op": "clear"}, {"op": "list"}]
                out.append({"flow": "roots-manager", "ops": ops})
        if "CompletionResult" in S:
            bounds = sorted({0, 1, 99, 100, 101, 250} | {m_ for m_ in schema_h.magic().get("CompletionResult", {}).get("ints", []) if 0 <= m_ <= 1200})
            for n_ in bounds:
                out.append({"flow": "completion-provider", "n": n_, "argument": {"name": "a", "value": rng.choice(["", "v", "%s"])},
                            "refs": [{"type": "ref/resource", "uri": "file:///x"}, {"type": "ref/prompt", "name": "p"},
                                     {"type": "ref/prompt", "name": "unknown"}, {"type": "other"}]})
        # path helpers of the roots module: path -> file:// root -> path (and the os.name == "nt" branches)
        for pth in ["/tmp/a", "/tmp/x y/ü.txt", "rel/file", ".", "/", "/tmp/%41", "/tmp/a#b?c", "/tmp/trail/"]:
            out.append({"flow": "file-root", "path": pth, "name": rng.choice([None, "n", ""])})
        out.append({"flow": "file-root", "path": "/tmp/a", "os_name": "nt"})
        for uri in ["file:///tmp/a", "file:///tmp/x%20y", "file://", "file:///C:/Users/x", "http://x/y", "file:///a%2Fb"]:
            out.append({"flow": "file-root", "uri": uri})
            out.append({"flow": "file-root", "uri": uri, "os_name": "nt"})
        # the filesystem completion helper in a scratch directory, the enum completion helper
        files = ["a.txt", "ab.py", "abc/", "abc/inner.txt", "b.txt", "A.TXT", "a b.md", ".hidden", "ü.txt"]
        queries = [{"current": "a", "base": "$D"}, {"current": "", "base": "$D"}, {"current": "zz", "base": "$D"},
                   {"current": "$D/a"}, {"current": "$D/abc/"}, {"current": "$D/abc/in"}, {"current": "a", "base": "$D", "extensions": [".txt"]},
                   {"current": "a", "base": "$D", "extensions": [".py", ".md"]}, {"current": "", "base": "$D", "max_results": 1},
                   {"current": "", "base": "$D", "max_results": 3}, {"current": "a", "base": "$D/does-not-exist"},
                   {"current": "a", "chdir": True}, {"current": "$D/a.txt/x"}, {"current": "", "base": "$D", "extensions": []}]
        enums = [{"current": c_, "allowed": ["Apple", "apricot", "Banana", "", "APPLE"], "case_sensitive": cs}
                 for c_ in ("", "a", "A", "ap", "b", "z", "apple") for cs in (False, True)]
        out.append({"flow": "complete-path", "files": files, "queries": queries, "enums": enums})
        # the example user-input function of elicitation.py (prints; returns mock data by field type)
        for schema in ({"type": "object", "properties": {"s": {"type": "string"}, "e": {"type": "string", "enum": ["x", "y"]},
                                                           "b": {"type": "boolean"}, "i": {"type": "integer"}, "n": {"type": "number"},
                                                           "o": {"type": "object"}, "u": {}}},
                       {"type": "object", "properties": {}}, {}, {"properties": {"only": {"type": "string"}}}):
            for title in (None, "T", ""):
                out.append({"flow": "elicit-example", "message": rng.choice(["m", "", "%s"]), "schema": schema, "title": title})
        # type aliases that really are aliases (typing.NewType objects named like an alias some module defines)
        out.append({"flow": "alias-strategies", "values": ["a", "12", "", "x y"]})
        for inner in ("ok", "raise"):
            for outer in ("wrap", "pass", "raise"):
                out.append({"flow": "registry-reentrant", "inner": inner, "outer": outer, "inner_value": rng.choice([{"v": 1}, "text", {}])})
        if "EmbeddedResource" in S:
            import base64
            for raw in (b"", b"\x00", b"\xff\xfe binary \n", bytes(range(256)), b"x" * 3000):
                out.append({"flow": "embedded-bytes", "uri": rng.choice(["file:///b", "", "u r i"]), "mime": rng.choice([None, "application/octet-stream", ""]),
                            "b64": base64.b64encode(raw).decode()})
        return out

    def impl_batch(self, cases):
        return schema_h.both("flow", cases)

    # the handler outcome -> the generated builder call_tool uses for it (types/tools.py ToolRegistry.call_tool)
    def model_line(self, case):
        if case["flow"] == "complete-path":
            return {"m": "schema", "op": "enums", "j": schema_h.enc([[e["current"], e["allowed"], bool(e.get("case_sensitive"))]
                                                                    for e in case.get("enums", [])])}
        if case["flow"] != "registry":
            return None
        k, v = case["ret"]["kind"], case["ret"]["value"]
        mod = "chuk_mcp.protocol.types.tools"
        if k == "result":
            return {"m": "schema", "op": "validate", "cls": "ToolResult@protocol.types.tools", "j": schema_h.enc(v)}
        if k == "dict":
            name, args = "create_structured_tool_result", {"data": v}
        elif k == "str":
            name, args = "create_text_tool_result", {"text": v}
        elif k == "other":
            name, args = "create_structured_tool_result", {"data": {"result": v}}
        elif k == "raise":
            ec = case["ret"].get("exc", "ValueError")
            if ec in ("BadStr", "KeyError", "StopIteration"):
                return None  # str() of these is not the message text (KeyError quotes, BadStr raises)
            if ec in ("OSError", "UnicodeError") :
                pass
            name, args = "create_error_tool_result", {"error_message": "Tool execution error: " + v,
                                                      "error_data": {"exception_type": ec, "exception_message": v}}
        else:
            name, args = "create_error_tool_result", {"error_message": "Tool 'missing' not found"}
        return {"m": "schema", "op": "build", "module": mod, "name": name, "j": schema_h.enc(args)}

    def model_obs(self, out, case):
        if "driver_error" in out or out.get("untranslated") or not out.get("ok"):
            return {"skip": out.get("driver_error") or out.get("why") or "untranslated"}
        if "enums" in out:
            return {"enums": out["enums"]}
        return {"dump": schema_h.dec(out["dump"])}

    def compare(self, case, o, m):
        if "skip" in m:
            return None if m["skip"] == "untranslated" else "model: " + str(m["skip"])
        if "enums" in m:
            for side in ("fallback", "pydantic"):
                if o[side].get("ok") and o[side].get("enums") != m["enums"]:
                    return f"complete_enum_value differs from the model ({side}): {o[side].get('enums')} vs {m['enums']}"[:300]
            return None
        for side in ("fallback", "pydantic"):
            r = o[side]
            if r.get("ok") and "propagated" not in r and not schema_h.same(r.get("emitted"), m["dump"]):
                return f"call_tool's result differs from the generated builder evaluated in the model ({side})"
        return None

    def kind(self, case, o):
        sub = case.get("ret", {}).get("kind") or case.get("cls") or ("raise" if "raise" in case else "")
        if case["flow"] == "elicit-route":
            sub = str(o["fallback"].get("outcome"))
        ok = o["pydantic"].get("ok") and o["fallback"].get("ok")
        return f"helper-flows/{case['flow']}/{sub}" + ("" if ok else "/not-executed")

    def nontrivial(self, case, o):
        return bool(o["pydantic"].get("ok") and o["fallback"].get("ok"))

    def agree_oracle(self, case, o):
        p, f = o["pydantic"], o["fallback"]
        if not (p.get("ok") and f.get("ok")):
            return None  # the recipe could not drive the helper: counted as not executed
        d = first_diff(p, f)
        if d and case["flow"] in SUPP_FLOWS:
            if len(HelperFlows.supp_notes) < 10:
                HelperFlows.supp_notes.append(f"{case['flow']}: backends differ at {d[0]}: {d[1]!r} vs {d[2]!r}"[:300])
                print(f"INFO supplementary=helper-flows/{case['flow']} (not a verdict): backends differ at {d[0]}"[:300])
            return None
        if d:
            return (f"helper-flow-differs:{case['flow']}", f"{case['flow']}: {d[0]} is {d[1]!r} under pydantic, {d[2]!r} under the fallback"[:300], None)
        return None

    def wire_oracle(self, case, o):
        S = schema_h.schema()
        fl = case["flow"]
        for side in ("pydantic", "fallback"):
            b = o[side]
            if not b.get("ok"):
                continue
            if b.get("leaks"):
                lk = b["leaks"][0]
                return (f"attribute-name-on-the-wire:{fl}", f"{fl} emits {lk['attr']!r} of a {lk['class']} instead of {lk['wire']!r} ({side})", None)
            bad = None
            if fl in ("content-kind", "tool-result"):
                t = {"k": "ref", "cls": case["cls"]}
                em = b["to_dict_instance"] if fl == "content-kind" else b["emitted"]
                r = lossless(S, t, case["wire"], em)
                if r:
                    bad = r[1]
                pv = b["parse"].get("value") if fl == "content-kind" else b["parse"]
                if bad is None and not schema_h.same(pv, em):
                    bad = "parse then dump differs from the serialised form"
            elif fl == "file-root":
                if "path" in case and not case.get("os_name"):
                    if not str(b["root"].get("uri", "")).startswith("file://"):
                        bad = "create_file_root does not produce a file:// uri"
                    elif b["back"].get("value") != b["abspath"]:
                        bad = f"parse_file_root(create_file_root(p)) is {b['back']!r}, the absolute path is {b['abspath']!r}"
                if "uri" in case and "parsed" in b and case["uri"].startswith("file://") is False and "value" in b["parsed"]:
                    bad = "parse_file_root accepts a uri that does not start with file://"
                if case.get("uri") == "file:///C:/Users/x" and case.get("os_name") == "nt" and b["parsed"].get("value") != "C:/Users/x":
                    bad = f"on Windows the leading slash of a drive path is removed; got {b['parsed']!r}"
            elif fl == "complete-path":
                import os.path as _p
                listing = {"a.txt", "ab.py", "abc", "b.txt", "A.TXT", "a b.md", ".hidden", "ü.txt"}
                for q, got in zip(case["queries"], b["results"]):
                    cur = q["current"]
                    prefix = _p.basename(cur) if cur.startswith("$D") else cur
                    if len(got) > q.get("max_results", 50):
                        bad = f"more than max_results suggestions for {q}"
                    for g in got:
                        if not _p.basename(g).startswith(prefix):
                            bad = f"suggestion {g!r} does not start with the prefix {prefix!r}"
                        if q.get("extensions") and _p.splitext(g)[1] not in q["extensions"]:
                            bad = f"suggestion {g!r} has none of the extensions {q['extensions']}"
                    if q == {"current": "a", "base": "$D"} and {_p.basename(g) for g in got} != {x for x in listing if x.startswith("a")}:
                        bad = f"suggestions for prefix 'a' are {got}"
                    if "does-not-exist" in str(q.get("base")) and got:
                        bad = "suggestions from a directory that does not exist"
                for e, got in zip(case.get("enums", []), b["enums"]):
                    cs = e.get("case_sensitive", False)
                    want = [v for v in e["allowed"] if (v if cs else v.lower()).startswith(e["current"] if cs else e["current"].lower())]
                    if got != want:
                        bad = f"complete_enum_value({e['current']!r}, case_sensitive={cs}) is {got}, the matching values are {want}"
            elif fl == "elicit-example":
                props = case["schema"].get("properties", {}) if isinstance(case["schema"], dict) else {}
                want = {}
                for k_, fs in props.items():
                    ty_ = fs.get("type", "string")
                    if ty_ == "string":
                        want[k_] = fs["enum"][0] if "enum" in fs else f"user_input_for_{k_}"
                    elif ty_ == "boolean":
                        want[k_] = True
                    elif ty_ == "integer":
                        want[k_] = 42
                    elif ty_ == "number":
                        want[k_] = 3.14
                if not schema_h.same(b["data"], want):
                    bad = f"mock data {b['data']} for {props}"
                elif b["response"].get("result") != {"data": b["data"], "cancelled": False} or b["workflow"] != "File deleted successfully":
                    bad = f"response {b['response']} / workflow {b['workflow']!r}"
                elif b.get("roundtrip") and not schema_h.same(b["roundtrip"].get("dump"), b["response"]["result"]):
                    bad = "the example response does not round-trip through ElicitationResponse"
            elif fl == "alias-strategies":
                for place, rows in b["by_place"].items():
                    for val, r_ in zip(case["values"], rows):
                        if r_.get("value") != {"v": val, "w": val}:
                            bad = f"a NewType-of-str member ({place}) given {val!r} is {r_}"
            elif fl == "completion-provider":
                for r_ in b.get("results", []):
                    if "emitted" in r_ and not schema_h.same(r_.get("roundtrip", {}).get("dump"), r_["emitted"]):
                        bad = f"a completion result does not round-trip: {str(r_.get('roundtrip'))[:100]}"
            elif fl in ("registry", "embedded-bytes", "example-tool", "registry-reentrant") and "propagated" not in b:
                rt = b.get("roundtrip", {})
                if "dump" not in rt or not schema_h.same(rt["dump"], b["emitted"]):
                    bad = f"the emitted object does not round-trip through its class: {str(rt)[:120]}"
                if fl == "embedded-bytes" and not b.get("blob_decodes"):
                    bad = "the blob does not decode to the bytes given"
            elif fl == "elicit-client" and "propagated" not in b:
                resp = b["response"]
                if b["envelope"].get("value") is None or not schema_h.same(b["envelope"]["value"], resp):
                    bad = f"the response envelope is not a lossless JSON-RPC message: {str(b['envelope'])[:120]}"
                elif "result" in resp and not schema_h.same(b.get("roundtrip", {}).get("dump"), resp["result"]):
                    bad = "the result does not round-trip through ElicitationResponse"
            elif fl == "elicit-route" and b.get("request_params") is not None:
                r = lossless(S, {"k": "ref", "cls": "ElicitationParams"}, case["wire"], b["request_params"])
                if r:
                    bad = r[1]
            if bad and fl in SUPP_FLOWS:
                # helpers next to the property (path utilities, example functions, alias lookup): their
                # docstring oracles are SUPPLEMENTARY — recorded, printed as INFO, never a verdict
                if len(HelperFlows.supp_notes) < 10:
                    HelperFlows.supp_notes.append(f"{fl} ({side}): {bad}"[:300])
                    print(f"INFO supplementary=helper-flows/{fl} (not a verdict): {bad}"[:300])
                continue
            if bad:
                return (f"helper-output-not-lossless:{fl}", f"{fl} under the {side} backend: {bad}"[:300], None)
        return None

    def shrink_candidates(self, case):
        if "wire" in case and isinstance(case["wire"], dict):
            for x in shrink_json(case["wire"], frozenset(("type", "message", "schema", "data", "mimeType", "text", "resource", "uri"))):
                yield {**case, "wire": x}


class DeepValidate(Suite):
    """`_deep_validate` (fallback) against the Lean `validate` on ARBITRARY values — the str / int /
    float / bool coercers, Literal, Optional, Union order, List / Dict of every member kind, model
    classes — including the values the property calls invalid (F-C09c).  The property says nothing
    about those, so a difference here is INFORMATIONAL: it is counted, listed in the evidence notes and
    never turned into a VIOLATION or a broken obligation by itself."""

    name = "deep-validate"
    supplementary = True
    mismatches: list = []

    VALUES = [None, True, False, 0, 1, -7, 12, 2**40, 0.5, 1.5, "", "a", "12", "-3", "007", "true", "True", "YES", "on", "0", "no",
              "off", "maybe", " 1", "\u00b2", [], [1], ["a", "b"], [1, "2", None], {}, {"a": 1}, {"type": "text", "text": "t"},
              {"type": "image", "data": "d", "mimeType": "m"}, {"uri": "file:///x"}, {"name": "n"}]

    def cases(self, ctx, budget):
        S = schema_h.schema()
        prim = [{"k": "str"}, {"k": "int"}, {"k": "float"}, {"k": "bool"}, {"k": "any"}, {"k": "lit", "vals": ["a", "12", "true"]}]
        tys = list(prim)
        for p in prim:
            tys += [{"k": "opt", "t": p}, {"k": "list", "t": p}, {"k": "dict", "kt": {"k": "str"}, "t": p}]
        tys += [{"k": "union", "ts": [a, b]} for a in prim[:4] for b in prim[:4] if a != b]
        tys += [{"k": "opt", "t": {"k": "union", "ts": [{"k": "int"}, {"k": "str"}]}},
                {"k": "union", "ts": [{"k": "lit", "vals": ["a"]}, {"k": "str"}]},
                {"k": "list", "t": {"k": "union", "ts": [{"k": "int"}, {"k": "bool"}]}}]
        seen = set()
        for c in S.values():  # every field type of every class, as declared
            for f in c["fields"]:
                key = core.canon(f["ty"])
                if c["protocol"] and key not in seen:
                    seen.add(key)
                    tys.append({**f["ty"], "_field": [c["id"], f["name"]]})
        rng = ctx.sub_rng(self.name)
        out = []
        for t in tys:
            vals = self.VALUES if budget != "quick" or t in prim else rng.sample(self.VALUES, 12)
            if "_field" in t and t["k"] == "dict" and t["t"]["k"] == "any" and t["kt"]["k"] == "any":
                # a bare `dict` annotation goes through `dict(value)`: an empty list becomes {} — the model's
                # `dict any` rejects arrays; left out (documented deviation on invalid input)
                vals = [v for v in vals if not isinstance(v, list)]
            for v in vals:
                # string -> float is modelled for ASCII integers only (documented): other numeric strings are left out
                if isinstance(v, str) and core.canon(t).find('"float"') >= 0 and v.strip() != v:
                    continue
                c = {"ty": {k: x for k, x in t.items() if k != "_field"}, "value": v}
                if "_field" in t:
                    c["field"] = t["_field"]  # validated against the annotation as the class declares it
                out.append(c)
        return out

    def impl_batch(self, cases):
        return schema_h.both("deep", cases)

    def model_line(self, case):
        return {"m": "schema", "op": "ty", "ty": case["ty"], "j": schema_h.enc(case["value"])}

    def model_obs(self, out, case):
        if "driver_error" in out:
            return {"driver_error": out["driver_error"]}
        m = {"ok": out["ok"], "conforms": out.get("conforms")}
        if out["ok"]:
            m["dump"] = schema_h.dec(out["dump"])
            m["tree"] = out["tree"]
        return m

    def compare(self, case, o, m):
        f = o["fallback"]
        if f.get("ok") is None:
            return None
        diff = None
        if "driver_error" in m:
            diff = "driver error"
        elif bool(f["ok"]) != bool(m["ok"]):
            diff = f"fallback {'accepts' if f['ok'] else 'rejects'}, model {'accepts' if m['ok'] else 'rejects'}"
        elif f["ok"] and (not schema_h.strict_eq(schema_h.canon(f["dump"]), schema_h.canon(m["dump"])) or f.get("tree") != m.get("tree")):
            diff = f"fallback gives {f['dump']!r}, model {m['dump']!r}"
        if diff and len(DeepValidate.mismatches) < 20:
            DeepValidate.mismatches.append(f"{core.canon(case['ty'])} <- {core.canon(case['value'])}: {diff}"[:300])
        return None  # informational (see the class docstring)

    def kind(self, case, o):
        f = o["fallback"]
        return f"deep-validate/{case['ty']['k']}/" + ("accepted" if f.get("ok") else "rejected")

    def nontrivial(self, case, o):
        return True


class MemberKinds(Suite):
    """Every declared member of every protocol class fed every JSON kind — null, bool, int, float, str,
    list, dict, and left out — in an otherwise valid object.  Where the result is still a spec-valid
    object the other suites judge it; where it is NOT, the property is silent (F-C09c): the constructor
    of the fallback is compared with the Lean model INFORMATIONALLY (evidence notes) and the number of
    inputs on which the two backends split is recorded."""

    name = "member-kinds"
    supplementary = True
    mismatches: list = []
    splits: collections.Counter = collections.Counter()
    KINDS = [None, True, False, 0, 7, 0.5, "", "s", "7", [], [1], ["a"], {}, {"a": 1}, "<missing>"]

    def cases(self, ctx, budget):
        S = schema_h.schema()
        G = gen()
        out = []
        for cid in protocol_classes(S):
            rng = ctx.sub_rng(self.name, cid)
            t = {"k": "ref", "cls": cid}
            for f in S[cid]["fields"]:
                base = G.obj(cid, rng, present={f["name"]}, extras="none")
                if G.wire(f) not in base:
                    continue
                for v in self.KINDS:
                    w = dict(base)
                    if v == "<missing>":
                        del w[G.wire(f)]
                    else:
                        w[G.wire(f)] = v
                    if not py_conforms(S, t, w):
                        out.append({"cls": cid, "member": G.wire(f), "wire": w, "forms": False})
        if budget == "quick":
            rng = ctx.sub_rng(self.name)
            out = rng.sample(out, min(len(out), 800))
        return out

    def impl_batch(self, cases):
        return schema_h.both("validate", [{"cls": c["cls"], "wire": c["wire"], "forms": False} for c in cases])

    def model_line(self, case):
        return {"m": "schema", "op": "validate", "cls": case["cls"], "j": schema_h.enc(case["wire"])}

    def model_obs(self, out, case):
        if "driver_error" in out:
            return {"driver_error": out["driver_error"]}
        m = {"ok": out["ok"]}
        if out["ok"]:
            m["dump"] = schema_h.dec(out["dump"])
            m["tree"] = out["tree"]
        return m

    def compare(self, case, o, m):
        p, f = o["pydantic"], o["fallback"]
        if bool(p.get("ok")) != bool(f.get("ok")):
            MemberKinds.splits["accepted by the fallback only" if f.get("ok") else "accepted by pydantic only"] += 1
        diff = None
        if "driver_error" in m:
            diff = "driver error"
        elif bool(f.get("ok")) != bool(m["ok"]):
            diff = f"fallback {'accepts' if f.get('ok') else 'rejects'}, model {'accepts' if m['ok'] else 'rejects'}"
        elif m["ok"] and (not schema_h.same(f.get("dump"), m["dump"]) or f.get("tree") != m.get("tree")):
            diff = f"fallback gives {f.get('dump')!r}, model {m['dump']!r}"
        if diff and len(MemberKinds.mismatches) < 20:
            MemberKinds.mismatches.append(f"{case['cls']}.{case['member']} <- {core.canon(case['wire'].get(case['member'], '<missing>'))}: {diff}"[:300])
        return None  # informational

    def kind(self, case, o):
        v = case["wire"].get(case["member"], "<missing>")
        return f"member-kinds/{type(v).__name__ if v != '<missing>' else 'missing'}/" + ("accepted" if o["fallback"].get("ok") else "rejected")
