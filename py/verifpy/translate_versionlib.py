"""Translator for the pure version utilities of `protocol/types/versioning.py` (+ the one-line helpers of
`initialize/send_messages.py` and the legacy wrapper of `features/batching.py`) -> `lean/Verif/Gen/VersionLib.lean`.

Regenerated from the AST on every run: `is_supported`, `compare`, `is_newer`, `is_older`, `get_latest_supported`,
`get_minimum_supported`, `get_all_supported`, `validate_version_compatibility`, `negotiate_version`; the regular expression of
`validate_format` and the shape of `parse_version` (their leaves — what `\\d` matches, `split`/`int` — are hand-modelled in
`Model/VersionLib.lean` and tied by correspondence); the table of Unicode decimal-digit zeros of the running interpreter;
the alias table of the helper functions.

These functions are SUPPLEMENTARY to the properties (C04's text does not speak about them), so a function whose source is
outside the subset is not a broken obligation: the file then carries the REFERENCE definition of that function (the translation
of the source as verified, clearly marked in `notRegenerated`), the theorems keep talking about the reference, the
correspondence run (informational) keeps comparing it with the real function, and the evidence notes name the function.
Nothing is guessed about the new source.

Supported subset:
  statements   `if c: <block>` (with or without else), `return e`, `raise …`, `for x in L: if c: return x`, `for x in (a, b): <stmts>`
               (unrolled), a call of a module-level helper whose body is in the subset (inlined), docstrings / logging
  expressions  parameters, module constants bound to `SUPPORTED_VERSIONS`, `SUPPORTED_VERSIONS[0]`, `SUPPORTED_VERSIONS[-1]`,
               `==  !=  <  >  <=  >=` on strings and ints, `in` / `not in` a list, `and  or  not`, `x if c else y`, int / bool literals,
               `L.copy()`, `bool(e)`, calls of `[ProtocolVersion.]is_supported / validate_format / compare`, `compare(a, b) OP k`
Strings are `List Char`; Python's `<` on str is `strLt` (code-point order); a function that may raise returns `Option`.
"""
from __future__ import annotations

import ast
import sys
import unicodedata
from pathlib import Path

from . import translate
from .translate import Untranslatable, _is_effect_free, _lean_str

KNOWN_PATTERN = r"^\d{4}-\d{2}-\d{2}$"
# translation of the verified source: used (and named in `notRegenerated`) when the current source is outside the subset
REFERENCE = {
    "is_supported": "(some (supportedL.contains version))",
    "compare": "(if (version1 == version2) then (some (0 : Int)) else (if (!(validateFormatGen version1)) then none else (if (!(validateFormatGen version2)) then none else (some (if (strLt version2 version1) then (1 : Int) else (-1 : Int))))))",
    "is_newer": "((compareGen version1 version2).map (fun c => decide (c > (0 : Int))))",
    "is_older": "((compareGen version1 version2).map (fun c => decide (c < (0 : Int))))",
    "get_latest_supported": "(some (supportedL.head?.getD []))",
    "get_minimum_supported": "(some (supportedL.getLast?.getD []))",
    "get_all_supported": "(some supportedL)",
    "validate_version_compatibility": "(some ((client_version == server_version) && (isSupportedGen client_version)))",
    "negotiate_version": "(match client_versions.find? (fun x_client_version => (server_versions.contains x_client_version)) with | some r => some r | none => none)",
}
STATIC = {"is_supported": ("isSupportedGen", "bool"), "validate_format": ("validateFormatGen", "bool"), "compare": ("compareGen", "optint")}


class Env:
    def __init__(self, consts):
        self.vars = {}      # python name -> (lean, type)
        self.consts = consts  # module constant name -> (lean, type)
        self.helpers = {}     # module-level helper functions that may be inlined
        self.gens = {}        # local name -> generator expression bound to it
        self.firsts = {}      # local name -> (L, x, cond, sentinel): `name = next(<first x in L with cond>, sentinel)`

    def lookup(self, name):
        if name in self.vars:
            return self.vars[name]
        if name in self.consts:
            return self.consts[name]
        raise Untranslatable(f"name {name}")


def _callee(f):
    """`ProtocolVersion.x` / `x` -> x"""
    if isinstance(f, ast.Attribute) and isinstance(f.value, ast.Name) and f.value.id == "ProtocolVersion":
        return f.attr
    if isinstance(f, ast.Name):
        return f.id
    return None


def expr(e, env):
    """-> (lean term, type) with type in str | bool | int | strlist | optint | optbool"""
    if isinstance(e, ast.Constant):
        if isinstance(e.value, bool):
            return ("true" if e.value else "false"), "bool"
        if isinstance(e.value, int):
            return f"({e.value} : Int)", "int"
        if isinstance(e.value, str):
            return f"({_lean_str(e.value)}.toList)", "str"
        raise Untranslatable(f"constant {e.value!r}")
    if isinstance(e, ast.UnaryOp) and isinstance(e.op, ast.USub) and isinstance(e.operand, ast.Constant) and isinstance(e.operand.value, int):
        return f"(-{e.operand.value} : Int)", "int"
    if isinstance(e, ast.UnaryOp) and isinstance(e.op, ast.Not):
        t, ty = expr(e.operand, env)
        if ty != "bool":
            raise Untranslatable("not of a non-boolean")
        return f"(!{t})", "bool"
    if isinstance(e, ast.Name):
        return env.lookup(e.id)
    if isinstance(e, ast.BoolOp):
        parts = [expr(v, env) for v in e.values]
        if any(ty != "bool" for _, ty in parts):
            raise Untranslatable("and/or of non-booleans")
        return "(" + (" && " if isinstance(e.op, ast.And) else " || ").join(t for t, _ in parts) + ")", "bool"
    if isinstance(e, ast.IfExp):
        c, cty = expr(e.test, env)
        a, aty = expr(e.body, env)
        b, bty = expr(e.orelse, env)
        if cty != "bool" or aty != bty:
            raise Untranslatable("conditional expression")
        return f"(if {c} then {a} else {b})", aty
    if isinstance(e, ast.Subscript) and isinstance(e.slice, (ast.Constant, ast.UnaryOp)):
        base, bty = expr(e.value, env)
        idx = ast.literal_eval(e.slice)
        if bty == "strlist" and idx == 0:
            return f"({base}.head?.getD [])", "str"
        if bty == "strlist" and idx == -1:
            return f"({base}.getLast?.getD [])", "str"
        raise Untranslatable("subscript")
    if isinstance(e, ast.Call):
        if isinstance(e.func, ast.Attribute) and e.func.attr == "copy" and not e.args:
            t, ty = expr(e.func.value, env)
            if ty == "strlist":
                return t, ty
        if isinstance(e.func, ast.Name) and e.func.id == "bool" and len(e.args) == 1:
            t, ty = expr(e.args[0], env)
            if ty == "bool":
                return t, ty
        name = _callee(e.func)
        if name in STATIC and not e.keywords:
            lean, rty = STATIC[name]
            args = [expr(a, env) for a in e.args]
            if any(ty != "str" for _, ty in args) or len(args) != (2 if name == "compare" else 1):
                raise Untranslatable(f"call of {name}")
            return "(" + lean + " " + " ".join(t for t, _ in args) + ")", rty
        raise Untranslatable("call " + ast.dump(e.func)[:60])
    if isinstance(e, ast.Compare) and len(e.ops) == 1:
        l, lty = expr(e.left, env)
        r, rty = expr(e.comparators[0], env)
        op = e.ops[0]
        if isinstance(op, (ast.In, ast.NotIn)):
            if lty != "str" or rty != "strlist":
                raise Untranslatable("membership")
            t = f"({r}.contains {l})"
            return (t if isinstance(op, ast.In) else f"(!{t})"), "bool"
        if lty == "optint" and rty == "int":
            sym = {ast.Gt: ">", ast.GtE: "≥", ast.Lt: "<", ast.LtE: "≤", ast.Eq: "=", ast.NotEq: "≠"}.get(type(op))
            if sym is None:
                raise Untranslatable("comparison operator")
            return f"({l}.map (fun c => decide (c {sym} {r})))", "optbool"
        if lty != rty or lty not in ("str", "int"):
            raise Untranslatable("comparison of different types")
        if isinstance(op, ast.Eq):
            return f"({l} == {r})", "bool"
        if isinstance(op, ast.NotEq):
            return f"({l} != {r})", "bool"
        if lty == "int":
            sym = {ast.Gt: ">", ast.GtE: "≥", ast.Lt: "<", ast.LtE: "≤"}.get(type(op))
            if sym is None:
                raise Untranslatable("comparison operator")
            return f"(decide ({l} {sym} {r}))", "bool"
        lt = {ast.Lt: f"(strLt {l} {r})", ast.Gt: f"(strLt {r} {l})", ast.LtE: f"(!(strLt {r} {l}))", ast.GtE: f"(!(strLt {l} {r}))"}.get(type(op))
        if lt is None:
            raise Untranslatable("comparison operator")
        return lt, "bool"
    raise Untranslatable(ast.dump(e)[:80])


def block(stmts, env, ret):
    """statement list -> Lean term of type `Option <ret>` (none = raises); `ret` in str | bool | int | strlist"""
    stmts = [s for s in stmts if not _is_effect_free(s)]
    if not stmts:
        raise Untranslatable("falls off the end")
    s, rest = stmts[0], stmts[1:]
    if isinstance(s, ast.Return) and s.value is not None:
        t, ty = expr(s.value, env)
        if ty == "opt" + ret:
            return t
        if ty != ret:
            raise Untranslatable(f"returns {ty}, expected {ret}")
        return f"(some {t})"
    if isinstance(s, ast.Raise):
        return "none"
    if (isinstance(s, ast.If) and isinstance(s.test, ast.Compare) and len(s.test.ops) == 1 and isinstance(s.test.ops[0], (ast.Is, ast.IsNot))
            and isinstance(s.test.left, ast.Name) and s.test.left.id in env.firsts
            and ast.dump(s.test.comparators[0]) == env.firsts[s.test.left.id][3]):
        name = s.test.left.id
        L, x, c, _ = env.firsts[name]
        body_rest = s.body + ([] if _terminates(s.body) else rest)
        else_rest = list(s.orelse) + rest
        missing, found = (body_rest, else_rest) if isinstance(s.test.ops[0], ast.Is) else (else_rest, body_rest)
        none_branch = block(missing, env, ret)
        saved = dict(env.vars)
        env.vars[name] = ("r_" + name, "str")
        some_branch = block(found, env, ret)
        env.vars = saved
        return f"(match {L}.find? (fun {x} => {c}) with | some r_{name} => {some_branch} | none => {none_branch})"
    if isinstance(s, ast.If):
        c, cty = expr(s.test, env)
        if cty != "bool":
            raise Untranslatable("condition is not boolean")
        then = block(s.body + ([] if _terminates(s.body) else rest), env, ret)
        els = block(list(s.orelse) + rest, env, ret)
        return f"(if {c} then {then} else {els})"
    if isinstance(s, ast.Assign) and len(s.targets) == 1 and isinstance(s.targets[0], ast.Name) and isinstance(s.value, ast.GeneratorExp):
        env.gens[s.targets[0].id] = s.value
        return block(rest, env, ret)
    if (isinstance(s, ast.Assign) and len(s.targets) == 1 and isinstance(s.targets[0], ast.Name) and isinstance(s.value, ast.Call)
            and isinstance(s.value.func, ast.Name) and s.value.func.id == "next" and len(s.value.args) == 2 and not s.value.keywords):
        # chosen = next(<x for x in L if c>, SENTINEL): the first element of L with c, or the sentinel
        g, sentinel = s.value.args
        g = env.gens.get(g.id) if isinstance(g, ast.Name) else g
        if not (isinstance(g, ast.GeneratorExp) and len(g.generators) == 1 and not g.generators[0].is_async
                and isinstance(g.generators[0].target, ast.Name) and isinstance(g.elt, ast.Name)
                and g.elt.id == g.generators[0].target.id and len(g.generators[0].ifs) == 1):
            raise Untranslatable("next() of something else than `(x for x in L if c)`")
        if not (isinstance(sentinel, ast.Name) or (isinstance(sentinel, ast.Constant) and sentinel.value is None)):
            raise Untranslatable("next() default")
        L, lty = expr(g.generators[0].iter, env)
        if lty != "strlist":
            raise Untranslatable("next() over a non-list")
        x = "x_" + g.generators[0].target.id
        saved = dict(env.vars)
        env.vars[g.generators[0].target.id] = (x, "str")
        c, cty = expr(g.generators[0].ifs[0], env)
        env.vars = saved
        if cty != "bool":
            raise Untranslatable("generator condition")
        env.firsts[s.targets[0].id] = (L, x, c, ast.dump(sentinel))
        return block(rest, env, ret)
    if isinstance(s, ast.For) and isinstance(s.target, ast.Name) and not s.orelse and isinstance(s.iter, (ast.Tuple, ast.List)):
        # a loop over a literal tuple: unrolled
        unrolled = []
        for elt in s.iter.elts:
            if not isinstance(elt, ast.Name):
                raise Untranslatable("loop over a tuple of non-names")
            for b in s.body:
                unrolled.append(_Subst({s.target.id: elt.id}).visit(ast.parse(ast.unparse(b)).body[0]))
        return block(unrolled + rest, env, ret)
    if isinstance(s, ast.Expr) and isinstance(s.value, ast.Call) and isinstance(s.value.func, ast.Name) and s.value.func.id in env.helpers:
        # a module-level helper called for its effect (it may raise): inlined, falling off its end continues here
        h = env.helpers[s.value.func.id]
        params = [a.arg for a in h.args.args]
        if s.value.keywords or len(params) != len(s.value.args) or not all(isinstance(a, ast.Name) for a in s.value.args):
            raise Untranslatable("helper call")
        m = {p: a.id for p, a in zip(params, s.value.args)}
        body = [_Subst(m).visit(ast.parse(ast.unparse(b)).body[0]) for b in h.body if not _is_effect_free(b)]
        if any(isinstance(n, ast.Return) for b in body for n in ast.walk(b)):
            raise Untranslatable("helper returns a value")
        return block(body + rest, env, ret)
    if isinstance(s, ast.For) and isinstance(s.target, ast.Name) and not s.orelse:
        L, lty = expr(s.iter, env)
        body = [b for b in s.body if not _is_effect_free(b)]
        if lty != "strlist" or len(body) != 1 or not isinstance(body[0], ast.If) or body[0].orelse:
            raise Untranslatable("for loop shape")
        inner = [b for b in body[0].body if not _is_effect_free(b)]
        if not (len(inner) == 1 and isinstance(inner[0], ast.Return) and isinstance(inner[0].value, ast.Name) and inner[0].value.id == s.target.id):
            raise Untranslatable("for loop body")
        if ret != "str":
            raise Untranslatable("for loop returns a list element")
        x = "x_" + s.target.id
        saved = dict(env.vars)
        env.vars[s.target.id] = (x, "str")
        c, cty = expr(body[0].test, env)
        env.vars = saved
        if cty != "bool":
            raise Untranslatable("for loop condition")
        return f"(match {L}.find? (fun {x} => {c}) with | some r => some r | none => {block(rest, env, ret)})"
    raise Untranslatable(type(s).__name__)


class _Subst(ast.NodeTransformer):
    def __init__(self, m):
        self.m = m

    def visit_Name(self, n):
        return ast.copy_location(ast.Name(id=self.m.get(n.id, n.id), ctx=n.ctx), n)


def _terminates(stmts):
    stmts = [s for s in stmts if not _is_effect_free(s)]
    return bool(stmts) and isinstance(stmts[-1], (ast.Return, ast.Raise))


def _func(tree, name, cls=None):
    scope = tree
    if cls is not None:
        scope = next((n for n in tree.body if isinstance(n, ast.ClassDef) and n.name == cls), None)
        if scope is None:
            raise Untranslatable(f"class {cls} not found")
    for n in scope.body:
        if isinstance(n, (ast.FunctionDef, ast.AsyncFunctionDef)) and n.name == name:
            return n
    raise Untranslatable(f"function {name} not found")


def nd_zeros():
    zs = [c for c in range(sys.maxunicode + 1) if unicodedata.category(chr(c)) == "Nd" and unicodedata.digit(chr(c)) == 0]
    nd = sum(1 for c in range(sys.maxunicode + 1) if unicodedata.category(chr(c)) == "Nd")
    ok = nd == 10 * len(zs) and all(unicodedata.category(chr(z + i)) == "Nd" and unicodedata.digit(chr(z + i)) == i for z in zs for i in range(10))
    return zs, ok


ALIASES = [  # (file, function, expected target) — helpers that must be plain calls of the target with their own arguments
    ("protocol/messages/initialize/send_messages.py", "get_supported_versions", "ProtocolVersion.get_all_supported"),
    ("protocol/messages/initialize/send_messages.py", "get_current_version", "ProtocolVersion.get_latest_supported"),
    ("protocol/messages/initialize/send_messages.py", "is_version_supported", "ProtocolVersion.is_supported"),
    ("protocol/messages/initialize/send_messages.py", "validate_version_format", "ProtocolVersion.validate_format"),
    ("protocol/features/batching.py", "_supports_batch_processing", "supports_batching"),
]


def alias_target(fn):
    """`return target(<own parameters in order>)` after effect-free statements / imports / warnings.warn -> dotted target name"""
    body = [s for s in fn.body if not _is_effect_free(s) and not isinstance(s, (ast.Import, ast.ImportFrom))]
    body = [s for s in body if not (isinstance(s, ast.Expr) and isinstance(s.value, ast.Call) and isinstance(s.value.func, ast.Attribute)
                                    and s.value.func.attr == "warn")]
    if len(body) != 1 or not isinstance(body[0], ast.Return) or not isinstance(body[0].value, ast.Call):
        raise Untranslatable("not a single return of a call")
    call = body[0].value
    params = [a.arg for a in fn.args.args]
    if call.keywords or [getattr(a, "id", None) for a in call.args] != params:
        raise Untranslatable("arguments are not the function's own parameters")
    f = call.func
    if isinstance(f, ast.Name):
        return f.id
    if isinstance(f, ast.Attribute) and isinstance(f.value, ast.Name):
        return f.value.id + "." + f.attr
    raise Untranslatable("callee")


@translate.register("VersionLib")
def gen(src: Path):
    report = {"file": "Gen/VersionLib.lean", "untranslatable": []}
    vt = ast.parse((src / "protocol/types/versioning.py").read_text())

    # module constants: SUPPORTED_VERSIONS and names bound to it / its first / last element
    consts = {"SUPPORTED_VERSIONS": ("supportedL", "strlist")}
    env0 = Env(consts)
    for n in vt.body:
        if isinstance(n, ast.Assign) and len(n.targets) == 1 and isinstance(n.targets[0], ast.Name) and n.targets[0].id != "SUPPORTED_VERSIONS":
            try:
                consts[n.targets[0].id] = expr(n.value, env0)
            except Untranslatable:
                pass

    defs = {}
    not_regenerated = []
    helpers = {n.name: n for n in vt.body if isinstance(n, ast.FunctionDef) and n.name.startswith("_")}
    str_consts = {n.targets[0].id: n.value.value for n in vt.body
                  if isinstance(n, ast.Assign) and len(n.targets) == 1 and isinstance(n.targets[0], ast.Name)
                  and isinstance(n.value, ast.Constant) and isinstance(n.value.value, str)}

    compiled = {}
    for n in vt.body:
        if (isinstance(n, ast.Assign) and len(n.targets) == 1 and isinstance(n.targets[0], ast.Name) and isinstance(n.value, ast.Call)
                and isinstance(n.value.func, ast.Attribute) and n.value.func.attr == "compile" and getattr(n.value.func.value, "id", None) == "re"
                and len(n.value.args) == 1 and not n.value.keywords):
            a0 = n.value.args[0]
            pat = a0.value if isinstance(a0, ast.Constant) else str_consts.get(getattr(a0, "id", None))
            if isinstance(pat, str):
                compiled[n.targets[0].id] = pat

    def missed(name, why):
        not_regenerated.append(name)
        report.setdefault("notes", []).append(f"{name}: source outside the translator's subset ({why}); the reference definition is used")

    def fun(name, params, ret, cls="ProtocolVersion", placeholder=None):
        try:
            f = _func(vt, name, cls)
            if [a.arg for a in f.args.args] != [p for p, _ in params]:
                raise Untranslatable("signature")
            env = Env(consts)
            env.helpers = helpers
            for p, ty in params:
                env.vars[p] = (p, ty)
            defs[name] = block(f.body, env, ret)
        except (Untranslatable, RecursionError) as ex:
            missed(name, str(ex)[:120])
            defs[name] = REFERENCE[name]

    # validate_format: the pattern literal (leaf hand-modelled for exactly this pattern)
    pattern = None
    try:
        f = _func(vt, "validate_format", "ProtocolVersion")
        lits = {}
        for n in ast.walk(f):
            if isinstance(n, ast.Assign) and isinstance(n.targets[0], ast.Name) and isinstance(n.value, ast.Constant) and isinstance(n.value.value, str):
                lits[n.targets[0].id] = n.value.value
        ret = [s for s in f.body if isinstance(s, ast.Return)]
        call = ret[-1].value if ret else None
        if isinstance(call, ast.Call) and getattr(call.func, "id", None) == "bool" and call.args:
            call = call.args[0]
        if (isinstance(call, ast.Compare) and len(call.ops) == 1 and isinstance(call.ops[0], ast.IsNot)
                and isinstance(call.comparators[0], ast.Constant) and call.comparators[0].value is None):
            call = call.left  # `re.match(...) is not None`
        argname = f.args.args[0].arg
        if (isinstance(call, ast.Call) and isinstance(call.func, ast.Attribute) and call.func.attr == "match"
                and getattr(call.func.value, "id", None) == "re" and len(call.args) == 2 and getattr(call.args[1], "id", None) == argname):
            p = call.args[0]
            pattern = p.value if isinstance(p, ast.Constant) else lits.get(getattr(p, "id", None), str_consts.get(getattr(p, "id", None)))
        elif (isinstance(call, ast.Call) and isinstance(call.func, ast.Attribute) and call.func.attr == "match"
                and isinstance(call.func.value, ast.Name) and call.func.value.id in compiled and len(call.args) == 1
                and getattr(call.args[0], "id", None) == argname):
            pattern = compiled[call.func.value.id]  # a module-level `X = re.compile(<pattern>)`
        else:
            raise Untranslatable("not `re.match(pattern, version)` / `<compiled pattern>.match(version)`")
        if pattern != KNOWN_PATTERN:
            raise Untranslatable(f"pattern {pattern!r} is not the modelled one")
    except (Untranslatable, IndexError) as ex:
        missed("validate_format", str(ex)[:120])
        pattern = KNOWN_PATTERN

    # parse_version: a format guard first (inline or through a helper), then ONE split("-") of the argument, int() applied to the
    # parts, three values returned — shape check only, the leaf is hand-modelled
    try:
        f = _func(vt, "parse_version", "ProtocolVersion")
        body = [s_ for s_ in f.body if not _is_effect_free(s_)]
        arg = f.args.args[0].arg
        g0 = body[0]
        guard_inline = (isinstance(g0, ast.If) and isinstance(g0.test, ast.UnaryOp) and isinstance(g0.test.op, ast.Not)
                        and _callee(getattr(g0.test.operand, "func", None)) == "validate_format" and isinstance(g0.body[-1], ast.Raise))
        guard_helper = (isinstance(g0, ast.Expr) and isinstance(g0.value, ast.Call) and isinstance(g0.value.func, ast.Name)
                        and g0.value.func.id in helpers and any(_callee(getattr(n_, "func", None)) == "validate_format" for n_ in ast.walk(helpers[g0.value.func.id]))
                        and any(isinstance(n_, ast.Raise) for n_ in ast.walk(helpers[g0.value.func.id])))
        tail = body[1:]
        nodes = [n_ for t_ in tail for n_ in ast.walk(t_)]
        splits = [n_ for n_ in nodes if isinstance(n_, ast.Call) and getattr(n_.func, "attr", None) == "split"
                  and getattr(n_.func.value, "id", None) == arg and len(n_.args) == 1 and ast.literal_eval(n_.args[0]) == "-"]
        ints = [n_ for n_ in nodes if isinstance(n_, ast.Call) and getattr(n_.func, "id", None) == "int" and len(n_.args) == 1 and not n_.keywords]
        rets = [n_ for n_ in nodes if isinstance(n_, ast.Return)]
        three = len(rets) == 1 and isinstance(rets[0].value, ast.Tuple) and len(rets[0].value.elts) == 3
        other_calls = [n_ for n_ in nodes if isinstance(n_, ast.Call) and n_ not in splits and n_ not in ints]
        if not ((guard_inline or guard_helper) and len(splits) == 1 and len(ints) in (1, 3) and three and not other_calls
                and not any(isinstance(n_, (ast.If, ast.For, ast.While, ast.Try)) for n_ in nodes)):
            raise Untranslatable("shape")
    except Exception:  # noqa
        missed("parse_version", "not `format guard; split('-'); int() of the three parts; return them`")

    fun("is_supported", [("version", "str")], "bool")
    fun("compare", [("version1", "str"), ("version2", "str")], "int")
    fun("is_newer", [("version1", "str"), ("version2", "str")], "bool")
    fun("is_older", [("version1", "str"), ("version2", "str")], "bool")
    fun("get_latest_supported", [], "str")
    fun("get_minimum_supported", [], "str")
    fun("get_all_supported", [], "strlist")
    fun("validate_version_compatibility", [("client_version", "str"), ("server_version", "str")], "bool", cls=None)
    fun("negotiate_version", [("client_versions", "strlist"), ("server_versions", "strlist")], "str", cls=None)

    aliases = []
    for rel, name, want in ALIASES:
        try:
            tree = ast.parse((src / rel).read_text())
            aliases.append((name, alias_target(_func(tree, name))))
        except Exception as ex:  # noqa
            aliases.append((name, want))
            missed(name, str(ex)[:120])

    zeros, zeros_ok = nd_zeros()
    if not zeros_ok:
        report["untranslatable"].append("unicodedata: category Nd is not a union of runs of ten consecutive digits 0..9")
    ok = "true" if not report["untranslatable"] else "false"
    report["not_regenerated"] = not_regenerated
    lean = f"""-- GENERATED by verifpy/translate_versionlib.py from protocol/types/versioning.py (+ helper aliases). Do not edit.
import Verif.Gen.Versions
import Verif.Model.VersionLib
namespace Verif.Gen.VersionLib
open Verif.Model.Batching Verif.Model.VersionLib

/-- `false` when the digit table of the running interpreter could not be built -/
def translatable : Bool := {ok}

/-- functions whose CURRENT source is outside the translator's subset: their definition below is the REFERENCE one (the
translation of the source as verified), tied to the code by the correspondence run only -/
def notRegenerated : List String := [{", ".join(_lean_str(n) for n in not_regenerated)}]

/-- code points of every Unicode decimal digit ZERO known to the running interpreter (unicodedata {unicodedata.unidata_version}) -/
def ndZeros : List Nat := [{", ".join(str(z) for z in zeros)}]

/-- the regular expression of `validate_format` -/
def formatPattern : String := {_lean_str(pattern or "")}

/-- SUPPORTED_VERSIONS as character lists -/
def supportedL : List (List Char) := Verif.Gen.Versions.supported.map String.toList

/-- `validate_format`: the pattern above, whose matching is hand-modelled (`validFormatU`) -/
def validateFormatGen (version : List Char) : Bool := validFormatU ndZeros version

/-- `parse_version` (shape checked: format guard, then `split("-")` and three `int()`) -/
def parseVersionGen (version : List Char) : Option (Nat × Nat × Nat) := parseVersionU ndZeros version

def isSupportedGenO (version : List Char) : Option Bool := {defs["is_supported"]}
def isSupportedGen (version : List Char) : Bool := (isSupportedGenO version).getD false

def compareGen (version1 version2 : List Char) : Option Int := {defs["compare"]}

def isNewerGen (version1 version2 : List Char) : Option Bool := {defs["is_newer"]}

def isOlderGen (version1 version2 : List Char) : Option Bool := {defs["is_older"]}

def latestGen : Option (List Char) := {defs["get_latest_supported"]}

def minimumGen : Option (List Char) := {defs["get_minimum_supported"]}

def allSupportedGen : Option (List (List Char)) := {defs["get_all_supported"]}

def compatibleGen (client_version server_version : List Char) : Option Bool := {defs["validate_version_compatibility"]}

def negotiateGen (client_versions server_versions : List (List Char)) : Option (List Char) := {defs["negotiate_version"]}

/-- helper functions that are plain calls of another function with their own arguments: (helper, callee) -/
def aliases : List (String × String) := [{", ".join("(" + _lean_str(a) + ", " + _lean_str(b) + ")" for a, b in aliases)}]

end Verif.Gen.VersionLib
"""
    report["pattern"] = pattern
    report["aliases"] = aliases
    return lean, report
