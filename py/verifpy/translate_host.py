"""Translator generators for the host layer (C20):

* `Gen/HostEnv.lean` from `mcp_client/host/environment.py`: the lists of inherited variable names
  (POSIX / win32) and the prefix that bars a value from being inherited.  Only DATA is extracted;
  the filter itself (present, non-empty, not starting with the prefix) is hand-modelled in
  `Model/HostEnv.lean` and tied by the correspondence run.
* `Gen/Cli.lean` from `__main__.py`: the option table of the argument parser (flags, defaults, which
  options take a value) and the ordered list of default configuration locations.

Anything that cannot be located is reported and makes `translatable := false`; nothing is guessed.
"""
from __future__ import annotations

import ast
from pathlib import Path

from . import translate


def _lean_str(s: str) -> str:
    out = []
    for ch in s:
        if ch == '"':
            out.append('\\"')
        elif ch == "\\":
            out.append("\\\\")
        elif ch == "\n":
            out.append("\\n")
        elif ch == "\t":
            out.append("\\t")
        elif ord(ch) < 32 or ord(ch) == 127:
            out.append("\\x%02x" % ord(ch))
        else:
            out.append(ch)
    return '"' + "".join(out) + '"'


def _lean_list(xs) -> str:
    return "[" + ", ".join(_lean_str(x) for x in xs) + "]"


def _str_list(node, consts):
    if isinstance(node, ast.Name) and node.id in consts:
        return _str_list(consts[node.id], consts)
    if isinstance(node, (ast.List, ast.Tuple)):
        out = []
        for e in node.elts:
            if isinstance(e, ast.Constant) and isinstance(e.value, str):
                out.append(e.value)
            else:
                raise ValueError("non-literal member")
        return out
    raise ValueError("not a list literal")


def _is_platform_test(t):
    """-> True when the test is `sys.platform != "win32"`, False for `== "win32"`, None otherwise"""
    if isinstance(t, ast.Compare) and len(t.ops) == 1 and isinstance(t.left, ast.Attribute) and t.left.attr == "platform" \
            and isinstance(t.comparators[0], ast.Constant) and t.comparators[0].value == "win32":
        if isinstance(t.ops[0], ast.NotEq):
            return True
        if isinstance(t.ops[0], ast.Eq):
            return False
    return None


@translate.register("HostEnv")
def gen_hostenv(src: Path):
    report = {"file": "Gen/HostEnv.lean", "untranslatable": []}
    posix, win32, prefix = [], [], None
    try:
        mod = ast.parse((src / "mcp_client/host/environment.py").read_text())
        consts = {}
        branches = None                      # statement form: `if sys.platform …: NAME = [...] else: NAME = [...]`
        for st in mod.body:
            if isinstance(st, (ast.Assign, ast.AnnAssign)):
                tgt = st.targets[0] if isinstance(st, ast.Assign) and len(st.targets) == 1 else getattr(st, "target", None)
                if isinstance(tgt, ast.Name) and st.value is not None:
                    consts[tgt.id] = st.value
            if isinstance(st, ast.If) and _is_platform_test(st.test) is not None:
                def assigned(body):
                    for b_ in body:
                        if isinstance(b_, ast.Assign) and len(b_.targets) == 1 and isinstance(b_.targets[0], ast.Name) \
                                and b_.targets[0].id == "DEFAULT_INHERITED_ENV_VARS":
                            return b_.value
                    return None
                x, y = assigned(st.body), assigned(st.orelse)
                if x is not None and y is not None:
                    branches = (_is_platform_test(st.test), x, y)
        v = consts.get("DEFAULT_INHERITED_ENV_VARS")
        if branches is not None:
            t, x, y = branches
            a, b = _str_list(x, consts), _str_list(y, consts)
            posix, win32 = (a, b) if t else (b, a)
        elif v is None:
            raise ValueError("DEFAULT_INHERITED_ENV_VARS not found")
        elif isinstance(v, ast.IfExp):
            t = _is_platform_test(v.test)
            if t is None:
                raise ValueError("platform test not recognised")
            a, b = _str_list(v.body, consts), _str_list(v.orelse, consts)
            posix, win32 = (a, b) if t else (b, a)
        else:
            posix = win32 = _str_list(v, consts)
        fn = next((s for s in mod.body if isinstance(s, ast.FunctionDef) and s.name == "get_default_environment"), None)
        if fn is None:
            raise ValueError("get_default_environment not found")
        uses_list = any(isinstance(n, ast.Name) and n.id == "DEFAULT_INHERITED_ENV_VARS" for n in ast.walk(fn))
        if not uses_list:
            raise ValueError("get_default_environment does not iterate DEFAULT_INHERITED_ENV_VARS")
        prefixes = []
        for n in ast.walk(fn):
            if isinstance(n, ast.Call) and isinstance(n.func, ast.Attribute) and n.func.attr == "startswith" and n.args:
                a0 = n.args[0]
                if isinstance(a0, ast.Name) and a0.id in consts:
                    a0 = consts[a0.id]                # a module-level constant
                if isinstance(a0, ast.Constant) and isinstance(a0.value, str):
                    prefixes.append(a0.value)
                else:
                    raise ValueError("startswith() argument is not a literal")
        if len(prefixes) > 1:
            raise ValueError(f"several startswith() tests: {prefixes}")
        prefix = prefixes[0] if prefixes else None
    except Exception as ex:  # noqa: BLE001
        report["untranslatable"].append(f"environment.py: {ex}")
    ok = "true" if not report["untranslatable"] else "false"
    lean = f"""-- GENERATED by verifpy/translate_host.py from mcp_client/host/environment.py. Do not edit.
namespace Verif.Gen.HostEnv

def translatable : Bool := {ok}

/-- `DEFAULT_INHERITED_ENV_VARS` on POSIX / on win32 -/
def inheritedPosix : List String := {_lean_list(posix)}
def inheritedWin32 : List String := {_lean_list(win32)}

/-- a value starting with this prefix is not inherited (`none`: no such test in the code) -/
def blockedPrefix : Option String := {"none" if prefix is None else "some " + _lean_str(prefix)}

end Verif.Gen.HostEnv
"""
    report.update(posix=posix, win32=win32, prefix=prefix)
    return lean, report


def _is_home(e, homes):
    return (isinstance(e, ast.Call) and isinstance(e.func, ast.Attribute) and e.func.attr == "home" and not e.args) \
        or (isinstance(e, ast.Name) and e.id in homes)


def _path_expr(e, homes=()):
    """`"name"` -> (False, name);  `Path.home() / "a" / "b"` (or `home / …` with `home = Path.home()`) -> (True, "a/b")"""
    if isinstance(e, ast.Constant) and isinstance(e.value, str):
        return (False, e.value)
    parts = []
    while isinstance(e, ast.BinOp) and isinstance(e.op, ast.Div):
        if not (isinstance(e.right, ast.Constant) and isinstance(e.right.value, str)):
            raise ValueError("path component is not a literal")
        parts.append(e.right.value)
        e = e.left
    if _is_home(e, homes):
        return (True, "/".join(reversed(parts)))
    raise ValueError("path expression not recognised")


def _candidate_list(fn, mod, consts, depth=0):
    """the ordered candidate list a function builds: a list/tuple display (assigned or returned) whose members are
    literals, `*MODULE_TUPLE`, or home-relative paths; or the list of a module-level helper it calls"""
    homes = {st.targets[0].id for st in ast.walk(fn) if isinstance(st, ast.Assign) and len(st.targets) == 1
             and isinstance(st.targets[0], ast.Name) and _is_home(st.value, ())}
    for n in ast.walk(fn):
        if isinstance(n, (ast.List, ast.Tuple)) and n.elts:
            try:
                out = []
                for e in n.elts:
                    if isinstance(e, ast.Starred):
                        out += [(False, x) for x in _str_list(e.value, consts)]
                    elif isinstance(e, ast.Name) and e.id in consts and not isinstance(consts[e.id], ast.Constant):
                        raise ValueError("name member")
                    else:
                        out.append(_path_expr(e, homes))
                if out:
                    return out
            except ValueError:
                continue
    if depth < 2:
        funcs = {s.name: s for s in mod.body if isinstance(s, ast.FunctionDef)}
        for n in ast.walk(fn):
            if isinstance(n, ast.Call) and isinstance(n.func, ast.Name) and n.func.id in funcs and n.func.id != fn.name:
                try:
                    return _candidate_list(funcs[n.func.id], mod, consts, depth + 1)
                except ValueError:
                    continue
        for n in ast.walk(fn):                                   # a module-level tuple/list iterated directly
            if isinstance(n, ast.Name) and n.id in consts and isinstance(consts[n.id], (ast.List, ast.Tuple)):
                try:
                    return [_path_expr(e, homes) for e in consts[n.id].elts]
                except ValueError:
                    continue
    raise ValueError("candidate list of find_default_config not found")


@translate.register("Cli")
def gen_cli(src: Path):
    report = {"file": "Gen/Cli.lean", "untranslatable": []}
    cands, opts = [], []
    try:
        mod = ast.parse((src / "__main__.py").read_text())
        fdc = next((s for s in mod.body if isinstance(s, ast.FunctionDef) and s.name == "find_default_config"), None)
        if fdc is None:
            raise ValueError("find_default_config not found")
        mconsts = {}
        for st in mod.body:
            if isinstance(st, ast.Assign) and len(st.targets) == 1 and isinstance(st.targets[0], ast.Name):
                mconsts[st.targets[0].id] = st.value
        cands = _candidate_list(fdc, mod, mconsts)
        main = next((s for s in mod.body if isinstance(s, ast.FunctionDef) and s.name == "main"), None)
        if main is None:
            raise ValueError("main not found")
        for n in ast.walk(main):
            if isinstance(n, ast.Call) and isinstance(n.func, ast.Attribute) and n.func.attr == "add_argument":
                flags = [a.value for a in n.args if isinstance(a, ast.Constant) and isinstance(a.value, str)]
                if len(flags) != len(n.args) or not flags or not all(f.startswith("-") for f in flags):
                    raise ValueError("add_argument with non-literal or positional flags")
                kw = {k.arg: k.value for k in n.keywords}
                action = ast.literal_eval(kw["action"]) if "action" in kw else "store"
                if action not in ("store", "store_true"):
                    raise ValueError(f"action {action!r}")
                for k in kw:
                    if k not in ("action", "default", "help", "dest", "metavar"):
                        raise ValueError(f"add_argument keyword {k}")
                if "dest" in kw:
                    raise ValueError("dest= is not supported")
                default = ast.literal_eval(kw["default"]) if "default" in kw else None
                if default is not None and not isinstance(default, str):
                    raise ValueError("non-string default")
                longs = [f for f in flags if f.startswith("--")]
                shorts = [f for f in flags if not f.startswith("--")]
                if len(longs) != 1 or len(shorts) > 1:
                    raise ValueError(f"flags {flags}")
                opts.append({"long": longs[0], "short": shorts[0] if shorts else None, "flag": action == "store_true",
                             "default": default})
        by = {o["long"]: o for o in opts}
        for need, flag in (("--config", False), ("--server", False), ("--list-servers", True), ("--verbose", True)):
            if need not in by or by[need]["flag"] != flag:
                raise ValueError(f"option {need} missing or of another kind")
        if len(opts) != 4:
            raise ValueError(f"unexpected options {[o['long'] for o in opts]}")
        if by["--server"]["default"] is None:
            raise ValueError("--server has no default")
    except Exception as ex:  # noqa: BLE001
        report["untranslatable"].append(f"__main__.py: {ex}")
        by = {}
    ok = "true" if not report["untranslatable"] else "false"

    def short(name, dflt):
        o = by.get(name)
        return _lean_str((o or {}).get("short") or dflt) if (o is None or o.get("short")) else '""'

    cfg_default = (by.get("--config") or {}).get("default")
    lean = f"""-- GENERATED by verifpy/translate_host.py from __main__.py. Do not edit.
namespace Verif.Gen.Cli

def translatable : Bool := {ok}

/-- `find_default_config`: the locations tried, in order; `true`: relative to the home directory -/
def candidates : List (Bool × String) := [{", ".join("(%s, %s)" % ("true" if h else "false", _lean_str(p)) for h, p in cands)}]

/-- the options of the argument parser -/
def configLong : String := "--config"
def configShort : String := {short("--config", "-c")}
def serverLong : String := "--server"
def serverShort : String := {short("--server", "-s")}
def listLong : String := "--list-servers"
def listShort : String := {short("--list-servers", "-l")}
def verboseLong : String := "--verbose"
def verboseShort : String := {short("--verbose", "-v")}
def defaultServer : String := {_lean_str((by.get("--server") or {}).get("default") or "sqlite")}
def defaultConfig : Option String := {"none" if cfg_default is None else "some " + _lean_str(cfg_default)}

end Verif.Gen.Cli
"""
    report.update(candidates=cands, options=opts)
    return lean, report


@translate.register("Shutdown")
def gen_shutdown(src: Path):
    """`Gen/Shutdown.lean`: the bound of the stdout drain that follows the child's death
    (`StdioClient._drain_stdout`: `with anyio.move_on_after(T)`), in milliseconds.  No such helper in
    the class: there is no drain phase (`drainMs := 0`) — that is data, not a guess."""
    report = {"file": "Gen/Shutdown.lean", "untranslatable": []}
    drain_ms, has = 0, False
    try:
        mod = ast.parse((src / "transports/stdio/stdio_client.py").read_text())
        consts = {}
        for st in mod.body:
            if isinstance(st, ast.Assign) and len(st.targets) == 1 and isinstance(st.targets[0], ast.Name):
                consts[st.targets[0].id] = st.value
        cls = next((s for s in mod.body if isinstance(s, ast.ClassDef) and s.name == "StdioClient"), None)
        if cls is None:
            raise ValueError("class StdioClient not found")
        fn = next((s for s in cls.body if isinstance(s, (ast.AsyncFunctionDef, ast.FunctionDef)) and s.name == "_drain_stdout"), None)
        if fn is not None:
            has = True
            bounds = []
            for n in ast.walk(fn):
                if isinstance(n, ast.Call) and getattr(n.func, "attr", None) in ("move_on_after", "fail_after") and n.args:
                    a = n.args[0]
                    if isinstance(a, ast.Name) and a.id in consts:
                        a = consts[a.id]
                    v = ast.literal_eval(a)
                    if isinstance(v, bool) or not isinstance(v, (int, float)):
                        raise ValueError("drain bound is not a number")
                    bounds.append(int(round(float(v) * 1000)))
            if len(bounds) != 1:
                raise ValueError(f"_drain_stdout: expected one bounded wait, found {bounds}")
            drain_ms = bounds[0]
    except Exception as ex:  # noqa: BLE001
        report["untranslatable"].append(f"stdio_client.py: {ex}")
    ok = "true" if not report["untranslatable"] else "false"
    lean = f"""-- GENERATED by verifpy/translate_host.py from transports/stdio/stdio_client.py. Do not edit.
namespace Verif.Gen.Shutdown

def translatable : Bool := {ok}

/-- `_drain_stdout` exists: after the child's death its stdout is read to EOF, for at most `drainMs` -/
def hasDrain : Bool := {"true" if has else "false"}
def drainMs : Nat := {drain_ms}

end Verif.Gen.Shutdown
"""
    report.update(drain_ms=drain_ms, has_drain=has)
    return lean, report


CANON = {
    "stdio_client": ("chuk_mcp.transports.stdio", "stdio_client"),
    "params": ("chuk_mcp.transports.stdio.parameters", "StdioParameters"),
    "transport": ("chuk_mcp.transports.stdio.transport", "StdioTransport"),
    "client": ("chuk_mcp.transports.stdio.stdio_client", "StdioClient"),
    "run_command": ("chuk_mcp.mcp_client.host.server_manager", "run_command"),
    "default_env": ("chuk_mcp.mcp_client.host.environment", "get_default_environment"),
    "send_initialize": ("chuk_mcp.protocol.messages", "send_initialize"),
}
# (legacy module path, attribute chain, the documented present-day name it stands for)
LEGACY_PATHS = [
    ("chuk_mcp.mcp_client", "stdio_client", "stdio_client"), ("chuk_mcp.mcp_client", "StdioServerParameters", "params"),
    ("chuk_mcp.mcp_client", "StdioClient", "transport"), ("chuk_mcp.mcp_client", "run_command", "run_command"),
    ("chuk_mcp.mcp_client", "get_default_environment", "default_env"), ("chuk_mcp.mcp_client", "send_initialize", "send_initialize"),
    ("chuk_mcp.mcp_client.transport.stdio", "stdio_client", "stdio_client"), ("chuk_mcp.mcp_client.transport.stdio", "StdioClient", "client"),
    ("chuk_mcp.mcp_client.transport.stdio.stdio_client", "stdio_client", "stdio_client"),
    ("chuk_mcp.mcp_client.transport.stdio.stdio_client", "StdioClient", "client"),
    ("chuk_mcp.mcp_client.transport.stdio.stdio_server_parameters", "StdioServerParameters", "params"),
    ("chuk_mcp.mcp_client.transport", "stdio.stdio_client", "stdio_client"),      # attribute chain through the module shims
    ("chuk_mcp.mcp_client.transport", "stdio.stdio_server_parameters.StdioServerParameters", "params"),
]


@translate.register("Legacy")
def gen_legacy(src: Path):
    """`Gen/Legacy.lean`: what the legacy import paths of `chuk_mcp.mcp_client` (re-exports and the module
    shims injected into `sys.modules`) resolve to, next to what the present-day name they stand for resolves to —
    by import-time introspection of the package (identity of the objects, rendered as `module:qualname#id-class`)."""
    import importlib
    import sys as _sys

    report = {"file": "Gen/Legacy.lean", "untranslatable": []}
    rows = []

    def resolve(modname, attr):
        m = _sys.modules.get(modname) or importlib.import_module(modname)
        obj = m
        for part in attr.split("."):
            obj = getattr(obj, part)
        return obj

    def name(obj):
        return f"{getattr(obj, '__module__', '?')}:{getattr(obj, '__qualname__', getattr(obj, '__name__', '?'))}"

    try:
        importlib.import_module("chuk_mcp.mcp_client")
        for modname, attr, canon in LEGACY_PATHS:
            lo = resolve(modname, attr)
            co = resolve(*CANON[canon])
            # the SAME object, not merely an equally named one
            rows.append((f"{modname}:{attr}", ":".join(CANON[canon]), name(lo) + ("" if lo is co else "#other-object"), name(co)))
    except Exception as ex:  # noqa: BLE001
        report["untranslatable"].append(f"mcp_client legacy paths: {type(ex).__name__}: {ex}")
    ok = "true" if not report["untranslatable"] else "false"
    body = ",\n  ".join(f"({_lean_str(a)}, {_lean_str(b)}, {_lean_str(c)}, {_lean_str(d)})" for a, b, c, d in rows)
    lean = f"""-- GENERATED by verifpy/translate_host.py by introspection of chuk_mcp.mcp_client. Do not edit.
namespace Verif.Gen.Legacy

def translatable : Bool := {ok}

/-- (legacy import path, present-day path it stands for, what the legacy path resolves to, what the present-day path
resolves to) — `module:qualname`, with `#other-object` appended when the two are not the very same object -/
def exports : List (String × String × String × String) := [
  {body}]

end Verif.Gen.Legacy
"""
    report["rows"] = rows
    return lean, report
