"""Harness for C12: run the real `sse_client` / `SSETransport` under the virtual-time loop
against a scripted HTTP server reached through `httpx.MockTransport`.

A case (JSON):
  base     parameters.url
  T        parameters.timeout in ticks (1/1024 s)
  tie      "events" | "timers" (order of scripted events vs timers at equal instants)
  conn     {"k": "ok"|"status"|"error"|"hang", "at": tick, "code": int}     GET /sse outcome
  chunks   [[tick, hex], ...]      bytes released on the GET stream at absolute ticks
  bounds   [byte offsets]          ends of complete events in the scripted bytes (a response event is
                                   only written at such a boundary, as a real server would)
  close    tick | null             the server ends the GET stream at that tick
  reqs     [{"id": str, "at": ticks after entering (written to the write stream),
             "post": {"k": "200"|"202"|"status"|"exc", "d": ticks after the POST was received,
                      "code": int, "body": "json"|"text"|"empty"|"rpc"|"detail"},
             "ev": null | {"d": ticks after the POST was received, "cuts": [byte offsets], "gap": ticks}}]
  exit     {"k": "normal"|"exception"|"cancel-asyncio"|"cancel-anyio", "at": ticks after entering}
  pause    ticks after entering during which the consumer does not read the read stream
           (back-pressure: the transport's read buffer fills up); default 0
Optional: per request "form" ("dict" | "model" = a JSONRPCMessage object, as send_message writes |
"garbage" = an object that is no message), "params", "method", "answer" (the server's answer:
{"kind":"result","payload":{..}} | {"kind":"error","code","message","data"}), "extra" (extra members of
the answer); post "body200" ("rpc"|"nonjson"|"empty"), "text", "exc_text"; case "write_mode"
("nowait" | "await": one client task awaits every send = back-pressure towards the producer),
"warm" (a first session on the same parameters object, entered and left, before the observed one),
"ctor_fails" (n: creating the n-th HTTP client raises), exit kind "cancel-asyncio-twice",
"api" ("sse_client" | "fallback" = try_sse_with_fallback), "params" (headers / bearer_token of
SSEParameters), "close_raises" (closing the GET response stream raises).
Round 4 additions: "twin" (n: n sessions with their own scripted servers run CONCURRENTLY in one
process, same script, same request ids; "twin_offset": ticks between their starts), "warm" as a list
of conn specs (consecutive earlier sessions on the same parameters object, e.g. failing ones),
"debug_log" (root logger at DEBUG with a handler that formats every record, as a host that configured logging),
"stderr" ("broken": sys.stderr raises on write, "ascii": an ASCII-only stream), "close_write_at" / "close_read_at"
(the application closes its end of the write / read stream at that tick),
"close_exc" (the GET stream ends with an exception of that class instead of EOF), conn / post
"exc_class" (class of the exception the connection attempt / the POST raises), more 200 bodies.
conn.at, chunk ticks and close are relative to the arrival of the GET; enter.t is relative to the
start of the (observed) session.

Everything scripted is injected by the loop (`loop.at`), never by timer tasks.
"""
from __future__ import annotations

import asyncio
import collections
import contextlib
import io
import json

from . import vloop


class Boom(Exception):
    pass


class Deadlock(BaseException):
    pass


class GuardedLoop(vloop.VirtualLoop):
    """VirtualLoop that refuses to block forever: when nothing is runnable, no timer is pending
    and no scripted event is left, nothing can ever happen again (there is no real I/O in these
    runs) — the pending awaits are a deadlock of the code under test."""

    deadlock = None

    def _run_once(self):
        if not self._ready and not self._script and not any(not h._cancelled for h in self._scheduled):
            pend = sorted(getattr(t.get_coro(), "__qualname__", "?") for t in asyncio.all_tasks(self) if not t.done())
            if self.deadlock is None:
                self.deadlock = pend
            raise Deadlock(",".join(pend))
        super()._run_once()


def guarded_run(main, tie="events"):
    import anyio
    holder = {}

    def factory():
        loop = GuardedLoop()
        loop.tie = tie
        holder["loop"] = loop
        return loop
    try:
        anyio.run(main, backend="asyncio", backend_options={"loop_factory": factory})
    except Deadlock:
        pass
    return holder["loop"].deadlock


def answer_msg(r, which):
    """the server's answer to request `r` in the POST reply ("body"), on the event stream ("ev") or
    in the body of another status ("post")"""
    rid = r["id"]
    a = r.get("answer")
    if which == "post" and a is None:
        m = {"jsonrpc": "2.0", "id": rid, "error": {"code": -32001, "message": "scripted"}}
    elif a is None:
        m = {"jsonrpc": "2.0", "id": rid, "result": {"tag": which}}
    elif a.get("kind") == "error":
        err = {"code": a.get("code", 0), "message": a.get("message", "")}
        if "data" in a:
            err["data"] = a["data"]
        m = {"jsonrpc": "2.0", "id": rid, "error": err}
    elif "big" in a:
        m = {"jsonrpc": "2.0", "id": rid, "result": {"blob": big_text(a["big"], 1), "tag": which}}
    else:
        m = {"jsonrpc": "2.0", "id": rid, "result": a.get("payload", {})}
    for k, v in (r.get("extra") or {}).items():
        m[k] = v
    return m


def sse_event_bytes(obj, event="message", nospace=False, multiline=False) -> bytes:
    sp = "" if nospace else " "
    if multiline:
        lines = json.dumps(obj, indent="\t", ensure_ascii=False).split("\n")
    else:
        lines = [json.dumps(obj, separators=(",", ":"), ensure_ascii=False)]
    head = f"event:{sp}{event}\n" if event else ""
    return (head + "".join(f"data:{sp}{line}\n" for line in lines) + "\n").encode("utf-8")


def cut_bytes(b: bytes, cuts):
    out, last = [], 0
    for c in sorted(set(cuts)):
        if 0 < c < len(b):
            out.append(b[last:c])
            last = c
    out.append(b[last:])
    return [x for x in out if x != b""] or [b""]


def id_key(v):
    return json.dumps(v, sort_keys=True)


JSON_NON_OBJECTS = {"list": b"[1, 2]", "null": b"null", "number": b"7", "string": b"\"ok\"", "true": b"true"}


class DictSub(dict):
    pass


class StrSub(str):
    pass


class Garbage:
    """an object that is neither a dict nor a model"""


class StrRaises(Exception):
    """an exception whose text cannot be produced"""

    def __str__(self):
        raise RuntimeError("no text for this exception")

    __repr__ = __str__


def make_exc(name, request, default_msg):
    import httpx
    table = {"TypeError": TypeError, "ValueError": ValueError, "KeyError": KeyError, "IndexError": IndexError,
             "AttributeError": AttributeError, "RuntimeError": RuntimeError, "RecursionError": RecursionError,
             "OSError": OSError, "Exception": Exception, "StrRaises": StrRaises, "UnicodeDecodeError": None}
    if name in (None, "ReadError"):
        return httpx.ReadError(default_msg, request=request)
    if name == "ConnectError":
        return httpx.ConnectError(default_msg, request=request)
    if name == "ReadTimeout":
        return httpx.ReadTimeout(default_msg, request=request)
    if name == "UnicodeDecodeError":
        return UnicodeDecodeError("utf-8", b"\xff", 0, 1, "scripted")
    if name == "StrRaises":
        return StrRaises()
    return table[name](default_msg)


def _debug_logging():
    """Run the code as a host application with logging configured at DEBUG would: every
    `logger.debug(...)` / `isEnabledFor` branch is live and every record is FORMATTED (a handler
    whose `emit` calls `self.format(record)`, as a stream or file handler does — `%`-style argument
    mismatches and failing `__str__` of arguments show only then); the text is discarded."""
    import logging

    class Formatting(logging.Handler):
        def emit(self, record):
            self.format(record)

    root = logging.getLogger()
    prev_disable, prev_level, prev_handlers, prev_raise = root.manager.disable, root.level, list(root.handlers), logging.raiseExceptions
    h = Formatting()
    h.setFormatter(logging.Formatter("%(asctime)s %(name)s %(levelname)s %(message)s"))
    root.handlers[:] = [h]
    root.setLevel(logging.DEBUG)
    logging.disable(logging.NOTSET)

    def restore():
        logging.disable(prev_disable)
        root.setLevel(prev_level)
        root.handlers[:] = prev_handlers
        logging.raiseExceptions = prev_raise
    return restore


class _BrokenStderr:
    """`sys.stderr` of a daemonised host: closed / not writable"""
    encoding = "ascii"

    def write(self, _s):
        raise ValueError("I/O operation on closed file")

    def flush(self):
        raise ValueError("I/O operation on closed file")


def big_text(n, salt=0):
    """deterministic text of n characters with some multi-byte ones (so that chunk boundaries
    also fall inside characters)"""
    unit = f"<{salt}>0123456789abcdefghijklmnopqrstuvwxyzé€-"
    return (unit * (n // len(unit) + 1))[:n]


def run_case(case):
    import contextvars
    import httpx
    import anyio

    n_twins = max(1, int(case.get("twin", 1)))
    sessions = [{"obs": {"posts": [], "delivered": [], "enter": None, "harness_errors": []}, "clients": [], "streams": [], "made": []}
                for _ in range(n_twins)]
    current = contextvars.ContextVar("verif_sse_session")

    def dump(m):
        if hasattr(m, "model_dump"):
            return m.model_dump(exclude_none=True)
        return m

    async def main():
        from chuk_mcp.transports.sse.sse_client import sse_client, try_sse_with_fallback
        from chuk_mcp.transports.sse.parameters import SSEParameters
        from chuk_mcp.protocol.messages.json_rpc_message import JSONRPCMessage

        loop = asyncio.get_running_loop()
        me = asyncio.current_task()

        def at_future(tick):
            f = loop.create_future()

            def fire():
                if not f.done():
                    f.set_result(None)
            loop.at(max(tick, loop.ticks), fire)
            return f

        class ScriptedStream(httpx.AsyncByteStream):
            def __init__(self, S):
                self.q = collections.deque()
                self.waiter = None
                self.closed = False
                S["streams"].append(self)

            def push(self, item):
                self.q.append(item)
                if self.waiter is not None and not self.waiter.done():
                    self.waiter.set_result(None)

            async def __aiter__(self):
                while True:
                    while not self.q:
                        self.waiter = loop.create_future()
                        rt = getattr(self, "read_ticks", None)
                        if rt is not None:
                            # a real transport bounds every read of the body by the client's read timeout
                            try:
                                await asyncio.wait_for(asyncio.shield(self.waiter), rt * vloop.TICK)
                            except asyncio.TimeoutError:
                                raise httpx.ReadTimeout("timed out reading the event stream")
                        else:
                            await self.waiter
                    item = self.q.popleft()
                    if item is None:
                        return
                    if isinstance(item, BaseException):
                        raise item
                    yield item

            async def aclose(self):
                self.closed = True
                if case.get("close_raises"):
                    raise RuntimeError("scripted failure while closing the event stream")

        class Writer:
            """The server's single byte stream: scripted (static) chunks are released in order at
            their ticks; a response event (dynamic) is written only between two complete static
            events and is never interleaved with anything else."""

            def __init__(self, stream, bounds):
                self.stream = stream
                self.bounds = set(bounds) | {0}
                self.pos = 0
                self.busy = False
                self.static = collections.deque()
                self.dynamic = collections.deque()

            def release_static(self, b):
                self.static.append(b)
                self.pump()

            def write_event(self, pieces, gap):
                self.dynamic.append((pieces, gap))
                self.pump()

            def pump(self):
                while not self.busy:
                    if self.static and (self.pos not in self.bounds or not self.dynamic):
                        b = self.static.popleft()
                        if isinstance(b, (bytes, bytearray)):
                            self.pos += len(b)
                        self.stream.push(b)
                    elif self.dynamic and self.pos in self.bounds:
                        pieces, gap = self.dynamic.popleft()
                        self.busy = True
                        now = loop.ticks
                        for i, piece in enumerate(pieces):
                            last = i == len(pieces) - 1
                            if i == 0:
                                self.stream.push(piece)
                                if last:
                                    self.busy = False
                            else:
                                loop.at(now + i * gap, self._piece(piece, last))
                    else:
                        return

            def _piece(self, piece, last):
                def f():
                    self.stream.push(piece)
                    if last:
                        self.busy = False
                        self.pump()
                return f

        RealClient = httpx.AsyncClient

        class PatchedClient(RealClient):
            def __init__(self, *a, **k):
                S = current.get()
                S["made"].append(1)
                if case.get("ctor_fails") == len(S["made"]):
                    raise RuntimeError("scripted failure creating the HTTP client")
                k["transport"] = httpx.MockTransport(S["handler"])
                super().__init__(*a, **k)
                S["clients"].append(self)

        httpx.AsyncClient = PatchedClient
        ex = case.get("exit") or {"k": "normal", "at": 0}
        pk = dict(case.get("params") or {})

        def make_session(idx, S):
            obs = S["obs"]
            state = {"conn": case.get("conn") or {"k": "ok", "at": 0}}
            reqs = {}
            for r in case.get("reqs", []):
                if r.get("id") is not None and r.get("post") is not None:
                    reqs.setdefault(id_key(r["id"]), collections.deque()).append(r)

            async def handler(request: "httpx.Request"):
                conn = state["conn"]
                if request.method == "GET":
                    t_get = loop.ticks
                    obs["get"] = [t_get, str(request.url)]
                    obs["get_hdr"] = {k.lower(): v for k, v in request.headers.items()}
                    read_s = (request.extensions.get("timeout") or {}).get("read")
                    read_ticks = None if read_s is None else int(round(read_s * vloop.TICKS_PER_S))
                    if conn["k"] == "hang" or (read_ticks is not None and conn.get("at", 0) > read_ticks):
                        if read_ticks is None:
                            await loop.create_future()
                        await at_future(t_get + read_ticks)
                        raise httpx.ReadTimeout("timed out waiting for the response", request=request)
                    await at_future(t_get + conn.get("at", 0))
                    if conn["k"] == "error":
                        raise make_exc(conn.get("exc_class", "ConnectError"), request, "scripted connect error")
                    if conn["k"] == "status":
                        return httpx.Response(conn["code"], text="scripted status")
                    stream = ScriptedStream(S)
                    if case.get("stream_read_timeout", True):
                        # like a real transport: every read of the body is bounded by the read
                        # timeout of the client the stream was opened with (None = unbounded)
                        stream.read_ticks = read_ticks
                    w = Writer(stream, case.get("bounds", []))
                    state["writer"] = w
                    for tick, hx in case.get("chunks", []):
                        loop.at(max(t_get + tick, loop.ticks), (lambda b, w=w: (lambda: w.release_static(b)))(bytes.fromhex(hx)))
                    if case.get("close") is not None:
                        end = None if not case.get("close_exc") else make_exc(case["close_exc"], request, "scripted stream failure")
                        loop.at(max(t_get + case["close"], loop.ticks), lambda w=w, end=end: w.release_static(end))
                    stream.given = True
                    return httpx.Response(200, headers={"content-type": "text/event-stream"}, stream=stream)
                # POST
                try:
                    body = json.loads(request.content.decode("utf-8"))
                except Exception:
                    body = None
                rid = body.get("id") if isinstance(body, dict) else None
                obs.setdefault("post_hdr", {k.lower(): v for k, v in request.headers.items()})
                obs["posts"].append([loop.ticks, str(request.url), rid, (body or {}).get("method") if isinstance(body, dict) else None])
                try:
                    q = reqs.get(id_key(rid)) if rid is not None else None
                except TypeError:
                    q = None
                r = q.popleft() if q else None
                if r is None:
                    # notification (or an id the script does not know): plain acknowledgement, or the
                    # scripted failure of a notification POST
                    nf = case.get("notif_post")
                    if nf == "exc":
                        raise httpx.ReadError("scripted POST failure", request=request)
                    if isinstance(nf, int):
                        return httpx.Response(nf, text="scripted")
                    return httpx.Response(202, text="Accepted")
                now = loop.ticks
                ev = r.get("ev")
                post = r["post"]
                w = state.get("writer")
                # what a real HTTP transport does with the client's Timeout object: waiting for the
                # response is bounded by its `read` member (None = unbounded)
                read_s = (request.extensions.get("timeout") or {}).get("read")
                read_ticks = None if read_s is None else int(round(read_s * vloop.TICKS_PER_S))

                def sched_event():
                    if ev is not None and w is not None:
                        data = sse_event_bytes(answer_msg(r, "ev"), "message" if ev.get("typed", True) else None,
                                               nospace=ev.get("nospace", False), multiline=ev.get("multiline", False))
                        pieces = cut_bytes(data, ev.get("cuts", []))
                        loop.at(now + ev["d"], lambda: w.write_event(pieces, ev.get("gap", 0)))
                if ev is not None and ev.get("after_post_at_tie"):
                    done = at_future(now + post["d"])
                    sched_event()
                else:
                    sched_event()
                    done = at_future(now + post["d"])
                k = post["k"]
                if k == "hang" or (read_ticks is not None and post["d"] > read_ticks):
                    # the server accepted the request and never answers it (or later than the client waits)
                    if read_ticks is None:
                        await loop.create_future()
                    await at_future(now + read_ticks)
                    raise httpx.ReadTimeout("timed out waiting for the response", request=request)
                await done
                if k == "exc":
                    raise make_exc(post.get("exc_class"), request, post.get("exc_text", "scripted POST failure"))
                if k == "200":
                    b200 = post.get("body200", "rpc")
                    if b200 == "nonjson":
                        return httpx.Response(200, text="<html>ok</html>")
                    if b200 == "empty":
                        return httpx.Response(200)
                    if b200 == "badutf8":
                        return httpx.Response(200, content=b"\xff\xfe{", headers={"content-type": "application/json"})
                    if b200 == "foreign":   # a JSON-RPC response, but not to this request
                        return httpx.Response(200, json={"jsonrpc": "2.0", "id": "zz-foreign", "result": {"tag": "foreign"}})
                    if b200 == "ack":       # a plain acknowledgement document
                        return httpx.Response(200, json={"status": "ok"})
                    if b200 in JSON_NON_OBJECTS:
                        return httpx.Response(200, content=JSON_NON_OBJECTS[b200], headers={"content-type": "application/json"})
                    return httpx.Response(200, json=answer_msg(r, "body"))
                if k == "202":
                    return httpx.Response(202, text="Accepted")
                code = post.get("code", 500)
                b = post.get("body", "text")
                if b == "empty":
                    return httpx.Response(code)
                if b == "text":
                    return httpx.Response(code, text=post.get("text", "Internal Server Error"))
                if b == "detail":
                    return httpx.Response(code, json={"detail": "Internal Server Error"})
                if b == "rpc":
                    return httpx.Response(code, json=answer_msg(r, "post"))
                if b in JSON_NON_OBJECTS:
                    return httpx.Response(code, content=JSON_NON_OBJECTS[b], headers={"content-type": "application/json"})
                return httpx.Response(code, text=str(b))

            S["handler"] = handler
            S["reader_task"] = None
            canceller = []
            try:
                params = SSEParameters(url=case.get("base", "http://h.test"), timeout=case["T"] * vloop.TICK, **pk)
                params_error = None
            except Exception as e:  # parameters the library refuses: creating the context is what raises
                params, params_error = None, e

            def client_cm():
                if params_error is not None:
                    raise params_error
                return sse_client(params)

            async def reader(rs, start):
                try:
                    if start > loop.ticks:
                        await at_future(start)
                    async for m in rs:
                        obs["delivered"].append(dump(m))
                        obs.setdefault("delivered_t", []).append(loop.ticks)
                    return "end"
                except anyio.ClosedResourceError:
                    return "closed"

            def build(r):
                if r.get("form") == "garbage":
                    return Garbage()
                msg = {"jsonrpc": "2.0", "method": r.get("method", "tools/list")}
                if r.get("id") is not None:
                    msg["id"] = r["id"]
                if "params" in r:
                    msg["params"] = r["params"]
                if r.get("form") == "model":
                    return JSONRPCMessage.model_validate(msg)
                if r.get("form") == "dictsub":   # subclasses of the builtin types flow through the API too
                    if isinstance(msg.get("id"), str):
                        msg["id"] = StrSub(msg["id"])
                    return DictSub(msg)
                if r.get("form") == "odict":
                    return collections.OrderedDict(msg)
                return msg

            async def warm(spec):
                """an earlier session on the same parameters object: entered (or not) and left"""
                ts = loop.ticks
                saved = state["conn"]
                if isinstance(spec, dict):
                    state["conn"] = spec
                try:
                    async with client_cm():
                        obs.setdefault("warm", []).append({"k": "yielded", "t": loop.ticks - ts})
                        await at_future(loop.ticks + 2)
                except Exception as e:
                    obs.setdefault("warm", []).append({"k": "raised", "t": loop.ticks - ts, "exc": type(e).__name__})
                finally:
                    state["conn"] = saved
                for _ in range(5):
                    await asyncio.sleep(0)

            async def session():
                ts = loop.ticks
                try:
                    if case.get("api") == "fallback":
                        cm = await try_sse_with_fallback(case.get("base", "http://h.test"), timeout=case["T"] * vloop.TICK, **pk)
                    else:
                        cm = client_cm()
                    async with cm as (rs, ws):
                        obs["enter"] = {"k": "yielded", "t": loop.ticks - ts}
                        obs["enter_abs"] = loop.ticks
                        S["ws"] = ws
                        S["reader_task"] = asyncio.create_task(reader(rs, loop.ticks + case.get("pause", 0)))

                        def mk_write(r):
                            def f():
                                try:
                                    ws.send_nowait(build(r))
                                except Exception as e:  # closed already: the request is simply not sent
                                    obs.setdefault("write_errors", []).append(type(e).__name__)
                            return f
                        t0 = loop.ticks
                        if canceller:
                            loop.at(t0 + ex["at"], canceller[0])
                        if case.get("close_write_at") is not None:
                            # the application closes its end of the write stream
                            loop.at(t0 + case["close_write_at"], lambda: asyncio.ensure_future(ws.aclose()))
                        if case.get("close_read_at") is not None:
                            # the application stops reading and closes its end of the read stream
                            loop.at(t0 + case["close_read_at"], lambda: asyncio.ensure_future(rs.aclose()))
                        wtask = None
                        if case.get("write_mode") == "await":
                            async def producer():
                                try:
                                    for r in sorted(case.get("reqs", []), key=lambda r: r["at"]):
                                        if t0 + r["at"] > loop.ticks:
                                            await at_future(t0 + r["at"])
                                        await ws.send(build(r))
                                    obs["produced"] = loop.ticks - t0
                                except Exception as e:
                                    obs.setdefault("write_errors", []).append(type(e).__name__)
                            wtask = asyncio.create_task(producer())
                        else:
                            for r in case.get("reqs", []):
                                loop.at(t0 + r["at"], mk_write(r))
                        try:
                            if canceller:
                                await loop.create_future()  # until cancelled from outside
                            await at_future(t0 + ex["at"])
                            obs["exit_t"] = loop.ticks - t0
                            if ex["k"] == "exception":
                                raise Boom()
                        finally:
                            if wtask is not None and not wtask.done():
                                wtask.cancel()
                except Boom:
                    obs["body_exc"] = True
                except Exception as e:
                    if obs["enter"] is None:
                        obs["enter"] = {"k": "raised", "t": loop.ticks - ts, "exc": type(e).__name__}
                    else:
                        obs["exit_exc"] = type(e).__name__

            async def run():
                current.set(S)
                if idx and case.get("twin_offset"):
                    await at_future(loop.ticks + idx * case["twin_offset"])
                w = case.get("warm")
                for spec in ([None] if w is True else (w or [])):
                    await warm(spec)
                if ex["k"] in ("cancel-asyncio", "cancel-asyncio-twice"):
                    t = asyncio.create_task(session())
                    if ex["k"] == "cancel-asyncio-twice":
                        # a second cancellation while the context is being left
                        def again(n):
                            if n <= 0:
                                t.cancel()
                            else:
                                loop.call_soon(again, n - 1)
                        canceller.append(lambda: (t.cancel(), again(ex.get("hops", 2))))
                    else:
                        canceller.append(t.cancel)
                    try:
                        await t
                    except asyncio.CancelledError:
                        obs["cancelled"] = True
                elif ex["k"] == "cancel-anyio":
                    with anyio.CancelScope() as scope:
                        canceller.append(scope.cancel)
                        await session()
                    obs["cancelled"] = scope.cancelled_caught
                else:
                    await session()
                obs["left_t"] = loop.ticks
            return run

        try:
            runs = [make_session(i, S) for i, S in enumerate(sessions)]
            if len(runs) == 1:
                await runs[0]()
            else:
                await asyncio.gather(*(r() for r in runs))
            # let already-cancelled tasks finish: a few loop turns, no virtual time
            for _ in range(10):
                await asyncio.sleep(0)
            readers = [S["reader_task"] for S in sessions if S.get("reader_task") is not None]
            for S in sessions:
                after = {}
                rt = S.get("reader_task")
                if rt is not None:
                    try:
                        after["reader"] = await asyncio.wait_for(asyncio.shield(rt), timeout=1.0)
                    except asyncio.TimeoutError:
                        after["reader"] = "stuck"
                        rt.cancel()
                    except Exception as e:
                        after["reader"] = "exc:" + type(e).__name__
                S["after"] = after
            leaked = [t for t in asyncio.all_tasks(loop) if t is not me and not t.done() and t not in readers]
            for S in sessions:
                after = S["after"]
                after["tasks"] = sorted(getattr(t.get_coro(), "__qualname__", "?") for t in leaked)
                after["clients_open"] = sum(1 for c in S["clients"] if not c.is_closed)
                after["clients"] = len(S["clients"])
                after["sse_stream_open"] = any(getattr(st, "given", False) and not st.closed for st in S["streams"])
                ws = S.get("ws")
                if ws is not None:
                    try:
                        ws.send_nowait({"jsonrpc": "2.0", "method": "late"})
                        after["write_open"] = True
                    except (anyio.ClosedResourceError, anyio.BrokenResourceError):
                        after["write_open"] = False
                    except anyio.WouldBlock:
                        after["write_open"] = True
                S["obs"]["after"] = after
            for t in leaked:
                t.cancel()
            for S in sessions:
                for c in S["clients"]:
                    if not c.is_closed:
                        try:
                            await c.aclose()
                        except Exception:
                            pass
        finally:
            httpx.AsyncClient = RealClient
        return None

    import httpx as _httpx
    real_client = _httpx.AsyncClient
    restore_logging = _debug_logging() if case.get("debug_log") else None
    obs = sessions[0]["obs"]
    try:
        # the code under test prints tracebacks of swallowed exceptions to stderr
        err = _BrokenStderr() if case.get("stderr") == "broken" else io.TextIOWrapper(io.BytesIO(), encoding="ascii") \
            if case.get("stderr") == "ascii" else io.StringIO()
        with contextlib.redirect_stderr(err):
            dl = guarded_run(main, tie=case.get("tie", "events"))
        if dl is not None:
            # the code under test waits for something that can never happen
            obs["deadlock"] = [x for x in dl if "run_case" not in x]
            for S in sessions:
                S["obs"].pop("after", None)
                S["obs"].pop("left_t", None)
    except BaseException as e:  # harness failure, not an observation
        obs["harness_errors"].append(repr(e)[:300])
    finally:
        _httpx.AsyncClient = real_client
        if restore_logging is not None:
            restore_logging()
    if n_twins > 1:
        obs["twins"] = [{"enter": S["obs"].get("enter"), "delivered": S["obs"].get("delivered"), "posts": len(S["obs"].get("posts", [])),
                         "after": S["obs"].get("after"), "get": S["obs"].get("get")} for S in sessions[1:]]
    return obs
