"""Harness for C12: run the real `sse_client` / `SSETransport` under the virtual-time loop
against a scripted HTTP server reached through `httpx.MockTransport`.

A case (JSON):
  base     parameters.url
  T        parameters.timeout in ticks (1/1024 s)
  tie      "events" | "timers" (order of scripted events vs timers at equal instants)
  conn     {"k": "ok"|"status"|"error"|"hang", "at": tick, "code": int}     GET /sse outcome
  chunks   [[tick, hex], ...]      bytes released on the GET stream at absolute ticks
  bounds   [byte offsets]          ends of complete events in the scripted bytes (a response event is
                                   only written at such a boundary, as a real server would)
  close    tick | null             the server ends the GET stream at that tick
  reqs     [{"id": str, "at": ticks after entering (written to the write stream),
             "post": {"k": "200"|"202"|"status"|"exc", "d": ticks after the POST was received,
                      "code": int, "body": "json"|"text"|"empty"|"rpc"|"detail"},
             "ev": null | {"d": ticks after the POST was received, "cuts": [byte offsets], "gap": ticks}}]
  exit     {"k": "normal"|"exception"|"cancel-asyncio"|"cancel-anyio", "at": ticks after entering}
  pause    ticks after entering during which the consumer does not read the read stream
           (back-pressure: the transport's read buffer fills up); default 0

Everything scripted is injected by the loop (`loop.at`), never by timer tasks.
"""
from __future__ import annotations

import asyncio
import collections
import json

from . import vloop


class Boom(Exception):
    pass


class Deadlock(BaseException):
    pass


class GuardedLoop(vloop.VirtualLoop):
    """VirtualLoop that refuses to block forever: when nothing is runnable, no timer is pending
    and no scripted event is left, nothing can ever happen again (there is no real I/O in these
    runs) — the pending awaits are a deadlock of the code under test."""

    deadlock = None

    def _run_once(self):
        if not self._ready and not self._script and not any(not h._cancelled for h in self._scheduled):
            pend = sorted(getattr(t.get_coro(), "__qualname__", "?") for t in asyncio.all_tasks(self) if not t.done())
            if self.deadlock is None:
                self.deadlock = pend
            raise Deadlock(",".join(pend))
        super()._run_once()


def guarded_run(main, tie="events"):
    import anyio
    holder = {}

    def factory():
        loop = GuardedLoop()
        loop.tie = tie
        holder["loop"] = loop
        return loop
    try:
        anyio.run(main, backend="asyncio", backend_options={"loop_factory": factory})
    except Deadlock:
        pass
    return holder["loop"].deadlock


def rpc_result(rid, tag):
    return {"jsonrpc": "2.0", "id": rid, "result": {"tag": tag}}


def sse_event_bytes(obj, event="message") -> bytes:
    data = json.dumps(obj, separators=(",", ":"), ensure_ascii=False)
    head = f"event: {event}\n" if event else ""
    return (head + f"data: {data}\n\n").encode("utf-8")


def cut_bytes(b: bytes, cuts):
    out, last = [], 0
    for c in sorted(set(cuts)):
        if 0 < c < len(b):
            out.append(b[last:c])
            last = c
    out.append(b[last:])
    return [x for x in out if x != b""] or [b""]


def run_case(case):
    import httpx
    import anyio

    obs = {"posts": [], "delivered": [], "enter": None, "harness_errors": []}
    clients = []
    given = []

    def dump(m):
        if hasattr(m, "model_dump"):
            return m.model_dump(exclude_none=True)
        return m

    async def main():
        from chuk_mcp.transports.sse.sse_client import sse_client
        from chuk_mcp.transports.sse.parameters import SSEParameters

        loop = asyncio.get_running_loop()
        me = asyncio.current_task()

        class ScriptedStream(httpx.AsyncByteStream):
            def __init__(self):
                self.q = collections.deque()
                self.waiter = None
                self.closed = False

            def push(self, item):
                self.q.append(item)
                if self.waiter is not None and not self.waiter.done():
                    self.waiter.set_result(None)

            async def __aiter__(self):
                while True:
                    while not self.q:
                        self.waiter = loop.create_future()
                        await self.waiter
                    item = self.q.popleft()
                    if item is None:
                        return
                    yield item

            async def aclose(self):
                self.closed = True

        sse_stream = ScriptedStream()

        class Writer:
            """The server's single byte stream: scripted (static) chunks are released in order at
            their ticks; a response event (dynamic) is written only between two complete static
            events and is never interleaved with anything else."""

            def __init__(self, bounds):
                self.bounds = set(bounds) | {0}
                self.pos = 0
                self.busy = False
                self.static = collections.deque()
                self.dynamic = collections.deque()

            def release_static(self, b):
                self.static.append(b)
                self.pump()

            def write_event(self, pieces, gap):
                self.dynamic.append((pieces, gap))
                self.pump()

            def pump(self):
                while not self.busy:
                    if self.static and (self.pos not in self.bounds or not self.dynamic):
                        b = self.static.popleft()
                        if b is not None:
                            self.pos += len(b)
                        sse_stream.push(b)
                    elif self.dynamic and self.pos in self.bounds:
                        pieces, gap = self.dynamic.popleft()
                        self.busy = True
                        now = loop.ticks
                        for i, piece in enumerate(pieces):
                            last = i == len(pieces) - 1
                            if i == 0:
                                sse_stream.push(piece)
                                if last:
                                    self.busy = False
                            else:
                                loop.at(now + i * gap, self._piece(piece, last))
                    else:
                        return

            def _piece(self, piece, last):
                def f():
                    sse_stream.push(piece)
                    if last:
                        self.busy = False
                        self.pump()
                return f

        writer = Writer(case.get("bounds", []))
        conn = case.get("conn") or {"k": "ok", "at": 0}
        reqs = {r["id"]: r for r in case.get("reqs", [])}

        def at_future(tick):
            f = loop.create_future()

            def fire():
                if not f.done():
                    f.set_result(None)
            loop.at(max(tick, loop.ticks), fire)
            return f

        async def handler(request: "httpx.Request"):
            if request.method == "GET":
                obs["get"] = [loop.ticks, str(request.url)]
                if conn["k"] == "hang":
                    await loop.create_future()
                await at_future(conn.get("at", 0))
                if conn["k"] == "error":
                    raise httpx.ConnectError("scripted connect error", request=request)
                if conn["k"] == "status":
                    return httpx.Response(conn["code"], text="scripted status")
                for tick, hx in case.get("chunks", []):
                    loop.at(max(tick, loop.ticks), (lambda b: (lambda: writer.release_static(b)))(bytes.fromhex(hx)))
                if case.get("close") is not None:
                    loop.at(max(case["close"], loop.ticks), lambda: writer.release_static(None))
                given.append(loop.ticks)
                return httpx.Response(200, headers={"content-type": "text/event-stream"}, stream=sse_stream)
            # POST
            try:
                body = json.loads(request.content.decode("utf-8"))
            except Exception:
                body = None
            rid = body.get("id") if isinstance(body, dict) else None
            obs["posts"].append([loop.ticks, str(request.url), rid, (body or {}).get("method")])
            r = reqs.get(rid) if isinstance(rid, str) else None
            if r is None:
                return httpx.Response(202, text="Accepted")
            now = loop.ticks
            ev = r.get("ev")
            post = r["post"]

            def sched_event():
                if ev is not None:
                    data = sse_event_bytes(rpc_result(rid, "ev"), "message" if ev.get("typed", True) else None)
                    pieces = cut_bytes(data, ev.get("cuts", []))
                    loop.at(now + ev["d"], lambda: writer.write_event(pieces, ev.get("gap", 0)))
            if ev is not None and ev.get("after_post_at_tie"):
                done = at_future(now + post["d"])
                sched_event()
            else:
                sched_event()
                done = at_future(now + post["d"])
            await done
            k = post["k"]
            if k == "exc":
                raise httpx.ReadError("scripted POST failure", request=request)
            if k == "200":
                return httpx.Response(200, json=rpc_result(rid, "body"))
            if k == "202":
                return httpx.Response(202, text="Accepted")
            code = post.get("code", 500)
            b = post.get("body", "text")
            if b == "empty":
                return httpx.Response(code)
            if b == "text":
                return httpx.Response(code, text="Internal Server Error")
            if b == "detail":
                return httpx.Response(code, json={"detail": "Internal Server Error"})
            if b == "rpc":
                return httpx.Response(code, json={"jsonrpc": "2.0", "id": rid, "error": {"code": -32001, "message": "scripted"}})
            return httpx.Response(code, text=str(b))

        RealClient = httpx.AsyncClient

        class PatchedClient(RealClient):
            def __init__(self, *a, **k):
                k["transport"] = httpx.MockTransport(handler)
                super().__init__(*a, **k)
                clients.append(self)

        httpx.AsyncClient = PatchedClient
        reader_task = None
        canceller = []
        ex = case.get("exit") or {"k": "normal", "at": 0}

        async def reader(rs, start):
            try:
                if start > loop.ticks:
                    await at_future(start)
                async for m in rs:
                    obs["delivered"].append(dump(m))
                return "end"
            except anyio.ClosedResourceError:
                return "closed"

        async def session():
            nonlocal reader_task
            params = SSEParameters(url=case.get("base", "http://h.test"), timeout=case["T"] * vloop.TICK)
            try:
                async with sse_client(params) as (rs, ws):
                    obs["enter"] = {"k": "yielded", "t": loop.ticks}
                    obs["rs"], obs["ws"] = rs, ws
                    reader_task = asyncio.create_task(reader(rs, loop.ticks + case.get("pause", 0)))

                    def mk_write(r):
                        def f():
                            try:
                                msg = {"jsonrpc": "2.0", "method": r.get("method", "tools/list")}
                                if r.get("id") is not None:
                                    msg["id"] = r["id"]
                                ws.send_nowait(msg)
                            except Exception as e:  # closed already: the request is simply not sent
                                obs.setdefault("write_errors", []).append(type(e).__name__)
                        return f
                    t0 = loop.ticks
                    if canceller:
                        loop.at(t0 + ex["at"], canceller[0])
                    for r in case.get("reqs", []):
                        loop.at(t0 + r["at"], mk_write(r))
                    if canceller:
                        await loop.create_future()  # until cancelled from outside
                    await at_future(t0 + ex["at"])
                    obs["exit_t"] = loop.ticks
                    if ex["k"] == "exception":
                        raise Boom()
            except Boom:
                obs["body_exc"] = True
            except Exception as e:
                if obs["enter"] is None:
                    obs["enter"] = {"k": "raised", "t": loop.ticks, "exc": type(e).__name__}
                else:
                    obs["exit_exc"] = type(e).__name__

        try:
            if ex["k"] == "cancel-asyncio":
                t = asyncio.create_task(session())
                canceller.append(t.cancel)
                try:
                    await t
                except asyncio.CancelledError:
                    obs["cancelled"] = True
            elif ex["k"] == "cancel-anyio":
                with anyio.CancelScope() as scope:
                    canceller.append(scope.cancel)
                    await session()
                obs["cancelled"] = scope.cancelled_caught
            else:
                await session()
            obs["left_t"] = loop.ticks
            # let already-cancelled tasks finish: a few loop turns, no virtual time
            for _ in range(10):
                await asyncio.sleep(0)
            after = {}
            if reader_task is not None:
                try:
                    after["reader"] = await asyncio.wait_for(asyncio.shield(reader_task), timeout=1.0)
                except asyncio.TimeoutError:
                    after["reader"] = "stuck"
                    reader_task.cancel()
                except Exception as e:
                    after["reader"] = "exc:" + type(e).__name__
            leaked = [t for t in asyncio.all_tasks(loop) if t is not me and not t.done() and t is not reader_task]
            after["tasks"] = sorted(getattr(t.get_coro(), "__qualname__", "?") for t in leaked)
            after["clients_open"] = sum(1 for c in clients if not c.is_closed)
            after["clients"] = len(clients)
            after["sse_stream_open"] = bool(given) and not sse_stream.closed
            ws = obs.get("ws")
            if ws is not None:
                try:
                    ws.send_nowait({"jsonrpc": "2.0", "method": "late"})
                    after["write_open"] = True
                except (anyio.ClosedResourceError, anyio.BrokenResourceError):
                    after["write_open"] = False
                except anyio.WouldBlock:
                    after["write_open"] = True
            obs["after"] = after
            for t in leaked:
                t.cancel()
            for c in clients:
                if not c.is_closed:
                    try:
                        await c.aclose()
                    except Exception:
                        pass
        finally:
            httpx.AsyncClient = RealClient
            obs.pop("rs", None)
            obs.pop("ws", None)

        return None

    import httpx as _httpx
    real_client = _httpx.AsyncClient
    try:
        dl = guarded_run(main, tie=case.get("tie", "events"))
        if dl is not None:
            # the code under test waits for something that can never happen
            obs["deadlock"] = [x for x in dl if "run_case" not in x]
            obs.pop("after", None)
            obs.pop("left_t", None)
    except BaseException as e:  # harness failure, not an observation
        obs["harness_errors"].append(repr(e)[:300])
    finally:
        _httpx.AsyncClient = real_client
        obs.pop("rs", None)
        obs.pop("ws", None)
    return obs
