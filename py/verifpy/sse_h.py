"""Harness for C12: run the real `sse_client` / `SSETransport` under the virtual-time loop
against a scripted HTTP server reached through `httpx.MockTransport`.

A case (JSON):
  base     parameters.url
  T        parameters.timeout in ticks (1/1024 s)
  tie      "events" | "timers" (order of scripted events vs timers at equal instants)
  conn     {"k": "ok"|"status"|"error"|"hang", "at": tick, "code": int}     GET /sse outcome
  chunks   [[tick, hex], ...]      bytes released on the GET stream at absolute ticks
  close    tick | null             the server ends the GET stream at that tick
  reqs     [{"id": str, "at": tick (written to the write stream),
             "post": {"k": "200"|"202"|"status"|"exc", "d": ticks after the POST was received,
                      "code": int, "body": "json"|"text"|"empty"|"rpc"|"detail"},
             "ev": null | {"d": ticks after the POST was received, "cuts": [byte offsets], "gap": ticks}}]
  exit     {"k": "normal"|"exception"|"cancel-asyncio"|"cancel-anyio", "at": tick}

Everything scripted is injected by the loop (`loop.at`), never by timer tasks.
"""
from __future__ import annotations

import asyncio
import collections
import json

from . import vloop


class Boom(Exception):
    pass


def rpc_result(rid, tag):
    return {"jsonrpc": "2.0", "id": rid, "result": {"tag": tag}}


def sse_event_bytes(obj, event="message") -> bytes:
    data = json.dumps(obj, separators=(",", ":"), ensure_ascii=False)
    head = f"event: {event}\n" if event else ""
    return (head + f"data: {data}\n\n").encode("utf-8")


def cut_bytes(b: bytes, cuts):
    out, last = [], 0
    for c in sorted(set(cuts)):
        if 0 < c < len(b):
            out.append(b[last:c])
            last = c
    out.append(b[last:])
    return [x for x in out if x != b""] or [b""]


def run_case(case):
    import httpx
    import anyio

    obs = {"posts": [], "delivered": [], "enter": None, "harness_errors": []}
    clients = []
    streams = []
    given = []

    def dump(m):
        if hasattr(m, "model_dump"):
            return m.model_dump(exclude_none=True)
        return m

    async def main():
        from chuk_mcp.transports.sse.sse_client import sse_client
        from chuk_mcp.transports.sse.parameters import SSEParameters

        loop = asyncio.get_running_loop()
        me = asyncio.current_task()

        class ScriptedStream(httpx.AsyncByteStream):
            def __init__(self):
                self.q = collections.deque()
                self.waiter = None
                self.closed = False
                streams.append(self)

            def push(self, item):
                self.q.append(item)
                if self.waiter is not None and not self.waiter.done():
                    self.waiter.set_result(None)

            async def __aiter__(self):
                while True:
                    while not self.q:
                        self.waiter = loop.create_future()
                        await self.waiter
                    item = self.q.popleft()
                    if item is None:
                        return
                    yield item

            async def aclose(self):
                self.closed = True

        sse_stream = ScriptedStream()
        conn = case.get("conn") or {"k": "ok", "at": 0}
        reqs = {r["id"]: r for r in case.get("reqs", [])}

        def at_future(tick):
            f = loop.create_future()

            def fire():
                if not f.done():
                    f.set_result(None)
            loop.at(max(tick, loop.ticks), fire)
            return f

        async def handler(request: "httpx.Request"):
            if request.method == "GET":
                obs["get"] = [loop.ticks, str(request.url)]
                if conn["k"] == "hang":
                    await loop.create_future()
                await at_future(conn.get("at", 0))
                if conn["k"] == "error":
                    raise httpx.ConnectError("scripted connect error", request=request)
                if conn["k"] == "status":
                    return httpx.Response(conn["code"], text="scripted status")
                for tick, hx in case.get("chunks", []):
                    loop.at(max(tick, loop.ticks), (lambda b: (lambda: sse_stream.push(b)))(bytes.fromhex(hx)))
                if case.get("close") is not None:
                    loop.at(max(case["close"], loop.ticks), lambda: sse_stream.push(None))
                given.append(loop.ticks)
                return httpx.Response(200, headers={"content-type": "text/event-stream"}, stream=sse_stream)
            # POST
            try:
                body = json.loads(request.content.decode("utf-8"))
            except Exception:
                body = None
            rid = body.get("id") if isinstance(body, dict) else None
            obs["posts"].append([loop.ticks, str(request.url), rid, (body or {}).get("method")])
            r = reqs.get(rid) if isinstance(rid, str) else None
            if r is None:
                return httpx.Response(202, text="Accepted")
            now = loop.ticks
            ev = r.get("ev")
            if ev is not None:
                data = sse_event_bytes(rpc_result(rid, "ev"), ev.get("event", "message"))
                pieces = cut_bytes(data, ev.get("cuts", []))
                for i, piece in enumerate(pieces):
                    loop.at(now + ev["d"] + i * ev.get("gap", 0), (lambda b: (lambda: sse_stream.push(b)))(piece))
            post = r["post"]
            await at_future(now + post["d"])
            k = post["k"]
            if k == "exc":
                raise httpx.ReadError("scripted POST failure", request=request)
            if k == "200":
                return httpx.Response(200, json=rpc_result(rid, "body"))
            if k == "202":
                return httpx.Response(202, text="Accepted")
            code = post.get("code", 500)
            b = post.get("body", "text")
            if b == "empty":
                return httpx.Response(code)
            if b == "text":
                return httpx.Response(code, text="Internal Server Error")
            if b == "detail":
                return httpx.Response(code, json={"detail": "Internal Server Error"})
            if b == "rpc":
                return httpx.Response(code, json={"jsonrpc": "2.0", "id": rid, "error": {"code": -32001, "message": "scripted"}})
            return httpx.Response(code, text=str(b))

        RealClient = httpx.AsyncClient

        class PatchedClient(RealClient):
            def __init__(self, *a, **k):
                k["transport"] = httpx.MockTransport(handler)
                super().__init__(*a, **k)
                clients.append(self)

        httpx.AsyncClient = PatchedClient
        reader_task = None
        ex = case.get("exit") or {"k": "normal", "at": 0}

        async def reader(rs):
            try:
                async for m in rs:
                    obs["delivered"].append(dump(m))
                return "end"
            except anyio.ClosedResourceError:
                return "closed"

        async def session():
            nonlocal reader_task
            params = SSEParameters(url=case.get("base", "http://h.test"), timeout=case["T"] * vloop.TICK)
            try:
                async with sse_client(params) as (rs, ws):
                    obs["enter"] = {"k": "yielded", "t": loop.ticks}
                    obs["rs"], obs["ws"] = rs, ws
                    reader_task = asyncio.create_task(reader(rs))

                    def writer(r):
                        def f():
                            try:
                                msg = {"jsonrpc": "2.0", "method": r.get("method", "tools/list")}
                                if r.get("id") is not None:
                                    msg["id"] = r["id"]
                                ws.send_nowait(msg)
                            except Exception as e:  # closed already: the request is simply not sent
                                obs.setdefault("write_errors", []).append(type(e).__name__)
                        return f
                    for r in case.get("reqs", []):
                        loop.at(max(r["at"], loop.ticks), writer(r))
                    await at_future(ex["at"])
                    obs["exit_t"] = loop.ticks
                    if ex["k"] == "exception":
                        raise Boom()
            except Boom:
                obs["body_exc"] = True
            except Exception as e:
                if obs["enter"] is None:
                    obs["enter"] = {"k": "raised", "t": loop.ticks, "exc": type(e).__name__}
                else:
                    obs["exit_exc"] = type(e).__name__

        try:
            if ex["k"] == "cancel-asyncio":
                t = asyncio.create_task(session())
                loop.at(ex["at"], t.cancel)
                try:
                    await t
                except asyncio.CancelledError:
                    obs["cancelled"] = True
            elif ex["k"] == "cancel-anyio":
                with anyio.CancelScope() as scope:
                    loop.at(ex["at"], scope.cancel)
                    await session()
                obs["cancelled"] = scope.cancelled_caught
            else:
                await session()
            obs["left_t"] = loop.ticks
            # let already-cancelled tasks finish: a few loop turns, no virtual time
            for _ in range(10):
                await asyncio.sleep(0)
            after = {}
            if reader_task is not None:
                try:
                    after["reader"] = await asyncio.wait_for(asyncio.shield(reader_task), timeout=1.0)
                except asyncio.TimeoutError:
                    after["reader"] = "stuck"
                    reader_task.cancel()
                except Exception as e:
                    after["reader"] = "exc:" + type(e).__name__
                # whatever is still buffered
            leaked = [t for t in asyncio.all_tasks(loop) if t is not me and not t.done() and t is not reader_task]
            after["tasks"] = sorted(getattr(t.get_coro(), "__qualname__", "?") for t in leaked)
            after["clients_open"] = sum(1 for c in clients if not c.is_closed)
            after["clients"] = len(clients)
            after["sse_stream_open"] = bool(given) and not sse_stream.closed
            ws = obs.get("ws")
            if ws is not None:
                try:
                    ws.send_nowait({"jsonrpc": "2.0", "method": "late"})
                    after["write_open"] = True
                except (anyio.ClosedResourceError, anyio.BrokenResourceError):
                    after["write_open"] = False
                except anyio.WouldBlock:
                    after["write_open"] = True
            obs["after"] = after
            for t in leaked:
                t.cancel()
            for c in clients:
                if not c.is_closed:
                    try:
                        await c.aclose()
                    except Exception:
                        pass
        finally:
            httpx.AsyncClient = RealClient
            obs.pop("rs", None)
            obs.pop("ws", None)

        return None

    try:
        vloop.run(main, tie=case.get("tie", "events"))
    except BaseException as e:  # harness failure, not an observation
        obs["harness_errors"].append(repr(e)[:300])
    return obs
