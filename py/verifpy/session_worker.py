"""Worker of C19 for a share of the session histories: the same harness (session_h.run_case) in a
separate interpreter started with `-O` (PYTHONOPTIMIZE: `assert` statements and `if __debug__`
blocks of the code under test do not run — a host may well run the server that way).

stdin: JSON list of cases; stdout: JSON list of observations, in order."""
from __future__ import annotations

import json
import logging
import sys


def main():
    logging.disable(logging.CRITICAL)
    from . import core, session_h

    core.use_repo_source()
    cases = json.load(sys.stdin)
    out = []
    for c in cases:
        try:
            out.append(session_h.run_case(c))
        except Exception as ex:  # never lose the batch
            out.append({"steps": [], "harness_error": f"worker: {type(ex).__name__}: {ex}"[:300], "issued": 0, "distinct_ids": 0})
    json.dump({"optimized": not __debug__, "obs": out}, sys.stdout)


if __name__ == "__main__":
    main()
