"""Harness for C02: drive every emitter of the library, observe what it emits on the wire and
what the library's own `parse_message` makes of it.

* `discover()` walks the package (functions, class methods, handler methods, and — by AST — every
  dict literal with a "jsonrpc" key) and names every emitter it finds.
* `DRIVERS` knows how to drive each name.  A discovered name without a driver is reported by the
  check as a broken correspondence, so a new emitter cannot slip by unnoticed.
* `run_case(case)` executes one emitter call on the real code and returns a JSON-able observation:
  the emitted objects in their wire forms and the member view of `parse_message(wire)`.

Everything here is importable in a worker process (thorough tier: `MCP_FORCE_FALLBACK=1`).
"""
from __future__ import annotations

import ast
import copy
import importlib
import inspect
import math
import pkgutil

from . import core
from . import json_h as J

ENVELOPES = ("JSONRPCRequest", "JSONRPCNotification", "JSONRPCResponse", "JSONRPCError", "JSONRPCMessage")


# ---------------------------------------------------------------------------------------------
# observation helpers
# ---------------------------------------------------------------------------------------------
def s_(cps):
    """code points (or the compact {"srep": [unit, n]} form of a long repetitive text) -> str"""
    return J.key_str(cps)


def idval(t):
    """transport id -> Python id (None | int | str)"""
    return None if t is None else J.to_py(t)


def view_of(p):
    """members of a parsed message as callers read them"""
    out = {}
    for k in ("id", "method", "params", "result", "error"):
        v = getattr(p, k, None)
        try:
            out[k] = None if v is None else {"v": J.of_py(v)}
        except TypeError as ex:
            out[k] = {"unjsonable": type(v).__name__}
    out["cls"] = type(p).__name__
    return out


def parse_view(wire):
    from chuk_mcp.protocol.messages.json_rpc_message import parse_message

    try:
        p = parse_message(copy.deepcopy(wire))
    except Exception as ex:  # noqa: BLE001
        return {"exc": type(ex).__name__}
    if isinstance(p, list):
        return {"exc": "list"}
    return {"view": view_of(p)}


def wire_forms(m):
    """the forms in which the transports put an emitted object on the wire:
    `dump` = model_dump(exclude_none=True) (HTTP / SSE: httpx `json=`), `json` = the text of
    model_dump_json(exclude_none=True) (stdio) decoded again; a dict is sent as it is."""
    from chuk_mcp.protocol import fast_json
    import json as exact  # the harness's own, type-exact reader (integers of any size stay integers)

    out = {"src": type(m).__name__}
    if isinstance(m, dict):
        forms = {"dump": m}
        try:
            forms["json"] = exact.loads(fast_json.dumps(m))
        except Exception as ex:  # noqa: BLE001
            out["json_exc"] = type(ex).__name__
    else:
        # the members the message object itself holds (what was constructed)
        out["obj"] = view_of(m)
        forms = {}
        try:
            forms["dump"] = m.model_dump(exclude_none=True)
        except Exception as ex:  # noqa: BLE001
            out["dump_exc"] = type(ex).__name__
        try:
            forms["json"] = exact.loads(m.model_dump_json(exclude_none=True))
        except Exception as ex:  # noqa: BLE001
            out["json_exc"] = type(ex).__name__
        if "dump" in forms:
            # the stdio writer's two-pass path: json.dumps(model_dump(exclude_none=True))
            try:
                forms["dumpjson"] = exact.loads(fast_json.dumps(forms["dump"]))
            except Exception as ex:  # noqa: BLE001
                out["dumpjson_exc"] = type(ex).__name__
    for k, w in forms.items():
        try:
            out[k] = {"wire": J.of_py(w), "parse": parse_view(w)}
        except TypeError as ex:
            out[k] = {"unjsonable": str(ex)[:80]}
    return out


def restate_check(m):
    """serialise, change the message (a nested container in place; model_copy(update=…); attribute assignment), serialise
    again: model_dump_json must describe the state model_dump describes.  Works on a deep copy that carries over whatever
    the first serialisation left on the object."""
    from chuk_mcp.protocol import fast_json

    if isinstance(m, dict) or not hasattr(m, "model_dump_json"):
        return None
    out = {}

    import json as exact

    def agree(x):
        return J.of_py(exact.loads(x.model_dump_json(exclude_none=True))) == J.of_py(x.model_dump(exclude_none=True))

    try:
        m.model_dump_json(exclude_none=True)
        c = copy.deepcopy(m)
        touched = False
        for k in ("params", "result", "error"):
            v = getattr(c, k, None)
            if isinstance(v, dict):
                v["edited-in-place"] = {"n": [None, 2]}
                touched = True
            elif isinstance(v, list):
                v.append("edited-in-place")
                touched = True
        if touched:
            out["nested"] = agree(c)
        if hasattr(m, "model_copy") and getattr(m, "id", None) is not None:
            c2 = m.model_copy(update={"id": "other-id"})
            out["model_copy"] = agree(c2) and exact.loads(c2.model_dump_json(exclude_none=True)).get("id") == "other-id"
        c3 = copy.deepcopy(m)
        if getattr(c3, "method", None) is not None:
            c3.method = "reassigned"
            out["setattr"] = agree(c3)
    except Exception as ex:  # noqa: BLE001
        out["exc"] = type(ex).__name__
    return out


def observe(emitted, raised=None):
    o = {"raised": raised, "emitted": [wire_forms(m) for m in emitted]}
    for e, m in zip(o["emitted"], emitted):
        r = restate_check(m)
        if r:
            e["restate"] = r
    if _EMITTED_HOOK is not None:
        _EMITTED_HOOK(list(emitted))  # after the wire forms were taken
    return o


# ---------------------------------------------------------------------------------------------
# running coroutines that write to a memory stream
# ---------------------------------------------------------------------------------------------
def run_async(fn, tie="events", at=()):
    """run `await fn(read_stream, write_stream)` under the virtual-time loop (timeouts cost
    nothing); `at` = [(tick, callable)] scripted events; returns (objects written, exception name or None)"""
    import anyio

    from . import vloop

    box = {"w": [], "exc": None}

    async def main():
        import asyncio

        in_send, in_recv = anyio.create_memory_object_stream(math.inf)
        out_send, out_recv = anyio.create_memory_object_stream(math.inf)
        loop = asyncio.get_running_loop()
        for tick, f in at:
            loop.at(tick, f)
        try:
            await fn(in_recv, out_send)
        except BaseException as ex:  # noqa: BLE001
            if isinstance(ex, (KeyboardInterrupt, SystemExit)):
                raise
            box["exc"] = type(ex).__name__
        while True:
            try:
                box["w"].append(out_recv.receive_nowait())
            except Exception:  # noqa: BLE001
                break

    vloop.run(main, tie=tie)
    return box["w"], box["exc"]


# ---------------------------------------------------------------------------------------------
# discovery
# ---------------------------------------------------------------------------------------------
def _ret_is_envelope(f):
    try:
        ann = inspect.signature(f).return_annotation
    except (TypeError, ValueError):
        return False
    name = getattr(ann, "__name__", None) or str(ann)
    return any(e in str(name) for e in ENVELOPES)


def _qualname(node, parents):
    p, qual = node, []
    while p in parents:
        p = parents[p]
        if isinstance(p, (ast.FunctionDef, ast.AsyncFunctionDef, ast.ClassDef)):
            qual.append(p.name)
    return ".".join(reversed(qual))


def _enclosing_function(node, parents):
    p = node
    while p in parents:
        p = parents[p]
        if isinstance(p, (ast.FunctionDef, ast.AsyncFunctionDef)):
            return p
    return None


class _Subst(ast.NodeTransformer):
    def __init__(self, binding):
        self.binding = binding

    def visit_Name(self, node):
        if isinstance(node.ctx, ast.Load) and node.id in self.binding:
            return copy.deepcopy(self.binding[node.id])
        return node


def _local_names(node, parents):
    """parameters and names bound inside the functions that enclose `node`: the only names of a literal that
    are HOLES (everything else must resolve in the real module's globals or builtins)"""
    out = set()
    p = node
    while p in parents:
        p = parents[p]
        if isinstance(p, (ast.FunctionDef, ast.AsyncFunctionDef, ast.Lambda)):
            a = p.args
            for x in a.posonlyargs + a.args + a.kwonlyargs + ([a.vararg] if a.vararg else []) + ([a.kwarg] if a.kwarg else []):
                out.add(x.arg)
            if not isinstance(p, ast.Lambda):
                for n in ast.walk(p):
                    if isinstance(n, ast.Name) and isinstance(n.ctx, ast.Store):
                        out.add(n.id)
                    elif isinstance(n, ast.ExceptHandler) and n.name:
                        out.add(n.name)
                    elif isinstance(n, ast.alias) and isinstance(parents.get(n), (ast.Import, ast.ImportFrom)) and parents.get(n) is not None \
                            and _enclosing_function(parents[n], parents) is not None:
                        pass  # function-level imports resolve at run time; handled by the driver
        elif isinstance(p, (ast.ListComp, ast.SetComp, ast.DictComp, ast.GeneratorExp)):
            for g in p.generators:
                for n in ast.walk(g.target):
                    if isinstance(n, ast.Name):
                        out.add(n.id)
    return out


def _inline_at_call_sites(lit, fn, tree, parents):
    """A dict literal inside a PRIVATE builder function (`_error_message(id, code, text)`) whose free names
    are that function's parameters: for every call of the builder in the same file, the literal with the
    parameters replaced by the call's argument expressions -> [(caller qualname, substituted literal)].
    Empty when the literal does not depend on parameters, the function is public, or a call cannot be
    bound (star-args etc.)."""
    if fn is None or not fn.name.startswith("_"):
        return []
    a = fn.args
    if a.vararg or a.kwarg:
        return []
    params = [x.arg for x in a.posonlyargs + a.args]
    kwonly = [x.arg for x in a.kwonlyargs]
    used = {n.id for n in ast.walk(lit) if isinstance(n, ast.Name)}
    if not used & set(params + kwonly):
        return []
    is_static = any(isinstance(d, ast.Name) and d.id == "staticmethod" for d in fn.decorator_list)
    in_class = isinstance(parents.get(fn), ast.ClassDef)
    defaults = dict(zip(params[len(params) - len(a.defaults):], a.defaults))
    defaults.update({k: d for k, d in zip(kwonly, a.kw_defaults) if d is not None})
    out = []
    for call in ast.walk(tree):
        if not isinstance(call, ast.Call):
            continue
        f = call.func
        via_attr = isinstance(f, ast.Attribute) and f.attr == fn.name
        if not (via_attr or (isinstance(f, ast.Name) and f.id == fn.name)):
            continue
        if any(isinstance(x, ast.Starred) for x in call.args) or any(k.arg is None for k in call.keywords):
            return []
        formal = list(params)
        if in_class and not is_static and via_attr and formal:
            formal = formal[1:]  # bound method: self / cls is supplied by the receiver
        if len(call.args) > len(formal):
            return []
        binding = dict(zip(formal, call.args))
        for k in call.keywords:
            binding[k.arg] = k.value
        for name in formal + kwonly:
            if name not in binding:
                if name in defaults:
                    binding[name] = defaults[name]
                else:
                    return []
        node = ast.fix_missing_locations(_Subst(binding).visit(copy.deepcopy(lit)))
        out.append((_qualname(call, parents), node, _local_names(call, parents)))
    return out


def literal_sites():
    """every dict literal with a "jsonrpc" key in the package: (name, node, source path).  A literal in a
    private builder function is taken once per call of the builder, with the call's arguments inlined."""
    root = core.REPO / "src" / "chuk_mcp"
    out = []
    for f in sorted(root.rglob("*.py")):
        try:
            tree = ast.parse(f.read_text())
        except SyntaxError:
            continue
        parents = {}
        for n in ast.walk(tree):
            for c in ast.iter_child_nodes(n):
                parents[c] = n
        found = []
        for n in ast.walk(tree):
            if isinstance(n, ast.Dict) and any(isinstance(k, ast.Constant) and k.value == "jsonrpc" for k in n.keys):
                qual = _qualname(n, parents)
                inlined = _inline_at_call_sites(n, _enclosing_function(n, parents), tree, parents)
                variants = [(f"{qual}<-{caller}", node, loc) for caller, node, loc in inlined] or [(qual, n, _local_names(n, parents))]
                for q, node, loc in variants:
                    keys = "+".join(sorted(str(k.value) for k in node.keys if isinstance(k, ast.Constant) and k.value != "jsonrpc"))
                    found.append((getattr(node, "lineno", n.lineno), q, keys, node, loc))
        found.sort(key=lambda t: (t[1], t[0]))
        counts = {}
        for _, qual, keys, node, loc in found:
            k = counts[(qual, keys)] = counts.get((qual, keys), 0) + 1
            rel = str(f.relative_to(root))
            node._verif_locals = loc
            out.append((f"literal:{rel}:{qual}:{keys}:{k}", node, f))
    return out


def discover():
    """names of all emitters found in the package"""
    names = []
    import chuk_mcp.protocol.messages as M

    for mi in pkgutil.walk_packages(M.__path__, M.__name__ + "."):
        try:
            mod = importlib.import_module(mi.name)
        except Exception:  # noqa: BLE001
            names.append("unimportable:" + mi.name)
            continue
        rel = mod.__name__[len(M.__name__) + 1:]
        for n, f in sorted(vars(mod).items()):
            if inspect.isfunction(f) and f.__module__ == mod.__name__:
                params = inspect.signature(f).parameters
                if n.startswith("_"):
                    continue  # private helper: reached through the public emitters that call it
                if inspect.iscoroutinefunction(f) and "write_stream" in params:
                    names.append(f"{rel}.{n}")
                elif n.startswith("create_") and _ret_is_envelope(f):
                    names.append(f"{rel}.{n}")
                elif _ret_is_envelope(f) and n != "parse_message":
                    names.append(f"{rel}.{n}")  # e.g. handle_roots_list_request: builds the answer to a server request
            elif inspect.isclass(f) and f.__module__ == mod.__name__ and f.__name__ not in ENVELOPES and not f.__name__.startswith("_"):
                holds_stream = "write_stream" in inspect.signature(f.__init__).parameters if "__init__" in vars(f) else False
                for mn, mf in sorted(vars(f).items()):
                    if inspect.isfunction(mf) and not mn.startswith("_") and (holds_stream or _ret_is_envelope(mf)):
                        names.append(f"{rel}.{f.__name__}.{mn}")
            elif inspect.isclass(f) and f.__module__ == mod.__name__ and f.__name__ in ENVELOPES:
                for mn, mf in sorted(vars(f).items()):
                    if mn.startswith("create_") and isinstance(mf, (classmethod, staticmethod)):
                        names.append(f"{rel}.{f.__name__}.{mn}")
    from chuk_mcp.server.protocol_handler import ProtocolHandler
    from chuk_mcp.server.server import MCPServer
    from chuk_mcp.protocol.features.batching import BatchProcessor

    for cls in (ProtocolHandler, MCPServer):
        for mn, mf in sorted(vars(cls).items()):
            if inspect.isfunction(mf) and not mn.startswith("_") and (mn.startswith("create_") or mn == "handle_message"):
                names.append(f"server.{cls.__name__}.{mn}")
    # the methods a server answers: read from the registries of fresh instances (the public surface of
    # the handlers; private `_handle_*` helpers are reached through them)
    names += [f"server.{cls}.method:{m}" for cls, m in registered_methods()]
    for mn, mf in sorted(vars(BatchProcessor).items()):
        if inspect.isfunction(mf) and mn.startswith("create_"):
            names.append(f"batching.BatchProcessor.{mn}")
    m = _msg_mod()
    for attr in ("to_specific_type", "from_specific_type"):
        if hasattr(getattr(m, "JSONRPCMessage", None), attr):
            names.append(f"json_rpc_message.JSONRPCMessage.{attr}")
    if hasattr(m, "JSONRPCMessageWrapper"):
        names.append("json_rpc_message.JSONRPCMessageWrapper")
    names += [n for n, _, _ in literal_sites()]
    # scenarios on shared objects (not emitters of their own: sequences of the emitters above)
    names += ["seq:shared-params", "seq:handler-reuse", "seq:batch-reuse", "seq:twins"]
    names += ["transport:stdio-writer", "transport:http-post", "transport:sse-post"]
    return names


ANCHORED = ["protocol/messages/json_rpc_message.py", "protocol/messages/send_message.py", "protocol/messages/notifications.py",
            "protocol/messages/message_method.py", "server/protocol_handler.py", "server/server.py", "protocol/features/batching.py",
            "protocol/fast_json.py", "transports/stdio/stdio_client.py", "transports/http/transport.py", "transports/sse/transport.py",
            "protocol/types/errors.py"]


def harvest_constants():
    """string and integer constants of the anchored modules (magic values to feed back as inputs)"""
    strs, ints = set(), set()
    root = core.REPO / "src" / "chuk_mcp"
    for rel in ANCHORED:
        try:
            tree = ast.parse((root / rel).read_text())
        except (OSError, SyntaxError):
            continue
        doc = {id(n.body[0].value) for n in ast.walk(tree)
               if isinstance(n, (ast.Module, ast.ClassDef, ast.FunctionDef, ast.AsyncFunctionDef)) and n.body
               and isinstance(n.body[0], ast.Expr) and isinstance(n.body[0].value, ast.Constant)}
        for n in ast.walk(tree):
            if isinstance(n, ast.Constant) and id(n) not in doc:
                if isinstance(n.value, str) and 0 < len(n.value) <= 48 and "\n" not in n.value:
                    strs.add(n.value)
                elif type(n.value) is int and abs(n.value) < 2 ** 63:
                    ints.add(n.value)
    extra = set()
    for v in list(strs)[:]:
        if v.isidentifier() or "/" in v:
            extra |= {v.upper(), v.capitalize(), v + " ", " " + v, v + "s"}
    return sorted(strs), sorted(extra - strs), sorted(ints)


def registered_methods():
    """(class name, method) for every method registered on a fresh ProtocolHandler / MCPServer"""
    from chuk_mcp.server.server import MCPServer

    out = []
    try:
        core_methods = sorted(getattr(_handler(), "_handlers", {}) or {})
    except Exception:  # noqa: BLE001
        core_methods = []
    out += [("ProtocolHandler", m) for m in core_methods]
    try:
        srv = MCPServer("verif")
        reg = getattr(getattr(srv, "protocol_handler", None), "_handlers", {}) or {}
        out += [("MCPServer", m) for m in sorted(reg) if m not in core_methods]
    except Exception:  # noqa: BLE001
        pass
    return out


# ---------------------------------------------------------------------------------------------
# drivers
# ---------------------------------------------------------------------------------------------
def _msg_mod():
    from chuk_mcp.protocol.messages import json_rpc_message as m

    return m


def method_of(a):
    """the method argument: a plain string, or (args["method_enum"]) the MessageMethod member of that name"""
    if a.get("method_enum"):
        from chuk_mcp.protocol.messages.message_method import MessageMethod

        return MessageMethod[a["method_enum"]]
    return s_(a["method"])


def _obj(t):
    return None if t is None else J.to_py(t)


def d_create_request(a):
    m = _msg_mod()
    kw = {}
    if a.get("tok") is not None:
        kw["progress_token"] = idval(a["tok"])
    return [m.create_request(method_of(a), copy.deepcopy(_obj(a.get("params"))), id=idval(a.get("id")), **kw)]


def _caller(before, after):
    """what happened to the dict the caller handed in (observed, informational)"""
    try:
        return {"caller_before": None if before is None else J.of_py(before), "caller_after": None if after is None else J.of_py(after)}
    except TypeError:
        return {}


def d_create_request_obs(a):
    """create_request, keeping hold of the caller's params dict to see what the call did to it"""
    m = _msg_mod()
    kw = {}
    if a.get("tok") is not None:
        kw["progress_token"] = idval(a["tok"])
    p = copy.deepcopy(_obj(a.get("params")))
    before = copy.deepcopy(p)
    msg = m.create_request(method_of(a), p, id=idval(a.get("id")), **kw)
    return [msg], None, _caller(before, p)


def d_create_notification(a):
    return [_msg_mod().create_notification(method_of(a), _obj(a.get("params")))]


def d_create_response(a):
    return [_msg_mod().create_response(idval(a.get("id")), _obj(a.get("result")))]


def d_create_error_response(a):
    return [_msg_mod().create_error_response(idval(a.get("id")), a["code"], s_(a["message"]), _obj(a.get("data")))]


def d_legacy_create_request(a):
    return [_msg_mod().JSONRPCMessage.create_request(method_of(a), _obj(a.get("params")), id=idval(a.get("id")))]


def d_legacy_create_notification(a):
    return [_msg_mod().JSONRPCMessage.create_notification(method_of(a), _obj(a.get("params")))]


def d_legacy_create_response(a):
    return [_msg_mod().JSONRPCMessage.create_response(idval(a.get("id")), _obj(a.get("result")))]


def d_legacy_create_error_response(a):
    return [_msg_mod().JSONRPCMessage.create_error_response(idval(a.get("id")), a["code"], s_(a["message"]), _obj(a.get("data")))]


def d_to_specific_type(a):
    """JSONRPCMessage(...).to_specific_type(): the legacy message converted to its envelope class"""
    src = {"request": d_legacy_create_request, "notification": d_legacy_create_notification,
           "response": d_legacy_create_response, "error": d_legacy_create_error_response}[a.get("of", "request")](a)[0]
    return [src.to_specific_type()]


def d_from_specific_type(a):
    src = {"request": d_create_request, "notification": d_create_notification,
           "response": d_create_response, "error": d_create_error_response}[a.get("of", "request")](a)[0]
    return [_msg_mod().JSONRPCMessage.from_specific_type(src)]


def d_wrapper(a):
    """JSONRPCMessageWrapper around a message: its own model_dump / model_dump_json are the wire forms"""
    src = {"request": d_create_request, "notification": d_create_notification,
           "response": d_create_response, "error": d_create_error_response}[a.get("of", "request")](a)[0]
    return [_msg_mod().JSONRPCMessageWrapper(src)]


def d_send_message(a):
    from chuk_mcp.protocol.messages.send_message import send_message

    async def cb(progress, total, message):
        return None

    from chuk_mcp.protocol.messages.send_message import CancellationToken

    token = CancellationToken() if a.get("cancel") else None
    at = []
    if a.get("cancel") == "pre":
        token.cancel()
    elif a.get("cancel"):
        at.append((int(a["cancel"]), token.cancel))  # tick at which the caller cancels

    async def go(r, w):
        kw = {}
        if a.get("mid_id") is not None:
            kw["message_id"] = idval(a["mid_id"])  # an id of either JSON type
        elif a.get("mid") is not None:
            kw["message_id"] = s_(a["mid"])
        if a.get("progress"):
            kw["progress_callback"] = cb
        if token is not None:
            kw["cancellation_token"] = token
        timeout = 0 if a.get("timeout0") else (4.0 if a.get("cancel") else 0.01)
        await send_message(r, w, method_of(a), p, timeout=timeout, **kw)

    p = copy.deepcopy(_obj(a.get("params")))
    before = copy.deepcopy(p)
    written, exc = run_async(go, tie=a.get("tie", "events"), at=at)
    return written, exc, _caller(before, p)


# argument registry for the typed helpers: parameter name -> value built from the case
def _registry(a):
    txt = s_(a.get("text") or [120])
    return {
        "timeout": 0 if a.get("timeout0") else 0.01,
        "name": txt, "uri": "file:///" + txt, "cursor": txt if a.get("opt") else None, "level": "debug",
        "arguments": _obj(a.get("payload")) if a.get("payload") is not None else {},
        "ref": {"type": "ref/prompt", "name": txt}, "argument": {"name": "arg", "value": txt},
        "messages": [{"role": "user", "content": {"type": "text", "text": txt}}], "max_tokens": 7,
        "metadata": _obj(a.get("payload")), "model_preferences": {"hints": [{"name": txt}], "costPriority": 0} if a.get("opt") else None, "system_prompt": txt if a.get("opt") else None,
        "include_context": "thisServer" if a.get("opt") else None, "temperature": 0.5 if a.get("opt") else None, "stop_sequences": [txt] if a.get("opt") else None,
        "supported_versions": None, "preferred_version": None, "client": None,
        "request_id": idval(a.get("id")) if a.get("id") is not None else "r1", "reason": txt if a.get("opt") else None,
        "progress_token": idval(a.get("id")) if a.get("id") is not None else "t1", "progress": 0.5,
        "total": 2.0 if a.get("opt") else None, "message": txt if a.get("opt") else None,
        "prompt_name": txt, "argument_name": "arg", "argument_value": txt, "resource_uri": "file:///" + txt,
        "prompt": txt, "conversation": [("user", txt), ("assistant", "ok")], "model_hint": txt if a.get("opt") else None,
    }


def helper_driver(f):
    sig = inspect.signature(f)

    def drive(a):
        reg = _registry(a)
        if a.get("badtype"):  # the helpers that validate their arguments raise before anything is written
            reg = dict(reg, **{a["badtype"]: 5 if a["badtype"] == "name" else ["not", "a", "dict"]})
        kwargs, missing = {}, []
        for pn, p in sig.parameters.items():
            if pn in ("read_stream", "write_stream"):
                continue
            if pn in reg:
                kwargs[pn] = reg[pn]
            elif p.default is inspect.Parameter.empty and p.kind in (p.POSITIONAL_OR_KEYWORD, p.KEYWORD_ONLY):
                missing.append(pn)
        if missing:
            raise UnknownEmitter(f"no value known for parameter(s) {missing}")

        async def go(r, w):
            if "read_stream" in sig.parameters:
                await f(r, w, **kwargs)
            else:
                await f(w, **kwargs)

        return run_async(go)

    return drive


class UnknownEmitter(Exception):
    pass


def d_roots_answer(a):
    """handle_roots_list_request / RootsManager: driven by the extension harness (rpc_ext.run_roots)"""
    from . import rpc_ext

    o = rpc_ext.run_roots(a)
    raise _Observed(o)


class _Observed(Exception):
    """a driver that already produced the full observation"""

    def __init__(self, o):
        self.o = o


def d_seq_shared_params(a):
    """the SAME params dict handed to 2-3 consecutive emitters (create_request with progress tokens,
    send_message with and without a progress callback, create_notification)"""
    from chuk_mcp.protocol.messages.send_message import send_message

    m = _msg_mod()
    params = _obj(a.get("params"))
    out = []
    ids = [idval(i) for i in a["ids"]]

    async def cb(progress, total, message):
        return None

    for step, idv in zip(a["steps"], ids * 3):
        if step == "create_request":
            out.append(m.create_request(method_of(a), params, id=idv))
        elif step == "create_request+token":
            out.append(m.create_request(method_of(a), params, id=idv, progress_token=idv))
        elif step == "create_notification":
            out.append(m.create_notification(method_of(a), params))
        elif step in ("send_message", "send_message+progress"):
            kw = {"progress_callback": cb} if step.endswith("progress") else {}

            async def go(r, w, kw=kw, idv=idv):
                await send_message(r, w, method_of(a), params, timeout=0.01, message_id=idv if isinstance(idv, str) and idv else None, **kw)

            w, _ = run_async(go)
            out += w
    return out


def d_seq_handler_reuse(a):
    """one ProtocolHandler answering several requests in a row (ids of both JSON types side by side,
    a second initialize, a request after a failed one)"""
    h = _handler()
    text = s_(a.get("text") or [120])

    async def ok(message, session_id):
        return h.create_response(message.id, _obj(a.get("payload"))), None

    async def bad(message, session_id):
        raise make_exc(a.get("exc"), text)

    h.register_method("x/ok", ok)
    h.register_method("x/bad", bad)
    out, sid = [], None
    for step, i in zip(a["steps"], a["ids"] * 4):
        params = None
        if step == "initialize":
            params = {"o": [[J.cps("protocolVersion"), J.S(s_(a.get("version") or J.cps("2025-06-18")))], [J.cps("clientInfo"), {"o": [[J.cps("name"), J.S(text)]]}]]}
        msg = _incoming({"id": i, "method": J.cps(step), "params": params})
        r, exc = _run(lambda msg=msg, sid=sid: h.handle_message(msg, sid) if a.get("session") else h.handle_message(msg))
        if r is not None:
            if r[0] is not None:
                out.append(r[0])
            if r[1]:
                sid = r[1]
    return out


def d_seq_twins(a):
    """TWO or three instances of one stateful class alive in one process, driven alternately with EQUAL ids and names;
    then each instance's share of the steps is replayed on a fresh instance of its own.  What an instance emits must not
    depend on the presence of the others.  kinds: ProtocolHandler, MCPServer, BatchProcessor."""
    from chuk_mcp.protocol.features.batching import BatchProcessor
    from chuk_mcp.server.server import MCPServer

    kind, n = a["kind"], int(a.get("n", 2))
    text = s_(a.get("text") or [120])
    payload = _obj(a.get("payload"))

    def make(i):
        if kind == "handler":
            h = _handler()

            async def ok(message, session_id, i=i):
                return h.create_response(message.id, {"instance": i, "p": payload}), None

            async def bad(message, session_id):
                raise make_exc(a.get("exc"), text)

            h.register_method("x/ok", ok)
            h.register_method("x/bad", bad)
            return h
        if kind == "server":
            srv = MCPServer("verif", version=str(i))

            async def tool(i=i, **kw):
                return {"instance": i, "p": payload}

            async def tool_bad(**kw):
                raise make_exc(a.get("exc"), text)

            async def res(i=i):
                return f"{i}:{text}"

            srv.register_tool("t", tool, {"type": "object"}, description=str(i))
            srv.register_tool("bad", tool_bad, {"type": "object"})
            srv.register_resource("file:///r", res, name=str(i))
            return srv.protocol_handler
        return BatchProcessor(["2025-03-26", "2025-06-18", "2024-11-05"][i % 3])

    def run(objs, steps):
        out = []
        for i, step, idt in steps:
            o = objs[i]
            if kind == "batch":
                def handler(item):
                    if item.get("method") == "bad":
                        raise make_exc(a.get("exc"), text)
                    return None
                r = o.process_message_data([{"jsonrpc": "2.0", "id": idval(idt), "method": step}], handler)
                items = [r] if isinstance(r, dict) else [x for x in (r or []) if isinstance(x, dict)]
                out += [(i, x) for x in items]
                continue
            params = None
            if step == "tools/call":
                params = {"o": [[J.cps("name"), J.S("t")], [J.cps("arguments"), {"o": []}]]}
            elif step == "tools/call:bad":
                step, params = "tools/call", {"o": [[J.cps("name"), J.S("bad")]]}
            elif step == "resources/read":
                params = {"o": [[J.cps("uri"), J.S("file:///r")]]}
            elif step == "initialize":
                params = {"o": [[J.cps("protocolVersion"), J.S("2025-06-18")], [J.cps("clientInfo"), {"o": [[J.cps("name"), J.S(text)]]}]]}
            msg = _incoming({"id": idt, "method": J.cps(step), "params": params})
            r, exc = _run(lambda o=o, msg=msg: o.handle_message(msg))
            if r is not None and r[0] is not None:
                out.append((i, r[0]))
        return out

    steps = [(st[0] % n, st[1], st[2]) for st in a["steps"]]
    together = run([make(i) for i in range(n)], steps)

    def dumped(x):
        d = copy.deepcopy(x if isinstance(x, dict) else x.model_dump(exclude_none=True))
        if isinstance(d.get("error"), dict):
            d["error"].pop("message", None)  # exception texts may carry object addresses
        return d

    independent, detail = True, None
    for i in range(n):
        alone = run({i: make(i)}, [st for st in steps if st[0] == i])
        mine = [dumped(x) for j, x in together if j == i]
        if mine != [dumped(x) for _, x in alone]:
            independent, detail = False, f"instance {i} of {n} answers differently when other instances are alive"
            break
    return [x for _, x in together], None, {"independent": independent, "detail": detail}


def d_seq_batch_reuse(a):
    """one BatchProcessor used for several batches, its protocol version changed in between"""
    from chuk_mcp.protocol.features.batching import BatchProcessor

    bp = BatchProcessor(s_(a.get("version") or J.cps("2025-03-26")))
    text = s_(a.get("text") or [120])
    out = []

    def handler(item):
        if isinstance(item, dict) and item.get("method") == "bad":
            raise make_exc(a.get("exc"), text)
        return None

    for step in a["steps"]:
        if step.startswith("version:"):
            bp.update_protocol_version(step[8:])
            continue
        if step == "mixed":  # good, failing, good, failing twice, good
            items = [{"jsonrpc": "2.0", "id": idval(i), "method": m_} for i in a["ids"] for m_ in ("ping", "bad", "ping", "bad", "bad", "ping")]
            r = bp.process_message_data(items, handler)
            if isinstance(r, dict):
                out.append(r)
            elif isinstance(r, list):
                out += [x for x in r if isinstance(x, dict)]
            continue
        items = [{"jsonrpc": "2.0", "id": idval(i), "method": step} for i in a["ids"]]
        r = bp.process_message_data(items, handler)
        if isinstance(r, dict):
            out.append(r)
        elif isinstance(r, list):
            out += [x for x in r if isinstance(x, dict)]
    return out


class AppError(Exception):
    """an application exception type (a BaseException subclass that is an Exception)"""

    def __init__(self, *args, detail=None):
        super().__init__(*args)
        self.detail = detail


EXC_KINDS = ["runtime", "value", "key-tuple", "unicode-decode", "object-arg", "bytes-arg", "set-arg", "no-args",
             "app", "app-object", "os", "nested", "mixed-args", "exc-arg", "bad-str", "empty-str",
             "type", "key", "index", "attribute", "recursion", "plain", "lookup", "assertion", "stop-iteration", "timeout", "unicode-encode"]


def make_exc(kind, text):
    """the spread of exceptions a registered handler / tool / resource may raise"""
    if kind in (None, "runtime"):
        return RuntimeError(text)
    if kind == "value":
        return ValueError(text)
    if kind == "key-tuple":
        return KeyError((1, 2))
    if kind == "unicode-decode":
        try:
            b"\xff\xfe".decode("utf-8")
        except UnicodeDecodeError as ex:
            return ex
    if kind == "object-arg":
        return RuntimeError(object())
    if kind == "bytes-arg":
        return RuntimeError(text, b"\x00\xff")
    if kind == "set-arg":
        return ValueError({1, 2})
    if kind == "no-args":
        return RuntimeError()
    if kind == "app":
        return AppError(text, 3, detail={"k": None})
    if kind == "app-object":
        return AppError(AppError)
    if kind == "os":
        return OSError(2, text)
    if kind == "nested":
        try:
            try:
                raise KeyError(b"k")
            except KeyError as inner:
                raise RuntimeError(text) from inner
        except RuntimeError as ex:
            return ex
    if kind == "mixed-args":
        return ValueError(text, 1, 1.5, None, True, (1, "a"), [None])
    if kind == "exc-arg":
        return RuntimeError(ValueError(text))
    if kind == "bad-str":
        class Unprintable(Exception):
            def __str__(self):
                raise RuntimeError("no text")
        return Unprintable(text)
    if kind == "empty-str":
        return ValueError("")
    simple = {"type": TypeError, "key": KeyError, "index": IndexError, "attribute": AttributeError, "recursion": RecursionError,
              "plain": Exception, "lookup": LookupError, "assertion": AssertionError, "stop-iteration": StopIteration, "timeout": TimeoutError}
    if kind in simple:
        return simple[kind](text)
    if kind == "unicode-encode":
        try:
            "\ud800".encode("utf-8")
        except UnicodeEncodeError as ex:
            return ex
    raise ValueError(f"unknown exception kind {kind}")


def _handler():
    from chuk_mcp.server.protocol_handler import ProtocolHandler
    from chuk_mcp.protocol.types.info import ServerInfo
    from chuk_mcp.protocol.types.capabilities import ServerCapabilities

    return ProtocolHandler(ServerInfo(name="verif", version="1"), ServerCapabilities())


def _incoming(a):
    """the incoming message a server scenario handles (built with the library's own parser)"""
    from chuk_mcp.protocol.messages.json_rpc_message import parse_message

    d = {"jsonrpc": "2.0", "id": idval(a["id"]), "method": s_(a["method"])}
    if a.get("params") is not None:
        d["params"] = _obj(a["params"])
    if a.get("extra"):  # valid but unusual: members in another order, an extra member
        d = dict(reversed(list(d.items())))
        d["x-extra"] = {"n": None}
    return parse_message(d)


def _run(coro_fn):
    import anyio

    from . import vloop

    box = {}

    async def main():
        try:
            box["r"] = await coro_fn()
        except Exception as ex:  # noqa: BLE001
            box["exc"] = type(ex).__name__

    vloop.run(main)
    return box.get("r"), box.get("exc")


def d_handle_message(a):
    h = _handler()
    sc = a["scenario"]
    payload = _obj(a.get("payload"))
    if sc == "custom-result":
        async def custom(message, session_id):
            return h.create_response(message.id, payload), None
        h.register_method(s_(a["method"]), custom)
    elif sc in ("reentrant", "reentrant-raises"):
        from chuk_mcp.protocol.messages.json_rpc_message import parse_message as _pm

        async def custom(message, session_id):  # noqa: F811
            inner, _ = await h.handle_message(_pm({"jsonrpc": "2.0", "id": "inner", "method": "ping"}))
            nested.append(inner)
            if sc == "reentrant-raises":
                raise make_exc(a.get("exc"), s_(a.get("text") or [120]))
            return h.create_response(message.id, payload), None
        nested = []
        h.register_method(s_(a["method"]), custom)
    elif sc == "custom-raises":
        async def custom(message, session_id):  # noqa: F811
            raise make_exc(a.get("exc"), s_(a.get("text") or [98, 111, 111, 109]))
        h.register_method(s_(a["method"]), custom)
    if sc == "no-method":
        from chuk_mcp.protocol.messages.json_rpc_message import parse_message
        msg = parse_message({"jsonrpc": "2.0", "id": idval(a["id"]), "result": {}})
    else:
        msg = _incoming(a)
    r, exc = _run(lambda: h.handle_message(msg))
    out = [r[0]] if r is not None and r[0] is not None else []
    if sc in ("reentrant", "reentrant-raises"):
        out += [x for x in nested if x is not None]
    return out, exc


def d_handler_create_response(a):
    return [_handler().create_response(idval(a.get("id")), _obj(a.get("result")))]


def d_handler_create_error_response(a):
    return [_handler().create_error_response(idval(a.get("id")), a["code"], s_(a["message"]))]


def d_mcpserver(a):
    from chuk_mcp.server.server import MCPServer

    if a.get("opts"):
        from chuk_mcp.protocol.types.capabilities import ServerCapabilities
        srv = MCPServer(s_(a.get("text") or [118]) or "v", version="9.9.9-\u00e9", capabilities=ServerCapabilities())
    else:
        srv = MCPServer("verif")
    payload = _obj(a.get("payload"))
    text = s_(a.get("text") or [120])

    async def tool_ok(**kw):
        return payload

    async def tool_bad(**kw):
        raise make_exc(a.get("exc"), text)

    async def res_ok():
        return text

    async def res_bad():
        raise make_exc(a.get("exc"), text)

    srv.register_tool("ok", tool_ok, {"type": "object"}, description=text)
    srv.register_tool("bad", tool_bad, {"type": "object"})
    srv.register_resource("file:///ok", res_ok, name=text)
    srv.register_resource("file:///bad", res_bad)
    msg = _incoming(a)
    r, exc = _run(lambda: srv.protocol_handler.handle_message(msg))
    out = [r[0]] if r is not None and r[0] is not None else []
    return out, exc


def d_batch_rejection(a):
    from chuk_mcp.protocol.features.batching import BatchProcessor

    bp = BatchProcessor(s_(a.get("version") or J.cps("2025-06-18")))
    if a.get("via") == "process":
        r = bp.process_message_data([{"jsonrpc": "2.0", "id": 1, "method": "ping"}], lambda m: None)
        return [r] if isinstance(r, dict) else list(r or [])
    return [bp.create_batch_rejection_error(idval(a.get("id")))]


def d_batch_item_error(a):
    from chuk_mcp.protocol.features.batching import BatchProcessor

    bp = BatchProcessor("2025-03-26")
    text = s_(a.get("text") or [120])

    def bad(item):
        raise make_exc(a.get("exc"), text)

    items = [{"jsonrpc": "2.0", "id": idval(a.get("id")), "method": "ping"}]
    if a.get("opt"):
        items.append("not-a-dict")
    r = bp.process_message_data(items, bad)
    return list(r or [])


# -- dict literals: evaluate the literal expression of the real source under an environment ----
class _Params:
    def __init__(self, payload):
        self._p = payload

    def model_dump(self, **kw):
        return copy.deepcopy(self._p)


class _Resp:
    def __init__(self, text):
        self.status_code = 503
        self.text = text


class _Self:
    def __init__(self, text):
        self.protocol_version = text
        self.timeout = 1.0


def literal_env(a):
    text = s_(a.get("text") or [120])
    mid = idval(a.get("id"))
    payload = _obj(a.get("payload")) if a.get("payload") is not None else {}
    return {
        "message_id": mid, "request_id": mid, "error_text": text, "response": _Resp(text), "e": make_exc(a.get("exc"), text),
        "self": _Self(text), "params": _Params(payload), "user_data": payload,
        "item": ({"id": mid} if not a.get("opt") else text),
        "str": str, "isinstance": isinstance, "dict": dict,
    }


class _Any:
    """stand-in for a free name whose shape is unknown but which is only formatted / inspected:
    every attribute and call gives another stand-in, `str()` / f-strings give the case's text"""

    def __init__(self, text):
        self._t = text

    def __getattr__(self, name):
        if name.startswith("__"):
            raise AttributeError(name)
        return _Any(self._t)

    def __call__(self, *a, **k):
        return _Any(self._t)

    def __getitem__(self, k):
        return _Any(self._t)

    def __str__(self):
        return self._t

    __repr__ = __str__

    def __format__(self, spec):
        return self._t


SAFE_BUILTINS = {"str": str, "int": int, "float": float, "bool": bool, "len": len, "repr": repr, "isinstance": isinstance,
                 "dict": dict, "list": list, "tuple": tuple, "type": type, "getattr": getattr, "hasattr": hasattr,
                 "min": min, "max": max, "None": None, "True": True, "False": False}
STR_HINTS = ("text", "message", "msg", "reason", "detail", "description", "what", "why", "name", "method", "version")
INT_HINTS = ("code", "status", "errno", "count")
ID_HINTS = ("id",)
PAYLOAD_HINTS = ("data", "params", "result", "payload", "arguments", "content", "value")


def _positions(node):
    """free name -> role, from where the name stands in the literal: directly as the value of `id`,
    `error.code`, `error.message`, `error.data`, `params`, `result`, `method`"""
    roles = {}

    def direct(v, role):
        if isinstance(v, ast.Name):
            roles.setdefault(v.id, role)

    for k, v in zip(node.keys, node.values):
        if not isinstance(k, ast.Constant):
            continue
        if k.value == "id":
            direct(v, "id")
        elif k.value == "method":
            direct(v, "str")
        elif k.value in ("params", "result"):
            direct(v, "payload")
        elif k.value == "error" and isinstance(v, ast.Dict):
            for k2, v2 in zip(v.keys, v.values):
                if isinstance(k2, ast.Constant):
                    direct(v2, {"code": "int", "message": "str", "data": "payload"}.get(k2.value, "payload"))
        elif k.value == "error":
            direct(v, "error")
    return roles


def _used_as_object(node, name):
    """is the name the base of an attribute access, a call or a subscript?"""
    for n in ast.walk(node):
        if isinstance(n, (ast.Attribute, ast.Subscript)) and isinstance(n.value, ast.Name) and n.value.id == name:
            return True
        if isinstance(n, ast.Call) and isinstance(n.func, ast.Name) and n.func.id == name:
            return True
    return False


def _role_by_name(name):
    low = name.lower()
    parts = low.replace("-", "_").split("_")
    if any(p in ID_HINTS for p in parts):
        return "id"
    if any(p in INT_HINTS for p in parts):
        return "int"
    if any(p in STR_HINTS for p in parts) or low.endswith("text"):
        return "str"
    if any(p in PAYLOAD_HINTS for p in parts):
        return "payload"
    return None


def literal_driver(node, path):
    """evaluate the dict literal of the real source.  Names the harness knows get their usual
    stand-ins; any other free name is bound by the position it occupies in the literal (id / error.code /
    error.message / error.data / params / result), else by its spelling, else payload, string and integer are
    tried in turn.  A literal that still cannot be evaluated is reported as skipped (a note), not as a
    broken correspondence."""
    code = compile(ast.Expression(body=node), str(path), "eval")
    free = sorted({n.id for n in ast.walk(node) if isinstance(n, ast.Name)})
    roles = _positions(node)

    def value_for(role, a, text, payload):
        if role == "id":
            return idval(a.get("id"))
        if role == "int":
            return a.get("code", -32603)
        if role == "str":
            return text
        if role == "payload":
            return payload
        if role == "error":
            return {"code": a.get("code", -32603), "message": text}
        if role == "object":
            return _Any(text)
        raise ValueError(role)

    dynamic_keys = [k for k in node.keys if not isinstance(k, ast.Constant)]
    local_names = getattr(node, "_verif_locals", None)
    modname = "chuk_mcp." + ".".join(path.relative_to(core.REPO / "src" / "chuk_mcp").with_suffix("").parts)
    if modname.endswith(".__init__"):
        modname = modname[: -len(".__init__")]

    def drive(a):
        if dynamic_keys:
            raise SkippedLiteral(f"the literal at {path.name}:{node.lineno} has a member whose name is computed "
                                 f"({ast.unparse(dynamic_keys[0])}); its shape is decided by its callers")
        import builtins

        # Everything that is not a parameter / local of the enclosing function(s) is looked up where the real code
        # looks it up: in the module's own globals (module constants, imported names, classes) and the builtins.
        try:
            glob = dict(vars(importlib.import_module(modname)))
        except Exception as ex:  # noqa: BLE001
            raise UnknownEmitter(f"the module of the literal at {path.name}:{node.lineno} cannot be imported: {type(ex).__name__}")
        known = literal_env(a)
        text = s_(a.get("text") or [120])
        payload = _obj(a.get("payload")) if a.get("payload") is not None else {}
        env, guess = {}, []
        for n in free:
            is_local = local_names is None or n in local_names
            if not is_local:
                if n in glob or hasattr(builtins, n):
                    continue  # the real value is used
                raise UnknownEmitter(f"the literal at {path.name}:{node.lineno} refers to {n!r}, which is neither a local of its function "
                                     f"nor defined in {modname}: not drivable")
            if n in known:
                env[n] = known[n]
                continue
            role = roles.get(n) or ("object" if _used_as_object(node, n) else None) or _role_by_name(n)
            if role is None:
                guess.append(n)
            else:
                env[n] = value_for(role, a, text, payload)
        trials = [()]
        for n in guess:
            trials = [t + ((n, r),) for t in trials for r in ("payload", "str", "int")]
        last = None
        for t in trials[:27]:
            e2 = dict(env)
            for n, r in t:
                e2[n] = value_for(r, a, text, payload)
            try:
                v = eval(code, glob, e2)  # noqa: S307 - the library's own literal, in the library's own namespace
                J.of_py(v)  # a wrong guess may put a stand-in where a JSON value belongs
                return [v]
            except Exception as ex:  # noqa: BLE001
                last = ex
                if not guess:
                    break
        if not guess and all(n in known for n in env):
            # only stand-ins the harness knows: the literal itself misbehaves -> let the oracle see it
            return [eval(code, glob, env)]  # noqa: S307
        raise SkippedLiteral(f"the literal at {path.name}:{node.lineno} could not be evaluated with heuristic bindings "
                             f"for the locals {sorted(n for n in env if n not in known) + guess}: {type(last).__name__}")

    drive.keys = sorted(k.value for k in node.keys if isinstance(k, ast.Constant))
    # the id position holds a LOCAL name (the id in hand), not a module constant
    drive.id_direct = any(isinstance(k, ast.Constant) and k.value == "id" and isinstance(v, ast.Name) and (local_names is None or v.id in local_names)
                          for k, v in zip(node.keys, node.values))
    return drive


class SkippedLiteral(Exception):
    pass


class InnerRaised(Exception):
    pass


# -- the transports' serialisers -----------------------------------------------------------------
DIRECT_INNERS = ["direct-request", "direct-notification", "direct-response", "direct-error", "direct-legacy-request",
                 "direct-legacy-notification", "direct-legacy-response", "direct-legacy-error", "validated-request",
                 "validated-legacy-response"]
CHANGED_INNERS = ["changed-after-dump", "copied-after-dump", "assigned-after-dump"]
CREATED_INNERS = ["request", "notification", "response", "error", "legacy-request", "legacy-response", "legacy-error", "dict",
                  "parsed-request", "parsed-notification", "parsed-response", "parsed-error", "dict-extra", "converted", "wrapped"]
# forms only the stdio writer accepts (HTTP / SSE log an error and send nothing)
STDIO_ONLY_INNERS = ["raw-str", "dump-only", "list"]


class _DumpOnly:
    """an object exposing only model_dump (the stdio writer's two-pass path)"""

    def __init__(self, m):
        self._m = m
        for k in ("id", "method"):
            setattr(self, k, getattr(m, k, None))

    def model_dump(self, **kw):
        return self._m.model_dump(**kw)


def _inner(a):
    """the messages a transport scenario sends: products of the constructors, instances built DIRECTLY
    from the public envelope classes relying on their defaults (no `jsonrpc` argument), dicts, messages
    that went through parse_message / model_validate, or whatever another emitter case emits"""
    kind = a.get("inner", "request")
    m = _msg_mod()
    if isinstance(kind, dict):  # {"emitter": name, "args": {...}}: route that emitter's products
        ent = drivers().get(kind["emitter"])
        if ent is None:
            raise UnknownEmitter("inner emitter without a driver")
        r = ent[1](kind.get("args") or {})
        msgs = list(r[0] if isinstance(r, tuple) else r)
        if not msgs and isinstance(r, tuple) and r[1]:
            raise InnerRaised(r[1])  # the inner emitter raised before writing anything
        return msgs
    idv = idval(a.get("id"))
    params = copy.deepcopy(_obj(a.get("params")))
    result = _obj(a.get("result"))
    err = {"code": a.get("code", 1), "message": s_(a["message"]) if a.get("message") is not None else "x"}
    if a.get("data") is not None:
        err["data"] = _obj(a["data"])
    if kind == "request":
        return d_create_request(a)
    if kind == "notification":
        return d_create_notification(a)
    if kind == "response":
        return d_create_response(a)
    if kind == "error":
        return d_create_error_response(a)
    if kind == "legacy-request":
        return d_legacy_create_request(a)
    if kind == "legacy-response":
        return d_legacy_create_response(a)
    if kind == "legacy-error":
        return d_legacy_create_error_response(a)
    if kind == "dict":
        return [d_create_request(a)[0].model_dump(exclude_none=True)]
    if kind == "dict-extra":  # members in an unusual order plus an extra member: sent as it is
        d = d_create_request(a)[0].model_dump(exclude_none=True)
        d = dict(reversed(list(d.items())))
        d["x-extra"] = {"n": None, "l": [0, False, ""]}
        return [d]
    if kind == "converted":
        return d_to_specific_type(a)
    if kind == "wrapped":
        return d_wrapper(a)
    if kind == "raw-str":
        from chuk_mcp.protocol import fast_json
        return [fast_json.dumps(d_create_request(a)[0].model_dump(exclude_none=True))]
    if kind == "dump-only":
        return [_DumpOnly(d_create_request(a)[0])]
    if kind == "list":
        return [[d_create_request(a)[0].model_dump(exclude_none=True), d_create_notification(a)[0].model_dump(exclude_none=True)]]
    if kind in ("changed-after-dump", "copied-after-dump", "assigned-after-dump"):
        msg = m.create_request(method_of(a), params if params is not None else {"progress": 1}, id=idv)
        msg.model_dump_json(exclude_none=True)
        msg.model_dump_json()
        if kind == "changed-after-dump":
            msg.params["progress"] = 2
            msg.params.setdefault("nested", {})["edited"] = [None]
            return [msg]
        if kind == "copied-after-dump":
            return [msg.model_copy(update={"id": "copy-of-" + str(idv)})]
        msg.method = "changed/" + str(msg.method)
        return [msg]
    if kind == "big-between-small":  # one message far above every buffer (64 KiB chunks) between two small ones
        big = "x\u00e9" * (int(a.get("n", 100_000)) // 2)
        return [m.create_request(method_of(a), {"i": 1}, id=1), m.create_request(method_of(a), {"blob": big, "n": None}, id=idv if idv is not None else 2),
                m.create_notification(method_of(a), {"i": 3})]
    if kind == "burst":  # n messages in a row through one transport object (stream capacity is 100)
        base = d_create_request(a)[0].model_dump(exclude_none=True)
        return [dict(base, id=i) if i % 2 else m.create_request(method_of(a), params, id=i) for i in range(int(a.get("n", 101)))]
    if kind.startswith("parsed-"):
        src = {"parsed-request": d_create_request, "parsed-notification": d_create_notification,
               "parsed-response": d_create_response, "parsed-error": d_create_error_response}[kind](a)[0]
        return [m.parse_message(src.model_dump(exclude_none=True))]
    # directly constructed, relying on the declared defaults
    opt = {} if params is None else {"params": params}
    if kind == "direct-request":
        return [m.JSONRPCRequest(id=idv, method=method_of(a), **opt)]
    if kind == "direct-notification":
        return [m.JSONRPCNotification(method=method_of(a), **opt)]
    if kind == "direct-response":
        return [m.JSONRPCResponse(id=idv, result={} if result is None else result)]
    if kind == "direct-error":
        return [m.JSONRPCError(id=idv, error=err)]
    if kind == "direct-legacy-request":
        return [m.JSONRPCMessage(id=idv, method=method_of(a), **opt)]
    if kind == "direct-legacy-notification":
        return [m.JSONRPCMessage(method=method_of(a), **opt)]
    if kind == "direct-legacy-response":
        return [m.JSONRPCMessage(id=idv, result=result if isinstance(result, dict) else {})]
    if kind == "direct-legacy-error":
        return [m.JSONRPCMessage(id=idv, error=err)]
    if kind == "validated-request":
        return [m.JSONRPCRequest.model_validate({"id": idv, "method": str(method_of(a).value if a.get("method_enum") else method_of(a)), **opt})]
    if kind == "validated-legacy-response":
        return [m.JSONRPCMessage.model_validate({"id": idv, "result": result if isinstance(result, dict) else {}})]
    raise ValueError(kind)


def d_stdio_writer(a):
    """the real `StdioClient._stdin_writer` with a recording stand-in for the child's stdin"""
    import anyio
    import sys
    from chuk_mcp.transports.stdio.parameters import StdioParameters
    from chuk_mcp.protocol import fast_json

    mod = sys.modules.get("chuk_mcp.transports.stdio.stdio_client") or importlib.import_module("chuk_mcp.transports.stdio.stdio_client")
    msgs = _inner(a)
    chunks = []

    class Stdin:
        async def send(self, data):
            chunks.append(bytes(data))

        async def aclose(self):
            return None

    class Proc:
        stdin = Stdin()
        stdout = None
        returncode = None
        pid = 0

    async def main():
        c = mod.StdioClient(StdioParameters(command="true", args=[]))
        c._outgoing_send, c._outgoing_recv = anyio.create_memory_object_stream(100)
        c._incoming_send, c._incoming_recv = anyio.create_memory_object_stream(10)
        c._notify_send, c.notifications = anyio.create_memory_object_stream(10)
        c._streams_initialized = True
        c.process = Proc()

        async def produce():
            for msg in msgs:
                await c._outgoing_send.send(msg)
            await c._outgoing_send.aclose()

        async with anyio.create_task_group() as tg:
            tg.start_soon(produce)
            await c._stdin_writer()

    from . import vloop
    exc = None
    try:
        vloop.run(main)
    except Exception as ex:  # noqa: BLE001
        exc = type(ex).__name__
    data = b"".join(chunks)
    lines = data.split(b"\n")
    out, unparsable = [], 0
    import json as stdjson
    for ln in lines:
        if ln:
            try:
                v = stdjson.loads(ln.decode("utf-8"))  # the harness's own reader, not the library's
            except ValueError:
                unparsable += 1
                continue
            out += v if isinstance(v, list) else [v]
    return out, exc, {"bytes_end_nl": data.endswith(b"\n") if data else None, "lines": len([ln for ln in lines if ln]),
                      "sent": len(msgs), "unparsable_lines": unparsable}


def _http_capture(mod, handler_factory):
    """patch `<module>.httpx.AsyncClient` so that every request goes to a MockTransport"""
    import httpx

    real = httpx.AsyncClient
    seen = []

    def handler(request):
        seen.append(request)
        return handler_factory(request)

    class Client(real):
        def __init__(self, *a, **k):
            k["transport"] = httpx.MockTransport(handler)
            super().__init__(*a, **k)

    return real, Client, seen


def d_http_post(a):
    import asyncio
    import json as stdjson
    import httpx
    import sys
    from chuk_mcp.transports.http.parameters import StreamableHTTPParameters

    mod = importlib.import_module("chuk_mcp.transports.http.transport")
    msgs = _inner(a)

    def respond(request):
        return httpx.Response(202)

    real, Client, seen = _http_capture(mod, respond)

    async def main():
        kw = {}
        if a.get("opts"):
            kw = dict(headers={"X-Trace": "t-1", "Authorization": "Basic x"} if a["opts"] == 2 else {"X-A": "b"},
                      bearer_token="tok", session_id="sess-1", timeout=0.5, user_agent="verif/1")
        t = mod.StreamableHTTPTransport(StreamableHTTPParameters(url="http://verif.invalid/mcp", **kw))
        for msg in msgs:
            await t._send_message_internal(msg)

    from . import vloop
    mod.httpx.AsyncClient = Client
    exc = None
    try:
        vloop.run(main)
    except Exception as ex:  # noqa: BLE001
        exc = type(ex).__name__
    finally:
        mod.httpx.AsyncClient = real
    return [stdjson.loads(r.content.decode("utf-8")) for r in seen], exc


def d_sse_post(a):
    import asyncio
    import json as stdjson
    import httpx
    from chuk_mcp.transports.sse.parameters import SSEParameters

    mod = importlib.import_module("chuk_mcp.transports.sse.transport")
    msgs = _inner(a)
    seen = []

    def handler(request):
        seen.append(request)
        body = stdjson.loads(request.content.decode("utf-8"))
        if "id" in body and "method" in body:
            return httpx.Response(200, json={"jsonrpc": "2.0", "id": body["id"], "result": {}})
        return httpx.Response(202)

    async def main():
        kw = dict(headers={"X-A": "b"}, timeout=0.5, bearer_token="tok") if a.get("opts") else {}
        try:
            params = SSEParameters(url="http://verif.invalid", **kw)
        except Exception:  # noqa: BLE001 - an option this version does not know
            params = SSEParameters(url="http://verif.invalid")
        t = mod.SSETransport(params)
        t._send_client = httpx.AsyncClient(transport=httpx.MockTransport(handler))
        t._message_url = "http://verif.invalid/messages"
        try:
            for msg in msgs:
                await t._send_message_via_http(msg)
        finally:
            await t._send_client.aclose()

    from . import vloop
    exc = None
    try:
        vloop.run(main)
    except Exception as ex:  # noqa: BLE001
        exc = type(ex).__name__
    return [stdjson.loads(r.content.decode("utf-8")) for r in seen], exc


_DRIVERS = None


def drivers():
    """name -> (family, callable(args) -> [emitted] | ([emitted], exc) | ([emitted], exc, extra))"""
    global _DRIVERS
    if _DRIVERS is not None:
        return _DRIVERS
    D = {
        "json_rpc_message.create_request": ("ctor", d_create_request_obs),
        "json_rpc_message.create_notification": ("ctor", d_create_notification),
        "json_rpc_message.create_response": ("ctor", d_create_response),
        "json_rpc_message.create_error_response": ("ctor", d_create_error_response),
        "json_rpc_message.JSONRPCMessage.create_request": ("ctor", d_legacy_create_request),
        "json_rpc_message.JSONRPCMessage.create_notification": ("ctor", d_legacy_create_notification),
        "json_rpc_message.JSONRPCMessage.create_response": ("ctor", d_legacy_create_response),
        "json_rpc_message.JSONRPCMessage.create_error_response": ("ctor", d_legacy_create_error_response),
        "send_message.send_message": ("send_message", d_send_message),
        "json_rpc_message.JSONRPCMessage.to_specific_type": ("convert", d_to_specific_type),
        "json_rpc_message.JSONRPCMessage.from_specific_type": ("convert", d_from_specific_type),
        "json_rpc_message.JSONRPCMessageWrapper": ("convert", d_wrapper),
        "roots.send_messages.handle_roots_list_request": ("answer", d_roots_answer),
        "roots.send_messages.RootsManager.handle_list_request": ("answer", d_roots_answer),
        "roots.send_messages.RootsManager.add_root": ("answer", d_roots_answer),
        "roots.send_messages.RootsManager.remove_root": ("answer", d_roots_answer),
        "roots.send_messages.RootsManager.clear": ("answer", d_roots_answer),
        "roots.send_messages.RootsManager.get_roots": ("answer", d_roots_answer),
        "seq:shared-params": ("seq", d_seq_shared_params),
        "seq:handler-reuse": ("seq", d_seq_handler_reuse),
        "seq:batch-reuse": ("seq", d_seq_batch_reuse),
        "seq:twins": ("seq", d_seq_twins),
        "server.ProtocolHandler.handle_message": ("server", d_handle_message),
        "server.ProtocolHandler.create_response": ("ctor", d_handler_create_response),
        "server.ProtocolHandler.create_error_response": ("ctor", d_handler_create_error_response),
        "server.ProtocolHandler.method:initialize": ("server", d_handle_message),
        "server.ProtocolHandler.method:notifications/initialized": ("server", d_handle_message),
        "server.ProtocolHandler.method:ping": ("server", d_handle_message),
        "server.MCPServer.method:tools/list": ("server", d_mcpserver),
        "server.MCPServer.method:tools/call": ("server", d_mcpserver),
        "server.MCPServer.method:resources/list": ("server", d_mcpserver),
        "server.MCPServer.method:resources/read": ("server", d_mcpserver),
        "batching.BatchProcessor.create_batch_rejection_error": ("dict", d_batch_rejection),
        "transport:stdio-writer": ("transport", d_stdio_writer),
        "transport:http-post": ("transport", d_http_post),
        "transport:sse-post": ("transport", d_sse_post),
    }
    # typed helpers and notification senders: driven generically from their signature
    import chuk_mcp.protocol.messages as M

    for mi in pkgutil.walk_packages(M.__path__, M.__name__ + "."):
        try:
            mod = importlib.import_module(mi.name)
        except Exception:  # noqa: BLE001
            continue
        rel = mod.__name__[len(M.__name__) + 1:]
        for n, f in vars(mod).items():
            if inspect.isfunction(f) and f.__module__ == mod.__name__ and inspect.iscoroutinefunction(f) \
                    and not n.startswith("_") and "write_stream" in inspect.signature(f).parameters:
                name = f"{rel}.{n}"
                if name not in D:
                    D[name] = ("helper", helper_driver(f))
    for name, node, path in literal_sites():
        D[name] = ("literal", literal_driver(node, path))
    _DRIVERS = D
    return D


class FormattingHandler(__import__("logging").Handler):
    """what a host's handler does: it formats every record (a NullHandler never does, which hides %-style argument
    mismatches and failing __str__ / __repr__ of logged arguments)"""

    errors: list = []

    def emit(self, record):
        self.format(record)

    def handleError(self, record):
        import sys
        FormattingHandler.errors.append(repr(sys.exc_info()[1])[:200])


class debug_logging:
    """as a host application with logging configured at DEBUG and a handler that formats each record; `named`: DEBUG only
    on the library's own loggers (`chuk_mcp` and everything below it), the root logger stays at WARNING"""

    def __init__(self, named=False):
        self.named = named

    def __enter__(self):
        import logging

        root = logging.getLogger()
        self.prev = (root.manager.disable, root.level, list(root.handlers))
        self.named_prev = None
        root.handlers[:] = [FormattingHandler()]
        if self.named:
            root.setLevel(logging.WARNING)
            lib = logging.getLogger("chuk_mcp")
            self.named_prev = (lib.level, {n: lg.level for n, lg in logging.root.manager.loggerDict.items()
                                           if n.startswith("chuk_mcp") and isinstance(lg, logging.Logger)})
            lib.setLevel(logging.DEBUG)
            for n in self.named_prev[1]:
                logging.getLogger(n).setLevel(logging.DEBUG)
        else:
            root.setLevel(logging.DEBUG)
        logging.disable(logging.NOTSET)

    def __exit__(self, *exc):
        import logging

        root = logging.getLogger()
        logging.disable(self.prev[0])
        root.setLevel(self.prev[1])
        root.handlers[:] = self.prev[2]
        if self.named_prev is not None:
            logging.getLogger("chuk_mcp").setLevel(self.named_prev[0])
            for n, lv in self.named_prev[1].items():
                logging.getLogger(n).setLevel(lv)
        return False


def mutate_deep(x, depth=0):
    """edit every container reachable from x in place (what middleware / a consumer of a message may do)"""
    if isinstance(x, dict):
        for k in list(x):
            mutate_deep(x[k], depth + 1)
        x["_meta"] = {"edited-by-consumer": depth}
    elif isinstance(x, list):
        for y in x:
            mutate_deep(y, depth + 1)
        x.append({"edited-by-consumer": depth})


def mutate_emitted(objs):
    for m in objs:
        if isinstance(m, dict):
            for k in ("params", "result", "error"):
                mutate_deep(m.get(k))
        else:
            for k in ("params", "result", "error"):
                try:
                    mutate_deep(getattr(m, k, None))
                except Exception:  # noqa: BLE001
                    pass


_EMITTED_HOOK = None


def run_case(case):
    """case = {"emitter", "args", "debug_log": bool, "repeat_mutate": k, "env": {...}} -> observation.
    repeat_mutate=k: the emitter runs k+1 times with the same arguments; after each of the first k runs the payload
    containers of what it emitted are edited in place (both emissions stay alive).  The observation is the LAST run's:
    it must look exactly like a first run."""
    import os

    env = case.get("env") or {}
    saved = {k: os.environ.get(k) for k in env}
    os.environ.update(env)
    try:
        if case.get("debug_log"):
            with debug_logging(named=(case["debug_log"] == "named")):
                return _run_repeated(case)
        return _run_repeated(case)
    finally:
        for k, v in saved.items():
            if v is None:
                os.environ.pop(k, None)
            else:
                os.environ[k] = v


def history_prelude():
    """what may have happened earlier in the same process: encodes with non-default options through every entry point"""
    import io
    from chuk_mcp.protocol import fast_json

    doc = {"b": [1, {"a": None}], "a": "x"}
    for kw in ({"indent": 2}, {"sort_keys": True}, {"indent": 4, "sort_keys": True, "default": str}, {"separators": (",", ":")}, {"ensure_ascii": False}):
        try:
            fast_json.dumps(doc, **kw)
            fast_json.dump(doc, io.StringIO(), **kw)
        except Exception:  # noqa: BLE001
            pass
    try:
        msg = _msg_mod().create_request("history", {"k": [None]}, id=1)
        msg.model_dump_json(indent=2)
        msg.model_dump_json(exclude_none=True, indent=2)
        _msg_mod().JSONRPCMessage.create_response(1, {"r": 1}).model_dump_json(indent=2)
    except Exception:  # noqa: BLE001
        pass


def _run_repeated(case):
    global _EMITTED_HOOK
    if case.get("history"):
        history_prelude()
    k = int(case.get("repeat_mutate") or 0)
    keep, first = [], None
    for _ in range(k):
        got = []
        _EMITTED_HOOK = got.append
        try:
            o1 = _run_case(case)
        finally:
            _EMITTED_HOOK = None
        if first is None:
            first = [e.get("dump", {}).get("wire") for e in o1.get("emitted", [])]
        for objs in got:
            mutate_emitted(objs)
            keep.append(objs)  # stay alive while the next emission is built
    o = _run_case(case)
    if k:
        o["repeated"] = k
        o["first_wires"] = first
    return o


def _run_case(case):
    D = drivers()
    ent = D.get(case["emitter"])
    if ent is None:
        return {"unknown": True, "why": "no driver for this emitter", "raised": None, "emitted": []}
    _, fn = ent
    try:
        r = fn(case.get("args") or {})
    except _Observed as ob:
        return ob.o
    except UnknownEmitter as ex:
        return {"unknown": True, "why": str(ex), "raised": None, "emitted": []}
    except SkippedLiteral as ex:
        return {"skipped": str(ex), "raised": None, "emitted": []}
    except Exception as ex:  # noqa: BLE001 - the constructor raised: nothing is emitted
        return observe([], type(ex).__name__)
    extra = None
    if isinstance(r, tuple):
        if len(r) == 3:
            emitted, exc, extra = r
        else:
            emitted, exc = r
    else:
        emitted, exc = r, None
    o = observe(emitted, exc)
    if extra:
        o["extra"] = extra
    return o


def backend_info():
    from chuk_mcp.protocol import mcp_pydantic_base as B

    return {"pydantic": bool(getattr(B, "PYDANTIC_AVAILABLE", False)), "forced_fallback": bool(getattr(B, "FORCE_FALLBACK", False))}
