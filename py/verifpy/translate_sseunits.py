"""Translator part of C12 (extension sweep): pure decision logic next to the SSE transport,
regenerated from source into `lean/Verif/Gen/SseUnits.lean` on every run.

  * the indicator list of `is_sse_url` (sse_client.py): a list / tuple of string literals bound
    inside the function or at module level and used by it;
  * the comparisons with zero of the numeric validators of `SSEParameters` (parameters.py):
    `if v <= 0: raise` / `if v < 0: raise` under `@field_validator("<field>")`;
  * the if / else chain of `_handle_endpoint_event` (transport.py) that builds the message URL
    (subset: `x.startswith("lit")`, `"lit" in x`, `not`, `and`, `or` over `endpoint_path` /
    `self.base_url`; results: f-strings of those two and literal text, or `endpoint_path`);
  * the literals of the two header builders (`"authorization"` test kind, `"Bearer "`, the header
    name).

Each part has its own `…Translatable` flag.  A shape outside the subset is NOT guessed: the flag
is false, a well-typed placeholder is emitted and the part is listed in the report's notes.  The
C12 theorems about the generated definitions are stated under `…Translatable = true`: none of
them is implied by the property text, so an untranslatable part is informational (evidence note),
while a part that translates to something the hand-written model disagrees with breaks its
agreement theorem (the proof no longer compiles) — the `no-failing-input-found` path.
"""
from __future__ import annotations

import ast
from pathlib import Path

from . import translate
from .translate_sse import Module

NUM_FIELDS = {"timeout": "timeout", "max_reconnect_attempts": "maxReconnect", "reconnect_delay": "reconnectDelay",
              "keep_alive_interval": "keepAlive"}


class Untranslatable(Exception):
    pass


def chars(s: str) -> str:
    def one(c):
        if c == "'":
            return "'\\''"
        if c == "\\":
            return "'\\\\'"
        if c == "\n":
            return "'\\n'"
        if c == "\r":
            return "'\\r'"
        if c == "\t":
            return "'\\t'"
        if ord(c) < 32 or ord(c) > 126:
            return f"Char.ofNat {ord(c)}"
        return f"'{c}'"
    return "[" + ", ".join(one(c) for c in s) + "]"


def _func(tree, name):
    for n in ast.walk(tree):
        if isinstance(n, (ast.FunctionDef, ast.AsyncFunctionDef)) and n.name == name:
            return n
    raise Untranslatable(f"function {name} not found")


# ---------------------------------------------------------------- is_sse_url
def indicators(src: Path):
    mod = Module(src / "transports/sse/sse_client.py", src)
    fn = _func(mod.tree, "is_sse_url")
    cands = []

    def strs(e):
        if isinstance(e, (ast.List, ast.Tuple)) and e.elts and all(isinstance(x, ast.Constant) and isinstance(x.value, str) for x in e.elts):
            return [x.value for x in e.elts]
        return None
    for n in ast.walk(fn):
        if isinstance(n, ast.Assign):
            v = strs(n.value)
            if v:
                cands.append(v)
        elif isinstance(n, ast.Name) and n.id in mod.assign:
            v = strs(mod.assign[n.id])
            if v:
                cands.append(v)
    uniq = []
    for c in cands:
        if c not in uniq:
            uniq.append(c)
    if len(uniq) != 1:
        raise Untranslatable(f"is_sse_url: expected one list of indicator strings, found {len(uniq)}")
    # the function must lower-case the url and test substrings
    text = ast.unparse(fn)
    if ".lower()" not in text or " in " not in text:
        raise Untranslatable("is_sse_url: not a substring test on the lower-cased url")
    return uniq[0]


# ---------------------------------------------------------------- numeric validators
def num_rules(src: Path):
    tree = ast.parse((src / "transports/sse/parameters.py").read_text())
    out = {}
    for n in ast.walk(tree):
        if not isinstance(n, ast.FunctionDef):
            continue
        fields = []
        for d in n.decorator_list:
            if isinstance(d, ast.Call) and getattr(d.func, "id", getattr(d.func, "attr", None)) == "field_validator":
                fields += [a.value for a in d.args if isinstance(a, ast.Constant) and isinstance(a.value, str)]
        for f in fields:
            if f not in NUM_FIELDS:
                continue
            arg = n.args.args[-1].arg
            tests = [s for s in n.body if isinstance(s, ast.If)]
            if len(tests) != 1 or not any(isinstance(x, ast.Raise) for x in tests[0].body) or tests[0].orelse:
                raise Untranslatable(f"parameters.py:{n.name}: expected one `if <test>: raise`")
            t = tests[0].test
            if not (isinstance(t, ast.Compare) and isinstance(t.left, ast.Name) and t.left.id == arg and len(t.ops) == 1
                    and isinstance(t.comparators[0], ast.Constant) and t.comparators[0].value in (0, 0.0)
                    and not isinstance(t.comparators[0].value, bool)):
                raise Untranslatable(f"parameters.py:{n.name}: test is not `{arg} <op> 0`")
            op = {ast.LtE: "≤", ast.Lt: "<", ast.GtE: "≥", ast.Gt: ">", ast.Eq: "="}.get(type(t.ops[0]))
            if op is None:
                raise Untranslatable(f"parameters.py:{n.name}: comparison operator not supported")
            rets = [s for s in n.body if isinstance(s, ast.Return)]
            if len(rets) != 1 or not (isinstance(rets[0].value, ast.Name) and rets[0].value.id == arg):
                raise Untranslatable(f"parameters.py:{n.name}: does not return the value unchanged")
            out[NUM_FIELDS[f]] = op
    missing = [v for v in NUM_FIELDS.values() if v not in out]
    if missing:
        raise Untranslatable(f"parameters.py: no validator found for {missing}")
    return out


# ---------------------------------------------------------------- endpoint chain
def endpoint_chain(src: Path):
    tree = ast.parse((src / "transports/sse/transport.py").read_text())
    fn = _func(tree, "_handle_endpoint_event")
    body = fn.body
    for s in fn.body:
        if isinstance(s, ast.Try):
            body = s.body
            break
    strip_ok = any(isinstance(s, ast.Assign) and len(s.targets) == 1 and isinstance(s.targets[0], ast.Name)
                   and s.targets[0].id == "endpoint_path" and ast.unparse(s.value) == "data.strip()" for s in body)
    if not strip_ok:
        raise Untranslatable("_handle_endpoint_event: `endpoint_path = data.strip()` not found")
    chain = [s for s in body if isinstance(s, ast.If) and "endpoint_path" in ast.unparse(s.test) and "_message_url" in ast.unparse(s)]
    if len(chain) != 1:
        raise Untranslatable(f"_handle_endpoint_event: expected one if-chain assigning _message_url, found {len(chain)}")

    def var(e):
        if isinstance(e, ast.Name) and e.id == "endpoint_path":
            return "p"
        if isinstance(e, ast.Attribute) and e.attr == "base_url" and isinstance(e.value, ast.Name) and e.value.id == "self":
            return "base"
        raise Untranslatable("variable outside {endpoint_path, self.base_url}: " + ast.unparse(e))

    def cond(e):
        if isinstance(e, ast.Call) and isinstance(e.func, ast.Attribute) and e.func.attr == "startswith" and len(e.args) == 1 \
                and isinstance(e.args[0], ast.Constant) and isinstance(e.args[0].value, str):
            return f"startsWith {chars(e.args[0].value)} {var(e.func.value)}"
        if isinstance(e, ast.Compare) and len(e.ops) == 1 and isinstance(e.ops[0], (ast.In, ast.NotIn)) \
                and isinstance(e.left, ast.Constant) and isinstance(e.left.value, str):
            c = f"hasSub {chars(e.left.value)} {var(e.comparators[0])}"
            return c if isinstance(e.ops[0], ast.In) else f"!({c})"
        if isinstance(e, ast.UnaryOp) and isinstance(e.op, ast.Not):
            return f"!({cond(e.operand)})"
        if isinstance(e, ast.BoolOp):
            op = " && " if isinstance(e.op, ast.And) else " || "
            return "(" + op.join(cond(v) for v in e.values) + ")"
        raise Untranslatable("condition outside the subset: " + ast.unparse(e))

    def value(e):
        if isinstance(e, ast.JoinedStr):
            parts = []
            for v in e.values:
                if isinstance(v, ast.Constant) and isinstance(v.value, str):
                    parts.append(chars(v.value))
                elif isinstance(v, ast.FormattedValue) and v.conversion == -1 and v.format_spec is None:
                    parts.append(var(v.value))
                else:
                    raise Untranslatable("f-string part outside the subset")
            return " ++ ".join(parts) if parts else "[]"
        return var(e)

    def block(stmts):
        stmts = [s for s in stmts if not (isinstance(s, ast.Expr) and isinstance(s.value, ast.Constant))]
        if len(stmts) != 1:
            raise Untranslatable("branch with more than one statement")
        s = stmts[0]
        if isinstance(s, ast.If):
            if not s.orelse:
                raise Untranslatable("if without else")
            return f"(if {cond(s.test)} then {block(s.body)} else {block(s.orelse)})"
        if isinstance(s, ast.Assign) and len(s.targets) == 1 and ast.unparse(s.targets[0]) == "self._message_url":
            return value(s.value)
        raise Untranslatable("statement outside the subset: " + ast.unparse(s)[:60])

    return block([chain[0]])


# ---------------------------------------------------------------- header literals
def header_literals(src: Path):
    ptree = ast.parse((src / "transports/sse/parameters.py").read_text())
    ttree = ast.parse((src / "transports/sse/transport.py").read_text())

    def auth_test(fn):
        kinds = []
        for n in ast.walk(fn):
            if isinstance(n, ast.Compare) and len(n.ops) == 1:
                sides = [n.left, n.comparators[0]]
                lit = [s for s in sides if isinstance(s, ast.Constant) and isinstance(s.value, str) and s.value.lower() == "authorization"]
                low = [s for s in sides if ".lower()" in ast.unparse(s)]
                if lit and low:
                    if lit[0].value != "authorization":
                        raise Untranslatable("authorization literal is not lower case")
                    if isinstance(n.ops[0], ast.Eq):
                        kinds.append("exact")
                    elif isinstance(n.ops[0], ast.In) and n.left is lit[0]:
                        kinds.append("substring")
                    else:
                        raise Untranslatable("authorization test of another kind")
        if len(set(kinds)) != 1:
            raise Untranslatable(f"{fn.name}: expected one kind of authorization test, found {kinds}")
        return kinds[0]

    def literals(fn):
        prefix, name = set(), set()
        for n in ast.walk(fn):
            if isinstance(n, ast.Call) and isinstance(n.func, ast.Attribute) and n.func.attr == "startswith" and n.args \
                    and isinstance(n.args[0], ast.Constant) and isinstance(n.args[0].value, str):
                prefix.add(n.args[0].value)
            if isinstance(n, ast.Subscript) and isinstance(n.ctx, ast.Store) and isinstance(n.slice, ast.Constant) and isinstance(n.slice.value, str):
                name.add(n.slice.value)
        return prefix, name

    pf, tf = _func(ptree, "setup_auth_headers"), _func(ttree, "_get_headers")
    out = {"params": auth_test(pf), "transport": auth_test(tf)}
    p1, n1 = literals(pf)
    p2, n2 = literals(tf)
    if len(p1 | p2) != 1 or len(n1 | n2) != 1:
        raise Untranslatable(f"bearer prefix / header name not unique: {sorted(p1 | p2)} / {sorted(n1 | n2)}")
    out["prefix"], out["name"] = (p1 | p2).pop(), (n1 | n2).pop()
    return out


@translate.register("SseUnits")
def gen(src: Path):
    notes = []

    def part(fn, what):
        try:
            return fn(src)
        except Untranslatable as ex:
            notes.append(f"{what}: {ex}")
        except Exception as ex:  # noqa - never guess
            notes.append(f"{what}: translator error {ex!r}")
        return None

    ind = part(indicators, "is_sse_url indicators")
    rules = part(num_rules, "numeric validators")
    chain = part(endpoint_chain, "endpoint chain")
    hdr = part(header_literals, "header literals")
    b = lambda x: "true" if x is not None else "false"  # noqa: E731
    ind_l = "[" + ", ".join(chars(s) for s in (ind or [])) + "]"
    r = rules or {"timeout": "≤", "maxReconnect": "<", "reconnectDelay": "<", "keepAlive": "≤"}
    h = hdr or {"params": "exact", "transport": "substring", "prefix": "Bearer ", "name": "Authorization"}
    lean = f"""-- GENERATED by verifpy/translate_sseunits.py from transports/sse/sse_client.py, parameters.py, transport.py. Do not edit.
import Verif.Model.SseUnits
namespace Verif.Gen.SseUnits
open Verif.Model.SseReq Verif.Model.SseUnits

/-- `is_sse_url`: the substrings looked for in the lower-cased url -/
def indicatorsTranslatable : Bool := {b(ind)}
def indicators : List Str := {ind_l}

/-- parameters.py: which numbers each validator refuses -/
def rulesTranslatable : Bool := {b(rules)}
def rules : NumRules :=
  {{ timeout := fun v => decide (v {r["timeout"]} 0), maxReconnect := fun v => decide (v {r["maxReconnect"]} 0),
    reconnectDelay := fun v => decide (v {r["reconnectDelay"]} 0), keepAlive := fun v => decide (v {r["keepAlive"]} 0) }}

/-- `_handle_endpoint_event`: the message URL from `base = self.base_url`, `p = data.strip()` -/
def endpointTranslatable : Bool := {b(chain)}
def resolveGen (base p : Str) : Str := {chain if chain is not None else "p"}

/-- the two header builders: kind of the "authorization" test, bearer prefix, header name -/
def headersTranslatable : Bool := {b(hdr)}
def paramsAuthExact : Bool := {"true" if h["params"] == "exact" else "false"}
def transportAuthSubstring : Bool := {"true" if h["transport"] == "substring" else "false"}
def bearerPrefix : Str := {chars(h["prefix"])}
def authName : Str := {chars(h["name"])}

end Verif.Gen.SseUnits
"""
    # informational: nothing here is implied by the property text (see the module docstring)
    return lean, {"file": "Gen/SseUnits.lean", "untranslatable": [], "notes": notes,
                  "values": {"indicators": ind, "rules": rules, "chain": chain, "headers": hdr}}
