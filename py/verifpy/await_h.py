"""Harness: run one timed history against the real `send_message` (or a typed helper built on
it) under the virtual-time loop; plus the shared reference reading of a history used by the
C01 / C07 / C14 oracles."""
from __future__ import annotations

import math

from . import vloop

P_TICKS_DEFAULT = 512  # 0.5 s


def _idval(x, ctx):
    if x == "$ID":
        return ctx["id"]
    if isinstance(x, dict):
        return x["s"] if "s" in x else x["i"]
    return x


def _tokval(x, ctx):
    if x == "$TOK":
        return ctx.get("tok")
    if isinstance(x, dict):
        return x["s"] if "s" in x else x["i"]
    return x


def build_event(ev, ctx):
    """Scripted event -> the object a transport would put on the read stream."""
    from chuk_mcp.protocol.messages.json_rpc_message import JSONRPCMessage, parse_message

    k = ev["k"]
    if k == "resp":
        d = {"jsonrpc": "2.0", "id": _idval(ev["id"], ctx), "result": ev["p"]}
        d.update(ev.get("extra") or {})
        return parse_message(d)
    if k == "progress_bare":
        return parse_message({"jsonrpc": "2.0", "method": "notifications/progress"})
    if k == "err":
        err = {}
        if ev.get("code") is not None:
            err["code"] = ev["code"]
        if ev.get("msg") is not None:
            err["message"] = ev["msg"]
        if "data" in ev:
            err["data"] = ev["data"]
        if "code" in err and "message" in err:
            return parse_message({"jsonrpc": "2.0", "id": _idval(ev["id"], ctx), "error": err})
        return JSONRPCMessage(id=_idval(ev["id"], ctx), error=err)
    if k == "req":
        d = {"jsonrpc": "2.0", "id": _idval(ev["id"], ctx), "method": ev["method"]}
        if "params" in ev:
            d["params"] = ev["params"]
        return parse_message(d)
    if k == "notif":
        d = {"jsonrpc": "2.0", "method": ev["method"]}
        if "params" in ev:
            d["params"] = ev["params"]
        return parse_message(d)
    if k == "progress":
        params = {}
        tok = _tokval(ev.get("token"), ctx)
        if tok is not None:
            params["progressToken"] = tok
        for f in ("progress", "total", "message"):
            if ev.get(f) is not None:
                params[f] = ev[f]
        return parse_message({"jsonrpc": "2.0", "method": "notifications/progress", "params": params})
    if k == "batch":
        return [build_event(e, ctx) for e in ev["items"]]
    if k == "raw":
        # a wire object at the edge of what the parser accepts (params that are an array or a
        # scalar, a method that is not a string ...): the transports deliver exactly what
        # parse_message accepts and drop what it refuses
        d = _subst(ev["d"], ctx)
        try:
            return parse_message(d)
        except Exception as ex:
            raise ParserRefuses(repr(ex)[:120])
    raise ValueError(k)


class ParserRefuses(Exception):
    """the library's own parser refuses the wire object: a transport would drop it"""


def _subst(x, ctx):
    if x == "$ID":
        return ctx["id"]
    if x == "$TOK":
        return ctx.get("tok")
    if isinstance(x, dict):
        return {k: _subst(v, ctx) for k, v in x.items()}
    if isinstance(x, list):
        return [_subst(v, ctx) for v in x]
    return x


def mid_of(v):
    return {"s": v} if isinstance(v, str) else {"i": v}


def resolved_event(ev, ctx):
    """The same event with $ID / $TOK resolved, in the driver's vocabulary."""
    def mid(x):
        v = _idval(x, ctx)
        return {"s": v} if isinstance(v, str) else {"i": v}
    k = ev["k"]
    if k == "raw":
        # an accepted edge object carries a method (the generator only makes such ones): it is a
        # server request, a progress notification (usable only with an object for params) or
        # another notification
        d = _subst(ev["d"], ctx)
        if d.get("id") is not None:
            return {"k": "req", "id": mid_of(d["id"]), "method": str(d.get("method"))}
        if d.get("method") == "notifications/progress":
            ps = d.get("params") if isinstance(d.get("params"), dict) else {}
            t = ps.get("progressToken")
            tok = mid_of(t) if isinstance(t, (str, int)) and not isinstance(t, bool) else None
            return {"k": "progress", "token": tok, "prog": ps.get("progress"), "total": ps.get("total"), "message": ps.get("message")}
        return {"k": "notif", "method": str(d.get("method"))}
    if k == "err" and ev.get("id") is None:
        # an error the server could not attribute to any request (id null): to the model it is one
        # more message that bears nobody's id
        return {"k": "notif", "method": "(error response with id null)"}
    if k == "resp":
        return {"k": "resp", "id": mid(ev["id"]), "p": ev["p"]}
    if k == "err":
        return {"k": "err", "id": mid(ev["id"]), "code": ev.get("code"), "msg": ev.get("msg")}
    if k == "req":
        return {"k": "req", "id": mid(ev["id"]), "method": ev["method"]}
    if k == "notif":
        return {"k": "notif", "method": ev["method"]}
    if k == "progress_bare":
        return {"k": "progress", "token": None, "prog": None, "total": None, "message": None}
    if k == "progress":
        t = _tokval(ev.get("token"), ctx)
        return {"k": "progress", "token": None if t is None else ({"s": t} if isinstance(t, str) else {"i": t}),
                "prog": ev.get("progress"), "total": ev.get("total"), "message": ev.get("message")}
    return {"k": "batch"}


HELPERS = {}
_FILLER = object()
_HUNG = object()


class _Hung(Exception):
    pass


def _plain(x):
    """str / dict / list SUBCLASS instances -> the builtin types (observations cross process
    boundaries and are compared structurally; the JSON type is what matters)"""
    if isinstance(x, bool) or x is None or type(x) in (int, float, str):
        return x
    if isinstance(x, str):
        return str(x)
    if isinstance(x, dict):
        return {_plain(k): _plain(v) for k, v in x.items()}
    if isinstance(x, (list, tuple)):
        return [_plain(v) for v in x]
    return x


class _Unprintable(Exception):
    def __str__(self):
        raise RuntimeError("str() of this exception fails")


# what a failing user callback may raise: every ordinary exception class the handler might name,
# and one whose text cannot be produced (the code logs the exception)
_CB_EXCEPTIONS = [lambda: RuntimeError("callback failure (scripted)"), lambda: KeyError("k"), lambda: ValueError("%s %d {0}"),
                  lambda: TypeError(), lambda: IndexError(3), lambda: AttributeError("x"), lambda: OSError(5, "io"),
                  lambda: Exception(), lambda: AssertionError("a"), lambda: LookupError(), lambda: _Unprintable()]


def _debug_logging():
    """Run the code as a host application with logging configured at DEBUG would: every
    `logging.debug(...)` / `isEnabledFor(DEBUG)` branch is live.  Records go to a NullHandler.
    Returns the function that restores the previous state."""
    import logging
    root = logging.getLogger()
    prev_disable, prev_level = root.manager.disable, root.level
    h = logging.NullHandler()
    prev_handlers = list(root.handlers)  # e.g. the StreamHandler an earlier logging.error() installed
    root.handlers[:] = [h]
    root.setLevel(logging.DEBUG)
    logging.disable(logging.NOTSET)

    def restore():
        logging.disable(prev_disable)
        root.setLevel(prev_level)
        root.handlers[:] = prev_handlers
    return restore


class _AfterFirst:
    """Write-stream proxy: runs `hook()` right after the first successful send."""

    def __init__(self, inner, hook):
        self._inner, self._hook, self._first = inner, hook, True

    async def send(self, item):
        await self._inner.send(item)
        if self._first:
            self._first = False
            self._hook()

    def __getattr__(self, name):
        return getattr(self._inner, name)


def _helpers():
    """name -> (callable(read, write, timeout_s) -> awaitable, kind)   kind: 'result' | 'bool'"""
    from . import helpers
    hs, _ = helpers.discover()
    out = {k: (v[0], v[1]) for k, v in hs.items()}
    # send_initialize is a typed request helper too; it is driven only on its ERROR path here (its
    # success path is C03's subject), where it has one documented mapping of its own
    try:
        from chuk_mcp.protocol.messages.initialize.send_messages import send_initialize
        out["send_initialize"] = ((lambda r, w, t: send_initialize(r, w, timeout=t)), "init")
    except Exception:
        pass
    return out


async def _one(case, token, obs, streams=None, cancel_fn=None):
    """One request, started now; event / completion ticks relative to the start.  `streams` =
    (in_send, in_recv, out_send, out_recv) of a connection shared with earlier requests (then the
    write stream is unbounded and always open), else fresh streams."""
    import anyio
    from chuk_mcp.protocol.messages.send_message import send_message, CancelledError
    from chuk_mcp.protocol.types.errors import RetryableError, NonRetryableError

    loop = __import__("asyncio").get_running_loop()
    t0 = loop.ticks
    if streams is None:
        in_send, in_recv = anyio.create_memory_object_stream(math.inf)
    else:
        in_send, in_recv = streams[0], streams[1]
    # "writer": what the write stream does AFTER the first write: "open" takes everything;
    # "blocked" = the peer stopped reading and the (one-slot) buffer is kept full; "closed" = the
    # peer's end is closed right after the first write
    wmode = case.get("writer", "open")
    if streams is None:
        out_send, out_recv = anyio.create_memory_object_stream(1 if wmode in ("blocked", "stalled") else math.inf)
    else:
        out_send, out_recv = streams[2], streams[3]
        wmode = "open"
    filler_send = out_send.clone()
    writes = []
    # a caller-supplied id is known up front; a falsy one ("" / 0) makes send_message generate
    # its own, so the id is then read from the request that is actually written
    preset = _idval(case["id"], {}) if case.get("id") is not None and not case.get("helper") else None
    ctx = {"id": preset if preset else None, "tok": None}

    def drain():
        if wmode in ("blocked", "stalled") and writes and not drain.final and not drain.released:
            return  # the peer has stopped reading: taking an item would let a blocked write through
        while True:
            try:
                m = out_recv.receive_nowait()
            except anyio.WouldBlock:
                break
            except Exception:
                break
            if m is _FILLER:
                continue
            d = _plain(m.model_dump(exclude_none=True) if hasattr(m, "model_dump") else m)
            writes.append(d)
            if isinstance(d, dict) and "id" in d and d.get("method") and d.get("method") != "notifications/cancelled":
                if ctx["id"] is None:
                    ctx["id"] = d["id"]
                meta = (d.get("params") or {}).get("_meta") or {}
                # the request's own progress token exists only when a callback was supplied
                ctx["tok"] = meta.get("progressToken") if case.get("progress") else None
        if wmode in ("blocked", "stalled") and writes and not drain.final and not drain.released:
            try:
                filler_send.send_nowait(_FILLER)  # keep the one slot occupied
            except Exception:
                pass

    drain.final = False
    drain.released = False

    def reads_again():
        # the stalled peer starts reading again: whatever is waiting goes through, and from now on
        # the stream is drained at every scripted instant as in the open state
        drain.released = True
        drain()
        loop.at(loop.ticks, drain)  # the write that was blocked completes in this instant

    if wmode == "stalled":
        loop.at(t0 + case["stallUntil"], reads_again)

    def after_first_write():
        drain()
        if wmode == "closed":
            out_recv.close()

    if wmode != "open":
        out_send = _AfterFirst(out_send, after_first_write)

    cbs = []
    raises = set(case.get("cbRaises") or [])

    cb_ticks = []

    async def cb(progress, total, message):
        k = len(cbs)
        cbs.append([progress, total, message])
        cb_ticks.append(loop.ticks - t0)
        if case.get("cbSleep"):
            # a callback that takes time (writes a progress bar, awaits a UI): the wait goes on afterwards
            await anyio.sleep(case["cbSleep"] * vloop.TICK)
        act = case.get("cbAction")
        if act and k == act[1]:
            # re-entrancy: the callback uses the objects the call itself is using
            if act[0] == "cancel" and cancel_fn is not None:
                cancel_fn()
            elif act[0] == "send":
                from chuk_mcp.protocol.messages.json_rpc_message import create_notification
                await out_send.send(create_notification(method="notifications/message", params={"from": "callback"}))
        if k in raises:
            raise _CB_EXCEPTIONS[(case.get("cbExc", 0) + k) % len(_CB_EXCEPTIONS)]()

    def fire(ev, idx):
        def f():
            drain()
            try:
                in_send.send_nowait(build_event(ev, ctx))
            except ParserRefuses:
                obs.setdefault("dropped", []).append(idx)  # never reaches the read stream
            except Exception as ex:  # scripted event could not be built: harness problem
                obs.setdefault("harness_errors", []).append(repr(ex))
        return f

    for idx, (a, ev) in enumerate(case["ev"]):
        loop.at(t0 + a, fire(ev, idx))
    if case.get("eos") is not None:
        # the connection's read side ends (transport shut down, peer gone) at that tick
        loop.at(t0 + case["eos"], in_send.close)

    D_s = case["D"] * vloop.TICK
    helper = case.get("helper")
    # harness guard: a call that is still running this long after its own deadline is cut off and
    # reported as "hung" (an outcome of its own; the oracles decide what it means)
    guard_s = D_s + 4 * P_TICKS_DEFAULT * vloop.TICK + 1.0
    hung = {"v": False}

    def release():
        # the guard instant: a call still running is hung.  A write the code shields from
        # cancellation cannot be cut off by the scope below, so the stalled writer is let go
        # (the peer "starts reading again"); whatever the call then does, it is reported as hung.
        hung["v"] = True
        if wmode in ("blocked", "stalled"):
            drain.final = True
            drain()

    loop.at(t0 + case["D"] + 4 * P_TICKS_DEFAULT + 1024, release)
    restore_logging = _debug_logging() if case.get("debug") else None
    warn_ctx = None
    if case.get("warnErr"):
        # a host that runs with warnings as errors (python -W error, pytest filterwarnings = error)
        import warnings
        warn_ctx = warnings.catch_warnings()
        warn_ctx.__enter__()
        warnings.simplefilter("error")
        warnings.simplefilter("ignore", ResourceWarning)  # the harness's own streams, collected late
    try:
        res = _HUNG
        with anyio.move_on_after(guard_s + vloop.TICK):
            if helper:
                fn, _kind = _helpers()[helper]
                res = await fn(in_recv, out_send, D_s)
            else:
                kwargs = {}
                if case.get("id") is not None:
                    mid = _idval(case["id"], {})
                    if case.get("idSubclass") and isinstance(mid, str):
                        mid = type("CallerStr", (str,), {})(mid)  # a str SUBCLASS as the caller's id
                    kwargs["message_id"] = mid
                if token is not None:
                    kwargs["cancellation_token"] = token
                if case.get("progress"):
                    kwargs["progress_callback"] = _cb_form(cb, case.get("cbForm", "func"))
                params = case.get("params")
                if params is not None:
                    import copy
                    params = copy.deepcopy(params)
                res = await send_message(in_recv, out_send, case.get("method", "tools/list"), params, timeout=D_s, **kwargs)
        if res is _HUNG or hung["v"]:
            raise _Hung()
        obs["outcome"] = "returned"
        if hasattr(res, "model_dump"):
            res = {"__model__": type(res).__name__, "dump": res.model_dump(by_alias=True, exclude_none=True)}
        obs["p"] = res
    except _Hung:
        obs["outcome"] = "hung"
    except TimeoutError:
        obs["outcome"] = "hung" if hung["v"] else "timeout"
    except CancelledError:
        obs["outcome"] = "hung" if hung["v"] else "cancelled"
    except (RetryableError, NonRetryableError) as ex:
        obs["outcome"] = "raised"
        obs["retryable"] = isinstance(ex, RetryableError)
        obs["code"] = ex.code
        obs["text"] = str(ex)
    except Exception as ex:  # any other exception type
        obs["outcome"] = "exception"
        obs["exc"] = type(ex).__name__
        obs["text"] = str(ex)[:200]
    if restore_logging is not None:
        restore_logging()
    if warn_ctx is not None:
        warn_ctx.__exit__(None, None, None)
    obs["t"] = loop.ticks - t0
    obs["start"] = t0
    drain.final = True
    drain()
    obs["writes"] = writes
    obs["cbs"] = cbs
    obs["cb_ticks"] = cb_ticks
    obs["sent_id"] = ctx["id"]
    obs["tok"] = ctx["tok"]
    return obs


def _cb_form(cb, form):
    """the same callback as the kinds of callable a caller may pass where an async callable is
    documented: a coroutine function, an object with `async def __call__`, a lambda / plain function /
    functools.partial returning the coroutine"""
    if form == "object":
        class Reporter:
            async def __call__(self, progress, total, message):
                return await cb(progress, total, message)
        return Reporter()
    if form == "lambda":
        return lambda progress, total, message: cb(progress, total, message)
    if form == "partial":
        import functools

        async def with_ctx(_ctx, progress, total, message):
            return await cb(progress, total, message)
        return functools.partial(with_ctx, "ctx")
    if form == "method":
        class Ui:
            async def on_progress(self, progress, total, message):
                return await cb(progress, total, message)
        return Ui().on_progress
    return cb


def make_token(kind):
    """-> (token handed to send_message, function that cancels it).  "plain": the library's own
    class.  "linked": a subclass whose flag is its parent's (cancelling the parent runs the PARENT's
    callbacks only -- a group of requests under one parent).  "duck": an unrelated object with the
    same public surface (is_cancelled / add_callback / cancel) that keeps no callbacks."""
    from chuk_mcp.protocol.messages.send_message import CancellationToken
    if kind == "linked":
        parent = CancellationToken()

        class Linked(CancellationToken):
            @property
            def is_cancelled(self):
                return parent.is_cancelled or super().is_cancelled
        return Linked(), parent.cancel
    if kind == "duck":
        class Duck:
            def __init__(self):
                self._flag = False

            @property
            def is_cancelled(self):
                return self._flag

            def add_callback(self, cb):
                if self._flag:
                    cb()

            def cancel(self):
                self._flag = True
        d = Duck()
        return d, d.cancel
    t = CancellationToken()
    return t, t.cancel


def run_case(case):
    """Execute one scripted history on the real code.  Returns the observation dict."""
    obs = {}

    async def main():
        loop = __import__("asyncio").get_running_loop()
        token, cancel = (make_token(case.get("tokenKind", "plain"))
                         if (case.get("hasToken") or case.get("pre") or case.get("cancelAt") is not None) else (None, None))
        if token is not None and case.get("pre"):
            cancel()
        if case.get("cancelAt") is not None:
            loop.at(case["cancelAt"], cancel)
        await _one(case, token, obs, cancel_fn=cancel)

    vloop.run(main, tie=case.get("tie", "events"))
    return obs


def run_seq(case):
    """Several requests sharing ONE CancellationToken: `mode` "seq" = one after the other (idle
    `gaps[i]` ticks in between), "par" = all started at tick 0 as concurrent tasks, each on its own
    stream pair.  `fire` = absolute tick at which the token is cancelled (None: never; 0 with
    `fireBefore`: before the first call).  Returns the list of per-request observations."""
    import anyio
    from chuk_mcp.protocol.messages.send_message import CancellationToken

    out = [dict() for _ in case["reqs"]]

    async def main():
        loop = __import__("asyncio").get_running_loop()
        token, cancel = (None, None) if case.get("noToken") else make_token(case.get("tokenKind", "plain"))
        fire = case.get("fire")
        if fire is not None:
            if fire == 0:
                cancel()
            else:
                loop.at(fire, cancel)
        if case.get("mode") == "par":
            async with anyio.create_task_group() as tg:
                for sub, o in zip(case["reqs"], out):
                    tg.start_soon(_one, sub, token, o)
        else:
            gaps = case.get("gaps") or []
            shared = None
            if case.get("sharedStreams"):
                # ONE connection for the whole sequence (a retry, the next call of a session)
                a, b = anyio.create_memory_object_stream(math.inf)
                c, d = anyio.create_memory_object_stream(math.inf)
                shared = (a, b, c, d)
            for i, (sub, o) in enumerate(zip(case["reqs"], out)):
                await _one(sub, token, o, shared)
                g = gaps[i] if i < len(gaps) else 0
                if g:
                    await anyio.sleep(g * vloop.TICK)

    vloop.run(main, tie=case.get("tie", "events"))
    return out


def seq_model_line(case, obs_list, poll_ticks=P_TICKS_DEFAULT):
    """Driver line for a shared-token case ("par": one sequence of length 1 per request)."""
    subs = []
    for sub, o in zip(case["reqs"], obs_list):
        sub = dict(sub, tie=case.get("tie", "events"))
        line = model_line(sub, o, poll_ticks)
        line.pop("m")
        subs.append(line)
    return {"m": "await", "seq": subs, "gaps": case.get("gaps") or [], "fire": case.get("fire"), "start": 0,
            "par": case.get("mode") == "par"}


def model_line(case, obs, poll_ticks=P_TICKS_DEFAULT):
    """Driver line for a case (ids/tokens resolved from what the implementation sent)."""
    sent = obs.get("sent_id")
    if sent is None:
        sent = _idval(case["id"], {}) if case.get("id") is not None else "?"
    ctx = {"id": sent, "tok": obs.get("tok")}
    return {
        "m": "await",
        "id": {"s": sent} if isinstance(sent, str) else {"i": sent},
        "D": case["D"], "P": poll_ticks,
        "pre": bool(case.get("pre")),
        "cancelAt": case.get("cancelAt"),
        "token": ({"s": ctx["tok"]} if isinstance(ctx["tok"], str) else {"i": ctx["tok"]}) if ctx["tok"] is not None else None,
        "eventsFirst": case.get("tie", "events") in ("events", "io"),
        "writer": case.get("writer", "open"), "stallUntil": case.get("stallUntil"),
        **({"cbDur": case["cbSleep"]} if case.get("cbSleep") else {}),
        "ev": [[a, resolved_event(ev, ctx)] for i, (a, ev) in enumerate(case["ev"]) if i not in (obs.get("dropped") or [])],
    }


def impl_shape(case, obs):
    """Project the implementation's observation onto the model's vocabulary."""
    out = {"outcome": obs["outcome"], "t": obs["t"], "cbs": obs["cbs"]}
    if obs["outcome"] == "returned":
        out["p"] = obs.get("p")
    if obs["outcome"] == "raised":
        out["retryable"] = obs["retryable"]
        out["code"] = obs["code"]
    if obs["outcome"] == "exception":
        out["exc"] = obs.get("exc")
    ws = []
    for w in obs["writes"]:
        if isinstance(w, dict) and w.get("method") == "notifications/cancelled":
            ws.append("cancel")
        elif isinstance(w, dict) and "id" in w and w.get("method"):
            ws.append("request")
        else:
            ws.append("other")
    out["writes"] = ws
    return out


def model_shape(out):
    m = {"outcome": out.get("outcome"), "t": out.get("t"), "cbs": out.get("cbs"), "writes": out.get("writes")}
    if out.get("outcome") == "returned":
        m["p"] = out.get("p")
    if out.get("outcome") == "raised":
        m["retryable"] = out["retryable"]
        m["code"] = out["code"]
    return m


# ----------------------------------------------------------------------- reference reading
def matching(ev, sent_id):
    """Is this scripted event a response (result or error, no method) bearing the sent id?"""
    if ev["k"] not in ("resp", "err") or ev.get("id") is None:
        return False
    v = _idval(ev["id"], {"id": sent_id})
    return type(v) is type(sent_id) and v == sent_id


def first_matching(case, sent_id):
    for i, (a, ev) in enumerate(case["ev"]):
        if matching(ev, sent_id):
            return i, a, ev
    return None
