"""Harness of C08: one incoming message through the REAL ProtocolHandler of a REAL MCPServer
carrying tools, resources and custom methods with every behaviour (returns / raises / returns
nonsense), exactly as the minimal stdio server loop of examples/server_helpers.py does it:
envelope = JSONRPCMessage.model_validate(dict); (response, sid) = await handle_message(envelope);
printed line = json.dumps(response.model_dump(exclude_none=True)).

case = {"msg": {jsonrpc, id?, method?, params?}, "env": "legacy"|"parse"|"typed"}
"""
from __future__ import annotations

import asyncio
import json
import warnings

# handlers that hand back a coroutine they never await are part of the "returns nonsense" alphabet
warnings.filterwarnings("ignore", category=RuntimeWarning, message=r"coroutine .* was never awaited")

_LOOP = None
_SERVER = None
_USES = 0


def _loop():
    global _LOOP
    if _LOOP is None or _LOOP.is_closed():
        _LOOP = asyncio.new_event_loop()
    return _LOOP


class BadStr:
    def __str__(self):
        raise ValueError("cannot be rendered")

    __repr__ = __str__


# ---- the application's handlers: name -> (python behaviour, behaviour class for the model) -----
# every tool accepts exactly one optional keyword `text`


async def t_echo(text="d"):
    return "echo:" + str(text)


async def t_dict(text="d"):
    return {"a": 1, "b": [1, 2], "t": text}


async def t_list(text="d"):
    return ["x", {"k": "v"}, 3, None]


async def t_none(text="d"):
    return None


async def t_object(text="d"):
    return object()


async def t_unserializable(text="d"):
    return {"s": {1, 2}, "b": b"\xff"}


async def t_badstr(text="d"):
    return BadStr()


async def t_boom(text="d"):
    raise RuntimeError("boom")


async def t_keyerror(text="d"):
    raise KeyError("k")


def t_sync(text="d"):
    return "not awaitable"


TOOLS = {
    "echo": (t_echo, "returns"), "dict": (t_dict, "returns"), "list": (t_list, "returns"),
    "none": (t_none, "returns"), "object": (t_object, "returns"),
    "unserializable": (t_unserializable, "nonsense"), "badstr": (t_badstr, "nonsense"), "sync": (t_sync, "nonsense"),
    "boom": (t_boom, "raises"), "keyerror": (t_keyerror, "raises"),
    "": (t_echo, "returns"),
}
TOOL_KWARGS = {"text"}


async def r_ok():
    return "text of the resource"


async def r_none():
    return None


async def r_bytes():
    return b"\x00\xff"


async def r_boom():
    raise OSError("gone")


def r_sync():
    return "not awaitable"


async def r_badstr():
    return BadStr()


RESOURCES = {
    "file:///ok": (r_ok, "returns"), "file:///none": (r_none, "returns"), "file:///bytes": (r_bytes, "returns"),
    "file:///boom": (r_boom, "raises"), "file:///sync": (r_sync, "nonsense"), "file:///badstr": (r_badstr, "nonsense"),
}

CUSTOM = {
    "custom/answers": "answers", "custom/silent": "silent", "notifications/custom": "silent",
    "custom/raises": "raises", "custom/none": "nonsense", "custom/int": "nonsense", "custom/triple": "nonsense",
    "custom/single": "nonsense", "custom/sync": "nonsense",
}


# ---- "a handler raises": one handler per SHAPE of exception ---------------------------------------
# (the text of the exception is what the dispatcher formats into its log line and error message)


class UnprintableError(Exception):
    def __str__(self):
        raise RuntimeError("this exception has no text")


class UnprintableRecursive(Exception):
    def __str__(self):
        raise UnprintableRecursive()

    __repr__ = __str__


class EmptyStrError(Exception):
    def __init__(self, *a):
        super().__init__("something")

    def __str__(self):
        return ""


class NonStrStrError(Exception):
    def __str__(self):
        return 5  # str() then raises TypeError


def _chained():
    try:
        raise ValueError("")
    except ValueError as inner:
        raise RuntimeError("outer\nsecond line") from inner


def _assert():
    assert False


def _pydantic_validation_error():
    from chuk_mcp.protocol.messages.json_rpc_message import JSONRPCError

    JSONRPCError(jsonrpc="2.0", id=None, error={"code": 1, "message": "m"})  # raises a multi-line ValidationError
    raise AssertionError("the envelope accepted a null id")


def _unicode_decode():
    b"\xff\xfe".decode("utf-8")


def _raise(exc):
    def f():
        raise exc() if callable(exc) else exc
    return f


# shape -> zero-argument function that raises
RAISERS = {
    "plain": _raise(lambda: RuntimeError("boom")),
    "empty": _raise(lambda: ValueError("")),
    "noargs": _raise(lambda: KeyError()),
    "bare-exception": _raise(lambda: Exception()),
    "assert": _assert,
    "timeout": _raise(lambda: asyncio.TimeoutError()),
    "stop-async-iteration": _raise(lambda: StopAsyncIteration()),
    "stop-iteration": _raise(lambda: StopIteration(3)),
    "newline-only": _raise(lambda: ValueError("\n")),
    "crlf-only": _raise(lambda: ValueError("\r\n\r\n")),
    "multiline": _raise(lambda: ValueError("first line\nsecond line\r\nthird")),
    "leading-newline": _raise(lambda: ValueError("\nsecond line only")),
    "nonascii-control": _raise(lambda: RuntimeError("Ünï ид \x00\x1b[31m\u2028\u2029\x85 \U0001f600")),
    "lone-surrogate": _raise(lambda: RuntimeError("bad \ud800 surrogate")),
    "long": _raise(lambda: RuntimeError("x" * 100000)),
    "nonstring-args": _raise(lambda: ValueError(5, b"\xff", object(), None)),
    "int-arg": _raise(lambda: KeyError(0)),
    "empty-str-method": _raise(lambda: EmptyStrError()),
    "str-returns-nonstring": _raise(lambda: NonStrStrError()),
    "chained": _chained,
    "exception-group": _raise(lambda: ExceptionGroup("", [ValueError(""), KeyError()])),
    "pydantic-validation": _pydantic_validation_error,
    "unicode-decode": _unicode_decode,
    "os-error": _raise(lambda: FileNotFoundError(2, "", "")),
    "unprintable": _raise(lambda: UnprintableError()),
    "unprintable-recursive": _raise(lambda: UnprintableRecursive()),
}
# an exception object whose own text cannot be produced; see props/c08.py (DEMAND_UNPRINTABLE)
UNPRINTABLE = {"str-returns-nonstring", "unprintable", "unprintable-recursive"}


# format-hostile and look-alike exception texts, falsy exception arguments
RAISERS.update({
    "percent": _raise(lambda: ValueError("%s %d %(name)s 100% %")),
    "braces": _raise(lambda: ValueError("{} {0} {method} {e} {{ } {")),
    "quotes-backslash": _raise(lambda: ValueError("'\"\\ \\n \\")),
    "falsy-arg-zero": _raise(lambda: ValueError(0)),
    "falsy-arg-false": _raise(lambda: ValueError(False)),
    "falsy-arg-empty-list": _raise(lambda: ValueError([])),
    "falsy-arg-none": _raise(lambda: ValueError(None)),
    "falsy-arg-empty-bytes": _raise(lambda: ValueError(b"")),
    "looks-like-unknown-tool": _raise(lambda: ValueError("Unknown tool: echo")),
    "looks-like-method-not-found": _raise(lambda: KeyError("Method not found: ping")),
    "recursion-error": _raise(lambda: RecursionError("maximum recursion depth exceeded")),
})


def _builtin_exception_raisers():
    """every builtin Exception class (not BaseException-only ones), raised with a short text"""
    import builtins

    out = {}
    for name in sorted(dir(builtins)):
        cls = getattr(builtins, name)
        if isinstance(cls, type) and issubclass(cls, Exception) and not issubclass(cls, Warning) and name != "ExceptionGroup":
            def mk(cls=cls):
                try:
                    if issubclass(cls, UnicodeDecodeError):
                        return cls("utf-8", b"\xff", 0, 1, "bad")
                    if issubclass(cls, UnicodeEncodeError):
                        return cls("ascii", "\xe9", 0, 1, "bad")
                    if issubclass(cls, UnicodeTranslateError):
                        return cls("\xe9", 0, 1, "bad")
                    return cls("x")
                except Exception:
                    return RuntimeError("could not build " + cls.__name__)
            out["builtin/" + name] = _raise(mk)
    return out


RAISERS.update(_builtin_exception_raisers())

# text that looks like the syntax being produced or parsed (JSON-RPC lines, JSON tokens, SSE fields)
SYNTAX_TEXT = ['{"jsonrpc":"2.0","id":1,"result":{}}', '{"jsonrpc":"2.0","id":1,"error":{"code":-32601,"message":"x"}}', "[NaN]", ":Infinity,",
               "values=[1.0, NaN]", '\n{"id":1}', "data: x", "event: message", "id: 1", "retry: 1", ":", "{}", "[]", "null", "true",
               '"', '\\"', "}{", '{"a":{"a":{"a":1}}}', "a\n\ndata: y"]
# exception OBJECTS that carry attributes named like the fields a response is built from (code, message, data, id, error,
# result, jsonrpc), or whose args / __str__ are unusual: whatever they carry, "a handler raised" is answered -32603


def _attr_exc(**attrs):
    def mk():
        e = RuntimeError("carries attributes")
        for k, v in attrs.items():
            setattr(e, k, v() if callable(v) and getattr(v, "_factory", False) else v)
        return e
    return _raise(mk)


def _http_error(code):
    def mk():
        import urllib.error

        return urllib.error.HTTPError("http://example.invalid/x", code, "Not Found" if code == 404 else "Unavailable", None, None)
    return _raise(mk)


class _CodeMethod(Exception):
    def code(self):  # grpc-style: the status is a METHOD
        return 14

    def details(self):
        return "unavailable"


class _CodeProperty(Exception):
    @property
    def code(self):
        raise KeyError("no code yet")


class _ArgsOverridden(Exception):
    args = "not a tuple"  # type: ignore[assignment]


def _called_process_error():
    import subprocess

    raise subprocess.CalledProcessError(3, ["tool", "--x"], output=b"o", stderr=b"e")


def _json_decode_error():
    json.loads("{bad")


RAISERS.update({
    "attr/http-404": _http_error(404), "attr/http-503": _http_error(503),
    "attr/code-none": _attr_exc(code=None), "attr/code-32601": _attr_exc(code=-32601), "attr/code-32602": _attr_exc(code=-32602),
    "attr/code-zero": _attr_exc(code=0), "attr/code-str": _attr_exc(code="E_FAIL"), "attr/code-float": _attr_exc(code=404.5),
    "attr/code-true": _attr_exc(code=True), "attr/code-huge": _attr_exc(code=2 ** 70), "attr/code-list": _attr_exc(code=[1]),
    "attr/code-method": _raise(lambda: _CodeMethod("grpc")), "attr/code-property-raises": _raise(lambda: _CodeProperty("p")),
    "attr/message-int": _attr_exc(message=5), "attr/message-none": _attr_exc(message=None), "attr/message-bytes": _attr_exc(message=b"m"),
    "attr/data-object": _attr_exc(data=object()), "attr/data-set": _attr_exc(data={1, 2}), "attr/id": _attr_exc(id="someone-else"),
    "attr/error-dict": _attr_exc(error={"code": -32000, "message": "m"}), "attr/result": _attr_exc(result={}), "attr/jsonrpc": _attr_exc(jsonrpc="1.0"),
    "attr/all": _attr_exc(code=-32000, message="m", data={"d": 1}, id=7, error={"code": 1}, result={}),
    "attr/args-overridden": _raise(lambda: _ArgsOverridden("a")), "attr/called-process-error": _called_process_error,
    "attr/json-decode-error": _json_decode_error,
})

# size x text edge: LONG texts (beyond any clipping budget) that also contain a lone surrogate, a non-BMP character, NUL,
# multi-byte characters at every cut position — for every string that can end up in an error message
EDGE_LONG = ["a" * 600 + "\udc80", "\udc80" * 700, "x" * 511 + "\ud800" + "y" * 20, "x" * 5000 + "\udfff", "\U0001f600" * 300,
             "\x00" * 600, "\u00e9" * 2100, "a" * 2046 + "\u20ac" * 3, "z" * 2049, "\ud83d" + "q" * 3000, "\u2028" * 800,
             "k" * 127 + "\udc80" + "k" * 128, "k" * 255 + "\U0001f600\udc80" + "k" * 300, "k" * 1023 + "\x00\udc80" + "k" * 1100]
RAISERS.update({"edge-long/%d" % k: _raise(lambda t=t: RuntimeError(t)) for k, t in enumerate(EDGE_LONG)})
RAISERS.update({"syntax/%d" % k: _raise(lambda t=t: ValueError(t)) for k, t in enumerate(SYNTAX_TEXT)})


def _deep_list(n):
    x = ["leaf"]
    for _ in range(n):
        x = [x]
    return x


def _returning(value, suspend=False):
    async def tool(text="d"):
        if suspend:
            await asyncio.sleep(0)
        return value() if callable(value) else value
    return tool


HOSTILE_TEXT = "%s %d {0} {} {text} \n\r\n \u2028\u2029\x85 '\"\\"
# tool name -> value handed back (falsy values, containers, look-alikes, sizes); all are formatted into a result
RETURNS = {
    "ret/empty-str": "", "ret/zero": 0, "ret/zero-float": 0.0, "ret/false": False, "ret/empty-list": [], "ret/empty-dict": {},
    "ret/nested-empty": [[], [[]], {}], "ret/nested-lists": [["a", ["b", {"k": []}]], "", 0], "ret/tuple": ("a", 1),
    "ret/empty-bytes": b"", "ret/hostile-text": HOSTILE_TEXT, "ret/hostile-dict": {HOSTILE_TEXT: HOSTILE_TEXT, "": None},
    "ret/looks-like-error": {"jsonrpc": "2.0", "id": None, "error": {"code": -32602, "message": "Unknown tool: x"}},
    "ret/large": lambda: ["x" * 200] * 3000, "ret/long-text": lambda: "y" * 300000, "ret/deep-100": lambda: _deep_list(100),
    # names that are twins of non-string JSON values, constants of the code under test, format-hostile names
    "0": "zero", "7": "seven", "5": "five", "None": "none", "True": "true", "False": "false", "1.5": "f",
    "handler": "h", "tools/call": "t", "ping": "p", "initialize": "i", "name": "n", "arguments": "a", "-32602": "c",
    "%s": "pct", "{0}": "brace", "a\nb": "nl", "\u2028": "ls", " ": "space",
}
RETURNS.update({t: "named like syntax" for t in SYNTAX_TEXT[:8]})
RETURNS.update({"caf\u00e9": "NFC name", "\ufeffbom": "name starting with U+FEFF", "Stra\u00dfe": "sharp s"})
RETURNS["ret/syntax-texts"] = list(SYNTAX_TEXT)
RETURNS["ret/syntax-dict"] = {t: t for t in SYNTAX_TEXT}
for _n, _v in RETURNS.items():
    TOOLS[_n] = (_returning(_v), "returns")
TOOLS["ret/suspends"] = (_returning("late", suspend=True), "returns")
TOOLS["ret/deep-5000"] = (_returning(lambda: _deep_list(5000)), "nonsense")  # RecursionError while formatting


def _res_returning(value, suspend=False):
    async def res():
        if suspend:
            await asyncio.sleep(0)
        return value
    return res


for _u, _v in {"": "empty uri", "file:///empty-str": "", "file:///zero": 0, "file:///false": False, "file:///empty-bytes": b"",
               "file:///empty-list": [], "file:///hostile": HOSTILE_TEXT, "%s": "pct", "{0}": "brace", "0": "zero", "None": "none",
               "uri": "u", "resources/read": "r", "text/plain": "m", "a\nb": "nl"}.items():
    RESOURCES[_u] = (_res_returning(_v), "returns")
RESOURCES["file:///suspends"] = (_res_returning("late", suspend=True), "returns")

# custom handlers answering with falsy results / falsy session ids / after a suspension
ANSWER_RESULTS = {"answers/result-zero": 0, "answers/result-empty-str": "", "answers/result-empty-list": [], "answers/result-false": False,
                  "answers/result-empty-dict": {}, "answers/result-none": None, "answers/result-zero-float": 0.0}
ANSWER_SIDS = {"answers/sid-empty-str": "", "answers/sid-zero": 0, "answers/sid-false": False}
for _k in list(ANSWER_RESULTS) + list(ANSWER_SIDS) + ["answers/suspends"]:
    CUSTOM[_k] = "answers"
CUSTOM["raises/after-suspension"] = "raises"

# re-entrancy: a handler that awaits NESTED handle_message calls on the same ProtocolHandler, then returns / raises / ...
NESTED = {
    "request": {"jsonrpc": "2.0", "id": "nested-id", "method": "ping"},
    "request-int": {"jsonrpc": "2.0", "id": 424242, "method": "tools/list"},
    "notification": {"jsonrpc": "2.0", "method": "notifications/cancelled", "params": {"requestId": 1}},
    "unknown": {"jsonrpc": "2.0", "id": "nested-unknown", "method": "nosuch/nested"},
    "failing": {"jsonrpc": "2.0", "id": "nested-fail", "method": "custom/raises"},
    "failing-notification": {"jsonrpc": "2.0", "method": "custom/raises"},
    "no-method": {"jsonrpc": "2.0", "id": "nested-nomethod", "result": {}},
    "two": None,  # a request and then a notification
}
THEN = {"answers": "answers", "raises": "raises", "nonsense": "nonsense", "silent": "silent"}
for _n in NESTED:
    for _t, _b in THEN.items():
        CUSTOM["reenter/%s/%s" % (_n, _t)] = _b
CUSTOM["reenter/reregisters/answers"] = "answers"
TOOLS["reenter/tool"] = (None, "returns")  # filled in by build_server (needs the server)

# server variants: "overrides" re-registers built-in methods through register_method (custom entries win)
OVERRIDES = {"ping": "answers", "tools/call": "raises", "notifications/initialized": "acks", "resources/list": "silent",
             "tools/list": "nonsense"}


def custom_table(variant=None):
    if variant == "empty":
        return {}
    return dict(CUSTOM, **OVERRIDES) if variant == "overrides" else CUSTOM


def tools_table(variant=None):
    return {} if variant == "empty" else TOOLS


def resources_table(variant=None):
    return {} if variant == "empty" else RESOURCES


def _tool_raising(f):
    async def tool(text="d"):
        f()
    return tool


def _resource_raising(f):
    async def res():
        f()
    return res


for _shape, _f in RAISERS.items():
    TOOLS["raise/" + _shape] = (_tool_raising(_f), "raises")
    RESOURCES["file:///raise/" + _shape] = (_resource_raising(_f), "raises")
    CUSTOM["raise/" + _shape] = "raises"
# raising handlers registered under standard notification names
CUSTOM["notifications/message"] = "raises"          # empty text
CUSTOM["notifications/roots/list_changed"] = "raises"  # multi-line text
NOTIFICATION_RAISERS = {"notifications/message": "empty", "notifications/roots/list_changed": "pydantic-validation"}

# ---- custom handlers that hand something back whatever the message is ----------------------------
# behaviour classes: acks = a response of the handler's own making (+ maybe a session id), echoes = legacy envelope
# built from message.id (None for a notification), junk = first element is not an envelope at all
CUSTOM.update({
    "notifications/progress": "acks",            # acknowledges with an id taken from the params
    "ack/params": "acks", "ack/foreign-sid": "acksSid", "ack/sid-only": "silentSid",
    "notifications/prompts/list_changed": "silentSid",
    "notifications/resources/updated": "junk",   # a dict as first element
    "ack/dict": "junk", "ack/str": "junk", "ack/int": "junk", "ack/true": "junk", "ack/awaitable-first": "junk",
    "ack/legacy": "echoes", "notifications/tools/list_changed": "echoes",
    "answers/sync-returning-coroutine": "answers",
    "nonsense/returns-coroutine": "nonsense", "nonsense/async-generator": "nonsense", "nonsense/returns-future": "nonsense",
})
# what the Lean model is told (the model has no "junk": for a notification it is one more handler that
# hands something back; requests to such handlers are outside the statements and are not sent to the model)
MODEL_CBEH = {"junk": "acks", "silentSid": "silent"}
UNFAITHFUL_FOR_MODEL = {"acks", "acksSid", "junk"}
UNFAITHFUL = {"silent", "silentSid", "acks", "acksSid", "junk"}


def raise_shape(kind, name):
    """shape of the exception the addressed handler raises (kind: custom|tool|resource), or None"""
    if kind == "custom" and name in NOTIFICATION_RAISERS:
        return NOTIFICATION_RAISERS[name]
    prefix = {"custom": "raise/", "tool": "raise/", "resource": "file:///raise/"}[kind]
    if isinstance(name, str) and name.startswith(prefix) and name[len(prefix):] in RAISERS:
        return name[len(prefix):]
    return None


def build_server(variant=None):
    from chuk_mcp.server.server import MCPServer

    if variant == "empty":
        return MCPServer("verif-empty")  # nothing registered: empty registries
    if variant == "overrides":
        from chuk_mcp.protocol.types.capabilities import ServerCapabilities

        srv = MCPServer("verif", "2.0", capabilities=ServerCapabilities(tools={"listChanged": True}, resources={"subscribe": True}))
    else:
        srv = MCPServer("verif", "1.0")
    for name, (fn, _) in TOOLS.items():
        if fn is not None:
            srv.register_tool(name, fn, {"type": "object", "properties": {"text": {"type": "string"}}}, "t")
    for uri, (fn, _) in RESOURCES.items():
        srv.register_resource(uri, fn, name="r", mime_type="text/plain")
    ph = srv.protocol_handler

    async def c_answers(message, session_id):
        return ph.create_response(message.id, {"ok": True}), None

    async def c_silent(message, session_id):
        return None, None

    async def c_raises(message, session_id):
        raise LookupError("custom handler failed")

    async def c_none(message, session_id):
        return None

    async def c_int(message, session_id):
        return 42

    async def c_triple(message, session_id):
        return (None, None, None)

    async def c_single(message, session_id):
        return (None,)

    def c_sync(message, session_id):
        return None, None

    def raising(f):
        async def h(message, session_id):
            f()
        return h

    async def c_ack_params(message, session_id):
        params = getattr(message, "params", None) or {}
        token = params.get("requestId", params.get("progressToken", "ack"))
        return ph.create_response(token if isinstance(token, (int, str)) and not isinstance(token, bool) else "ack", {"acknowledged": True}), None

    async def c_ack_foreign_sid(message, session_id):
        return ph.create_response("someone-else", {}), "sid-from-handler"

    async def c_sid_only(message, session_id):
        return None, "sid-from-handler"

    async def c_dict(message, session_id):
        return {"jsonrpc": "2.0", "id": "d", "result": {}}, None

    async def c_str(message, session_id):
        return "ok", None

    async def c_42(message, session_id):
        return 42, None

    async def c_true(message, session_id):
        return True, None

    async def _inner():
        return None

    async def c_awaitable_first(message, session_id):
        return _inner(), None

    async def c_legacy(message, session_id):
        from chuk_mcp.protocol.messages.json_rpc_message import JSONRPCMessage as Legacy

        return Legacy.create_response(getattr(message, "id", None), {"legacy": True}), None

    def c_sync_coroutine(message, session_id):
        return c_answers(message, session_id)

    async def c_returns_coroutine(message, session_id):
        return c_answers(message, session_id)

    async def c_async_generator(message, session_id):
        yield None, None

    async def c_returns_future(message, session_id):
        return asyncio.ensure_future(_inner(), loop=_loop())

    table = {
        "custom/answers": c_answers, "custom/silent": c_silent, "notifications/custom": c_silent,
        "custom/raises": c_raises, "custom/none": c_none, "custom/int": c_int, "custom/triple": c_triple,
        "custom/single": c_single, "custom/sync": c_sync,
        "notifications/progress": c_ack_params, "ack/params": c_ack_params, "ack/foreign-sid": c_ack_foreign_sid,
        "ack/sid-only": c_sid_only, "notifications/prompts/list_changed": c_sid_only,
        "notifications/resources/updated": c_dict, "ack/dict": c_dict, "ack/str": c_str, "ack/int": c_42,
        "ack/true": c_true, "ack/awaitable-first": c_awaitable_first,
        "ack/legacy": c_legacy, "notifications/tools/list_changed": c_legacy,
        "answers/sync-returning-coroutine": c_sync_coroutine,
        "nonsense/returns-coroutine": c_returns_coroutine, "nonsense/async-generator": c_async_generator,
        "nonsense/returns-future": c_returns_future,
    }
    def answering(result, sid=None, suspend=False):
        async def h(message, session_id):
            if suspend:
                await asyncio.sleep(0)
            return ph.create_response(message.id, result), sid
        return h

    async def c_raises_late(message, session_id):
        await asyncio.sleep(0)
        raise RuntimeError("late failure")

    def reentering(nested, then):
        async def h(message, session_id):
            from chuk_mcp.protocol.messages.json_rpc_message import JSONRPCMessage as Legacy

            msgs = [NESTED["request"], NESTED["notification"]] if NESTED[nested] is None else [NESTED[nested]]
            for nm in msgs:
                await ph.handle_message(Legacy.model_validate(dict(nm)), session_id)
            if then == "answers":
                return ph.create_response(message.id, {"after": nested}), None
            if then == "raises":
                raise RuntimeError("failed after the nested dispatch")
            if then == "nonsense":
                return 7
            return None, None
        return h

    for n in NESTED:
        for t in THEN:
            table["reenter/%s/%s" % (n, t)] = reentering(n, t)

    async def c_reregisters(message, session_id):
        ph.register_method("custom/answers", c_answers)
        ph.register_method("reenter/reregisters/answers", c_reregisters)
        return ph.create_response(message.id, {"ok": True}), None

    table["reenter/reregisters/answers"] = c_reregisters

    async def t_reenter(text="d"):
        from chuk_mcp.protocol.messages.json_rpc_message import JSONRPCMessage as Legacy

        await ph.handle_message(Legacy.model_validate(dict(NESTED["request"])), None)
        await ph.handle_message(Legacy.model_validate(dict(NESTED["notification"])), None)
        return "after nested dispatches"

    srv.register_tool("reenter/tool", t_reenter, {}, "t")

    for k, v in ANSWER_RESULTS.items():
        table[k] = answering(v)
    for k, v in ANSWER_SIDS.items():
        table[k] = answering({"ok": 1}, sid=v)
    table["answers/suspends"] = answering({"ok": 1}, suspend=True)
    table["raises/after-suspension"] = c_raises_late
    if variant == "overrides":
        table.update({"ping": c_answers, "tools/call": c_raises, "notifications/initialized": c_ack_params,
                      "resources/list": c_silent, "tools/list": c_none})
    for shape, f in RAISERS.items():
        table["raise/" + shape] = raising(f)
    for meth, shape in NOTIFICATION_RAISERS.items():
        table[meth] = raising(RAISERS[shape])
    missing = set(custom_table(variant)) - set(table)
    if missing:
        raise RuntimeError(f"harness: no python handler for custom methods {sorted(missing)}")
    for meth, fn in table.items():
        ph.register_method(meth, fn)
    return srv


BUILTIN = ["initialize", "notifications/initialized", "ping", "tools/list", "tools/call", "resources/list", "resources/read"]


def registered_methods(variant=None):
    return set(BUILTIN) | set(custom_table(variant))


_SERVERS: dict = {}


def server(variant=None, fresh=False):
    """one server for many cases (dispatch keeps no state but the sessions initialize creates)"""
    if fresh:
        return build_server(variant)
    ent = _SERVERS.get(variant)
    if ent is None or ent[1] > 2000:
        ent = _SERVERS[variant] = [build_server(variant), 0]
    ent[1] += 1
    return ent[0]


def make_envelope(msg, env):
    from chuk_mcp.protocol.messages import json_rpc_message as J

    if env == "dict":
        return dict(msg)  # a plain dict handed to the dispatcher as it is
    if env == "typed-response":
        # the typed RESPONSE classes, whatever the message says: nothing a dispatcher should answer or choke on
        if "error" in msg and isinstance(msg["error"], dict):
            return J.JSONRPCError(jsonrpc="2.0", id=msg.get("id", 0), error=msg["error"])
        return J.JSONRPCResponse(jsonrpc="2.0", id=msg.get("id", 0), result=msg.get("result", {}))
    if env == "parse":
        return J.parse_message(dict(msg))
    if env == "typed":
        if "id" in msg:
            return J.JSONRPCRequest(jsonrpc="2.0", id=msg["id"], method=msg["method"], params=msg.get("params"))
        return J.JSONRPCNotification(jsonrpc="2.0", method=msg["method"], params=msg.get("params"))
    return J.JSONRPCMessage.model_validate(dict(msg))


async def adispatch(srv, msg, env="legacy", sid=None, cache=None, reuse=False):
    """one message through srv.protocol_handler.handle_message(envelope, sid) -> observation"""
    obs = {"parse": "ok", "raised": None, "pair": None, "resp": None, "sid": False}
    key = json.dumps([msg, env], sort_keys=True, default=str)
    try:
        if reuse and cache is not None and key in cache:
            m = cache[key]  # the very same envelope object dispatched again
        else:
            inner = "legacy" if env == "list" else env
            m = make_envelope(msg, inner)
            if cache is not None:
                cache[key] = m
    except Exception as ex:  # the envelope layer rejected the message: it never reaches dispatch
        obs["parse"] = "rejected:" + type(ex).__name__
        return obs
    # what the dispatcher will see (the envelope may have coerced the id)
    seen_id = getattr(m, "id", None)
    obs["seen_id"] = seen_id if isinstance(seen_id, (int, str)) and not isinstance(seen_id, bool) else (None if seen_id is None else repr(seen_id))
    obs["seen_method"] = getattr(m, "method", None)
    arg = [m, m] if env == "list" else m
    try:
        ret = await srv.protocol_handler.handle_message(arg, sid)
    except Exception as ex:
        obs["raised"] = type(ex).__name__
        return obs
    if not (isinstance(ret, tuple) and len(ret) == 2):
        obs["pair"] = False
        obs["ret_type"] = type(ret).__name__
        return obs
    obs["pair"] = True
    resp, new_sid = ret
    obs["sid"] = new_sid is not None
    obs["sid_value"] = new_sid if isinstance(new_sid, str) else None
    if resp is None:
        return obs
    try:
        d = resp.model_dump(exclude_none=True)
        line = json.dumps(d)
        d = json.loads(line)
    except Exception as ex:  # the loop could not print it
        obs["resp"] = {"unprintable": type(ex).__name__}
        return obs
    r = {"has_id": "id" in d, "id": d.get("id"), "result": "result" in d, "error": "error" in d, "code": None,
         "jsonrpc": d.get("jsonrpc")}
    if isinstance(d.get("error"), dict):
        r["code"] = d["error"].get("code")
    obs["resp"] = r
    return obs


def dispatch_one(srv, msg, env="legacy", sid=None, cache=None, reuse=False):
    return _loop().run_until_complete(adispatch(srv, msg, env, sid, cache, reuse))


def debug_logging():
    """Run the code as a host application with logging configured at DEBUG would: every logging.debug(...) /
    isEnabledFor(DEBUG) branch is live and every log message is really formatted.  Records go to a NullHandler.
    Returns the function that restores the previous state."""
    import logging

    import io

    root = logging.getLogger()
    prev_disable, prev_level, prev_handlers = root.manager.disable, root.level, list(root.handlers)
    # a real handler: it FORMATS every record (message % args, asctime, exception text) and writes it to a sink
    h = logging.StreamHandler(io.StringIO())
    h.setFormatter(logging.Formatter("%(asctime)s %(name)s %(levelname)s %(message)s"))
    root.handlers[:] = [h]
    root.setLevel(logging.DEBUG)
    logging.disable(logging.NOTSET)

    def restore():
        logging.disable(prev_disable)
        root.setLevel(prev_level)
        root.handlers[:] = prev_handlers
    return restore


def run_case(case):
    """single message: {"msg", "env"?, "sid"?, "server"?, "debug"?}
    sequence on a fresh server: {"seq": [{"msg","env"?,"sid"?,"reuse"?}, …], "server"?, "debug"?}
    CONCURRENT messages: {"conc": [{"msg","env"?,"sid"?,"on"?}, …], "servers": [variant, …]} — all dispatched at once
    (asyncio.gather) on fresh servers; step.on = index into servers (default 0): handlers that suspend overlap.
    sid "$last" = the session id the last initialize returned.  debug: the root logger is at DEBUG during the case."""
    restore = debug_logging() if case.get("debug") else None
    try:
        return _run_case(case)
    finally:
        if restore:
            restore()


def _run_case(case):
    variant = case.get("server")
    if "conc" in case:
        servers = [server(v, fresh=True) for v in case.get("servers", [variant])]
        # a second instance of everything is alive next to the ones under test
        bystander = server(variant, fresh=True)

        async def go():
            return await asyncio.gather(*[
                adispatch(servers[st.get("on", 0) % len(servers)], st["msg"], st.get("env", "legacy"), st.get("sid"))
                for st in case["conc"]], return_exceptions=True)

        outs = _loop().run_until_complete(go())
        steps = []
        for o in outs:
            if isinstance(o, BaseException):
                o = {"parse": "ok", "raised": type(o).__name__, "pair": None, "resp": None, "sid": False}
            o.pop("sid_value", None)
            steps.append(o)
        del bystander
        return {"steps": steps}
    if "seq" not in case:
        o = dispatch_one(server(variant), case["msg"], case.get("env", "legacy"), case.get("sid"))
        o.pop("sid_value", None)
        return o
    # the session store's clock is ours: a step may let hours (or years) pass, or put the clock back, before its message
    from .session_h import Clock, patched_clock

    clock = Clock()
    clock.now = 1_700_000_000
    with patched_clock(clock):
        srv = server(variant, fresh=True)
        cache, last_sid, steps = {}, None, []
        for st in case["seq"]:
            clock.now += st.get("advance", 0)
            sid = st.get("sid")
            if sid == "$last":
                sid = last_sid
            o = dispatch_one(srv, st["msg"], st.get("env", "legacy"), sid, cache, st.get("reuse", False))
            if o.get("sid_value"):
                last_sid = o["sid_value"]
            o.pop("sid_value", None)
            steps.append(o)
    return {"steps": steps}


# ------------------------------------------------------------------------------------------
# model line


def _key(params, member):
    if not isinstance(params, dict) or member not in params or params[member] is None:
        return ["absent"]
    v = params[member]
    if isinstance(v, str):
        return ["str", v]
    if isinstance(v, (list, dict)):
        return ["unhashable"]
    return ["scalar"]


def args_ok(params):
    if not isinstance(params, dict) or "arguments" not in params:
        return True
    a = params["arguments"]
    return isinstance(a, dict) and set(a) <= TOOL_KWARGS


def server_spec(variant=None):
    return {
        "tools": {k: v[1] for k, v in tools_table(variant).items()},
        "resources": {k: v[1] for k, v in resources_table(variant).items()},
        "custom": {k: MODEL_CBEH.get(v, v) for k, v in custom_table(variant).items()},
        "nextSid": "sid",
    }


SERVER_SPECS = {None: server_spec(None), "overrides": server_spec("overrides"), "empty": server_spec("empty")}


def model_line(case, obs):
    if obs["parse"] != "ok" or case.get("env") in ("list", "dict", "typed-response") or "seq" in case or "conc" in case:
        return None
    sid = obs.get("seen_id")
    if sid is None:
        idj = None
    elif isinstance(sid, int):
        idj = {"i": sid}
    else:
        idj = {"s": sid}
    params = case["msg"].get("params")
    if sid is not None and custom_table(case.get("server")).get(obs.get("seen_method")) in UNFAITHFUL_FOR_MODEL:
        return None  # a request to a handler that answers with a response of its own making: outside the statements
    # only the table entries this message can reach are sent (the model looks up nothing else)
    full = SERVER_SPECS[case.get("server")]
    name = params.get("name") if isinstance(params, dict) else None
    uri = params.get("uri") if isinstance(params, dict) else None
    me = obs.get("seen_method")
    spec = {
        "tools": {name: full["tools"][name]} if isinstance(name, str) and name in full["tools"] else {},
        "resources": {uri: full["resources"][uri]} if isinstance(uri, str) and uri in full["resources"] else {},
        "custom": {me: full["custom"][me]} if isinstance(me, str) and me in full["custom"] else {},
        "nextSid": full["nextSid"],
    }
    return {
        "m": "dispatch", "server": spec,
        "msg": {"id": idj, "method": obs.get("seen_method"), "name": _key(params, "name"), "uri": _key(params, "uri"),
                "argsOk": args_ok(params)},
    }


def impl_shape(obs):
    r = obs["resp"]
    if obs["raised"] is not None:
        return {"raised": True, "resp": None}
    if obs["pair"] is False:
        return {"raised": "notAPair", "resp": None}
    if r is None:
        return {"raised": False, "resp": None}
    if "unprintable" in r:
        return {"raised": False, "resp": r}
    kind = "result" if (r["result"] and not r["error"]) else ("error" if (r["error"] and not r["result"]) else "malformed")
    out = {"kind": kind, "id": r["id"] if r["has_id"] else "<missing>"}
    if kind == "error":
        out["code"] = r["code"]
    return {"raised": False, "resp": out}


def model_shape(out):
    if "driver_error" in out:
        return out
    if out["raised"] is not None:
        return {"raised": True if out["raised"] == "nullId" else out["raised"], "resp": None}
    return {"raised": False, "resp": out["resp"]}
