"""./check Cxx [--tier quick|thorough] [--replay FILE]

One runner for all properties (DESIGN.md 2.4):
 1. translate /repo -> lean/Verif/Gen/*.lean
 2. lake build Verif.Props.Cxx + verif-driver; textual + axiom audit
 3. corpus, then generated cases of every suite: implementation vs Lean model (driver)
 4. property oracle on every implementation observation (independent of the model)
 5. decide; write evidence; print VIOLATION / KNOWN-FINDING lines
"""
from __future__ import annotations

import argparse
import importlib
import inspect
import json
import os
import sys
import time
import traceback

from . import core, translate


class Suite:
    """One correspondence + oracle suite of a property.  Subclass and override."""

    name = "suite"
    uses_model = True

    def cases(self, ctx, budget):  # -> iterable of JSON-able cases
        return []

    def impl(self, case):  # real code, returns JSON-able observation
        raise NotImplementedError

    def impl_batch(self, cases):
        return [self.impl(c) for c in cases]

    def model_line(self, case):  # -> dict for the driver, or None (no model for this case)
        return None

    def model_obs(self, out, case):  # driver output -> observation comparable with impl's
        return out

    def compare(self, case, impl_obs, model_obs):  # -> None | str (difference)
        a, b = core.canon(impl_obs), core.canon(model_obs)
        return None if a == b else "observations differ"

    def oracle(self, case, obs):  # -> None | (key, what, expected)
        return None

    def kind(self, case, obs) -> str:
        return self.name

    def nontrivial(self, case, obs) -> bool:
        return True

    def shrink_candidates(self, case):
        return []


def shrink(suite: Suite, case, fails, limit=400):
    """Greedy shrinking with the suite's candidate generator."""
    cur = case
    steps = 0
    progress = True
    while progress and steps < limit:
        progress = False
        for cand in suite.shrink_candidates(cur):
            steps += 1
            if steps >= limit:
                break
            try:
                if fails(cand):
                    cur = cand
                    progress = True
                    break
            except Exception:
                continue
    return cur


_POOL_SUITE = None


def _pool_job(sub):
    return _POOL_SUITE.impl_batch(sub)


def _impl_parallel(suite, part):
    """Run impl_batch over forked worker processes (the suite object is inherited by fork)."""
    global _POOL_SUITE
    import multiprocessing as mp

    n = min(int(os.environ.get("VERIF_JOBS", "14")), os.cpu_count() or 2)
    if n <= 1:
        return suite.impl_batch(part)
    _POOL_SUITE = suite
    size = max(50, (len(part) + n * 4 - 1) // (n * 4))
    subs = [part[i:i + size] for i in range(0, len(part), size)]
    with mp.get_context("fork").Pool(n) as pool:
        res = pool.map(_pool_job, subs)
    out = []
    for r in res:
        out.extend(r)
    return out


def run_suite(ctx: core.Ctx, suite: Suite, cases, *, chunk=20000):
    cases = list(cases)
    for start in range(0, len(cases), chunk):
        part = cases[start:start + chunk]
        obs = _impl_parallel(suite, part) if (getattr(suite, "parallel", False) and len(part) >= 1000) else suite.impl_batch(part)
        mobs = [None] * len(part)
        if suite.uses_model and ctx.model_available:
            idx, lines = [], []
            takes_obs = len(inspect.signature(suite.model_line).parameters) >= 2
            for i, c in enumerate(part):
                ml = suite.model_line(c, obs[i]) if takes_obs else suite.model_line(c)
                if ml is not None:
                    idx.append(i)
                    lines.append(ml)
            if lines:
                try:
                    outs = ctx.model(lines)
                    for i, o in zip(idx, outs):
                        mobs[i] = suite.model_obs(o, part[i])
                except Exception as ex:  # driver failure = broken correspondence, not a crash
                    ctx.divergence(suite.name, {"driver_error": True}, None, repr(ex)[:500])
        for c, o, m in zip(part, obs, mobs):
            ctx.count(c, suite.kind(c, o), suite.nontrivial(c, o))
            v = suite.oracle(c, o)
            if v is not None:
                key, what, expected = v
                ctx.violation(key, what, c, o, expected, suite=suite.name)
            if m is not None:
                d = suite.compare(c, o, m)
                if d is not None and getattr(suite, "supplementary", False):
                    # obligations next to the property that its text does not itself state: a
                    # difference is recorded (evidence note + distribution bucket), never judged
                    ctx.dist["supplementary-divergence/" + suite.name] += 1
                    if sum(1 for n in ctx.notes if n.startswith("supplementary divergence")) < 10:
                        ctx.notes.append(f"supplementary divergence ({suite.name}): {d}: input {core.canon(c)[:300]} "
                                         f"real {core.canon(o)[:300]} model {core.canon(m)[:300]}")
                    if ctx.dist["supplementary-divergence/" + suite.name] <= 3:
                        print(f"INFO property={ctx.prop_id} supplementary={suite.name} differs from the model (not a verdict): {d}"[:300])
                elif d is not None:
                    ctx.divergence(suite.name, c, o, m)


def load_corpus(prop_id):
    d = core.ROOT / "corpus" / prop_id
    out = []
    if d.is_dir():
        for f in sorted(d.glob("*.json")):
            try:
                out.append(json.loads(f.read_text()))
            except Exception:
                pass
    return out


def main(argv=None):
    ap = argparse.ArgumentParser()
    ap.add_argument("prop")
    ap.add_argument("--tier", default=os.environ.get("VERIF_TIER", "quick"), choices=["quick", "thorough"])
    ap.add_argument("--replay")
    ap.add_argument("--no-build", action="store_true", help=argparse.SUPPRESS)
    args = ap.parse_args(argv)
    prop_id = args.prop.upper()
    try:
        seed = int(os.environ.get("VERIF_SEED", "0") or 0)
    except ValueError:
        seed = 0
    t0 = time.time()
    import signal

    def _alarm(signum, frame):
        print(f"[{prop_id}] machinery timeout after {time.time() - t0:.0f}s (not a verdict)", file=sys.stderr)
        try:  # forked workers would otherwise keep running (and keep stdout open)
            import multiprocessing
            for ch in multiprocessing.active_children():
                ch.kill()
        except Exception:
            pass
        os._exit(2)

    signal.signal(signal.SIGALRM, _alarm)
    signal.alarm(int(os.environ.get("VERIF_LIMIT_S", "1500" if args.tier == "quick" else "5400")))
    import logging
    logging.disable(logging.CRITICAL)
    core.use_repo_source()
    try:
        prop = importlib.import_module(f"verifpy.props.{prop_id.lower()}")
    except ModuleNotFoundError as ex:
        print(f"no check for {prop_id}: {ex}", file=sys.stderr)
        return 2
    suites = {s.name: s for s in prop.suites()}

    if args.replay:
        return replay(prop_id, suites, args.replay)

    ctx = core.Ctx(prop_id, args.tier, seed)
    broken: list[dict] = []

    # 1. translate
    theorems = list(prop.THEOREMS)
    module = f"Verif.Props.{prop_id}"
    supp_thms = list(getattr(prop, "SUPP_THEOREMS", []))
    supp = (f"Verif.Props.{prop_id}Supp", supp_thms) if supp_thms else None
    b = core.build(module, pre=translate.translate, audit_of=(prop_id, theorems), supp=supp)
    reports = b.pre or {}
    # supplementary obligations: regenerated parts and theorems next to the property (SUPP_GEN,
    # SUPP_THEOREMS in Props/CxxSupp.lean).  Whatever happens to them is reported as INFO and in the
    # evidence; the verdict is about the property's own obligations only.
    supp_info = []
    for name in getattr(prop, "SUPP_GEN", []):
        for key in ("untranslatable", "aux_untranslatable"):
            for u in reports.get(name, {}).get(key, []) or []:
                supp_info.append(f"Gen/{name}.lean not regenerated from the current source: {u}")
    supp_ok = {}
    if b.supp is not None:
        if b.supp["ok"]:
            for t in supp_thms:
                r = b.supp["audit"].get(t, {})
                supp_ok[t] = bool(r.get("ok"))
                if not r.get("ok"):
                    supp_info.append(f"supplementary theorem {t}: {r.get('why')}")
        else:
            for e in b.supp["errors"][:6]:
                supp_info.append(f"supplementary module {b.supp['module']} does not build: {e.get('decl') or '?'}: {e['file']}:{e['line']}: {e['msg']}")
    for line in supp_info[:8]:
        print(f"INFO property={prop_id} supplementary (not a verdict): {line}"[:400])
    for entry in getattr(prop, "GEN", []):
        name, _, part = entry.partition("/")
        for u in reports.get(name, {}).get("untranslatable", []):
            tag = u.split(":", 1)[0] if ": " in u and u.split(":", 1)[0].isalpha() and u.split(":", 1)[0] in ("grace",) else ""
            if (part or "") != tag:
                continue  # "Timing" = poll/timeouts only; "Timing/grace" = the grace periods
            broken.append({"kind": "translator", "name": f"Gen/{name}.lean", "detail": u})

    # 2. audit
    audit_res = {}
    if not b.driver_ok:
        ctx.model_available = False
        broken.append({"kind": "correspondence", "name": "verif-driver", "detail": "driver does not build: " + b.log[-400:]})
    if b.ok:
        audit_res = b.audit
        for t, r in audit_res.items():
            if not r["ok"]:
                broken.append({"kind": "theorem", "name": t, "detail": r["why"]})
    else:
        for e in b.errors:
            broken.append({"kind": "theorem", "name": e.get("decl") or "?", "detail": f"{e['file']}:{e['line']}: {e['msg']}"})
    discharged = [t for t in theorems if b.ok and audit_res.get(t, {}).get("ok")]

    # 3+4. suites
    machinery_error = None
    try:
        corpus = load_corpus(prop_id)
        for item in corpus:
            s = suites.get(item.get("suite"))
            if s is not None:
                run_suite(ctx, s, [item["input"]])
        for s in suites.values():
            run_suite(ctx, s, s.cases(ctx, args.tier))
        # translation validation hooks (functions in Gen vs real functions)
        if hasattr(prop, "extra"):
            prop.extra(ctx, args.tier)
    except Exception:
        machinery_error = traceback.format_exc()

    for d in ctx.divergences[:]:
        pass
    if ctx.divergences:
        by_suite = {}
        for d in ctx.divergences:
            by_suite.setdefault(d["suite"], d)
        for sname, d in by_suite.items():
            broken.append({"kind": "correspondence", "name": sname, "detail": "model and implementation differ", "first": d})

    # 5. widened search when an obligation broke and no failing input is known yet
    known = [k for k in core.load_known_findings() if k.get("property") == prop_id]
    open_keys = {k["key"]: k for k in known if k.get("status") == "open"}
    new_viol = [v for v in ctx.violations if v["key"] not in open_keys]
    if broken and not new_viol and machinery_error is None and args.tier == "quick":
        try:
            sctx = core.Ctx(prop_id, "thorough", seed + 1)
            sctx.model_available = False  # oracle only: independent of the (possibly broken) model
            limit = time.time() + float(os.environ.get("VERIF_SEARCH_S", "420"))
            for s in suites.values():
                if time.time() > limit:
                    break
                run_suite(sctx, s, s.cases(sctx, "search"))
                if [v for v in sctx.violations if v["key"] not in open_keys]:
                    break
            if hasattr(prop, "extra"):
                prop.extra(sctx, "search")
            ctx.violations.extend(sctx.violations)
            ctx.evaluations += sctx.evaluations
            ctx.impl_runs += sctx.impl_runs
            ctx._nontrivial |= sctx._nontrivial
            ctx.dist.update({"search:" + k: v for k, v in sctx.dist.items()})
            new_viol = [v for v in ctx.violations if v["key"] not in open_keys]
        except Exception:
            machinery_error = traceback.format_exc()

    # decide
    exit_code = 0
    lines = []
    seen_known = set()
    for v in ctx.violations:
        if v["key"] in open_keys and v["key"] not in seen_known:
            seen_known.add(v["key"])
            lines.append(f"KNOWN-FINDING: property={prop_id} {open_keys[v['key']]['what']}")
    reported = {}
    for v in new_viol:
        if v["key"] in reported:
            continue
        s = suites.get(v["suite"])
        small = v["input"]
        if s is not None:
            def fails(c, s=s, key=v["key"]):
                r = s.oracle(c, s.impl_batch([c])[0])
                return r is not None and r[0] == key
            try:
                small = shrink(s, v["input"], fails)
                if small is not v["input"]:
                    o = s.impl_batch([small])[0]
                    r = s.oracle(small, o)
                    v = dict(v, input=small, observed=o, expected=r[2] if r else v["expected"], what=r[1] if r else v["what"])
            except Exception:
                pass
        payload = {
            "property": prop_id, "kind": "failing-input", "suite": v["suite"], "seed": seed, "key": v["key"],
            "what": v["what"], "input": v["input"], "observed": v["observed"], "expected": v["expected"],
            "broken": broken[:5] or None, "how": f"./check {prop_id} --replay <this file>",
        }
        path = core.write_replay(prop_id, payload)
        reported[v["key"]] = path
        if len(reported) <= 5:
            lines.append(f"VIOLATION property={prop_id} replay={path}")
        exit_code = 1
    if broken and not new_viol:
        payload = {
            "property": prop_id, "kind": "no-failing-input-found", "seed": seed,
            "input": {"broken": [{k: b_[k] for k in ("kind", "name", "detail")} for b_ in broken]},
            "broken": broken[:20],
            "searched": {"evaluations": ctx.evaluations, "distribution": dict(ctx.dist)},
            "how": f"./check {prop_id} --tier thorough",
        }
        path = core.write_replay(prop_id, payload)
        lines.append(f"VIOLATION property={prop_id} replay={path} no-failing-input-found")
        exit_code = 1

    # evidence
    cov = {
        "obligations": len(theorems),
        "discharged": len(discharged),
        "checker_cmd": f"cd lean && lake build {module} && lake env lean .lake/audit/Audit{prop_id}.lean  # #print axioms",
        "trusted_base": getattr(prop, "TRUSTED", []) + [
            "Lean 4.33.0 kernel; axioms allowed: propext, Classical.choice, Quot.sound",
            "translator py/verifpy/translate.py (validated by translation validation where a function is translated)",
            "correspondence harness py/verifpy (generators, canonicalisation, virtual-time loop, scripted seams)",
        ],
        "theorems": {t: (audit_res.get(t, {}).get("axioms")) for t in theorems},
        "undischarged": [b_["name"] for b_ in broken if b_["kind"] in ("theorem", "translator")],
        "evaluations": ctx.evaluations,
        "distinct_nontrivial": ctx.distinct_nontrivial,
        "traces_validated_against_impl": ctx.impl_runs,
        "correspondence_divergences": len(ctx.divergences),
        "rule": getattr(prop, "RULE", ""),
        "samples": ctx.samples or [{"theorems": theorems}],
        "distribution": dict(ctx.dist),
        "known_findings_seen": sorted(seen_known),
        "notes": ctx.notes + [f"supplementary: {x}" for x in supp_info],
    }
    if supp_thms:
        cov["supplementary_theorems"] = {t: (b.supp["audit"].get(t, {}).get("axioms") if b.supp and b.supp["ok"] else None) for t in supp_thms}
        cov["supplementary_discharged"] = sum(1 for t in supp_thms if supp_ok.get(t))
    if ctx.exhaustive_parts:
        cov["exhaustive_parts"] = ctx.exhaustive_parts
    if cov["discharged"] == 0:
        cov.pop("discharged")
        cov["discharged_none"] = True
    if args.tier == "thorough" and b.ok and os.environ.get("VERIF_LEANCHECKER", "1") == "1":
        try:
            import subprocess
            p = subprocess.run(["lake", "env", "leanchecker", module], cwd=core.LEAN, capture_output=True, text=True, timeout=1800)
            cov["leanchecker"] = {"rc": p.returncode, "out": (p.stdout + p.stderr)[-300:]}
            if p.returncode != 0:
                lines.append(f"# leanchecker rejected {module}")
                machinery_error = (machinery_error or "") + "leanchecker failed: " + (p.stdout + p.stderr)[-500:]
        except Exception as ex:  # noqa
            cov["leanchecker"] = {"error": repr(ex)}
    doc = {
        "property_id": prop_id, "tier": args.tier, "seed": seed, "level": "proof", "coverage": cov,
        "assumptions": getattr(prop, "ASSUMPTIONS", []),
        "wall_s": round(time.time() - t0, 2),
        "violations": len(reported) + (1 if (broken and not new_viol) else 0),
    }
    core.write_evidence(prop_id, doc)
    for l in lines:
        print(l)
    print(
        f"[{prop_id}] tier={args.tier} seed={seed} theorems={len(discharged)}/{len(theorems)}"
        + (f"+{sum(1 for t in supp_thms if supp_ok.get(t))}/{len(supp_thms)}s " if supp_thms else " ") +
        f"cases={ctx.evaluations} nontrivial={ctx.distinct_nontrivial} divergences={len(ctx.divergences)} "
        f"violations={len(reported)} known={len(seen_known)} wall={doc['wall_s']}s"
    )
    if machinery_error:
        print(machinery_error, file=sys.stderr)
        return 2 if exit_code == 0 else exit_code
    return exit_code


def replay(prop_id, suites, path):
    doc = json.loads(open(path).read())
    if doc.get("kind") == "no-failing-input-found":
        print("replay names broken obligations, no input to re-run:")
        print(json.dumps(doc.get("broken"), indent=1)[:4000])
        return 1
    s = suites.get(doc.get("suite"))
    if s is None:
        print(f"unknown suite {doc.get('suite')}", file=sys.stderr)
        return 2
    obs = s.impl_batch([doc["input"]])[0]
    r = s.oracle(doc["input"], obs)
    print("input:   ", core.canon(doc["input"])[:3000])
    print("observed:", core.canon(obs)[:3000])
    if r is None:
        print("property holds on this input now")
        return 0
    print("expected:", core.canon(r[2])[:3000])
    print(f"VIOLATION property={prop_id} replay={path}")
    return 1


if __name__ == "__main__":
    sys.exit(main())
