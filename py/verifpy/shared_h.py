"""Harness for C18: several concurrent callers of the real send_message on one (read, write)
pair under the virtual-time loop; tie-free schedules (see Model/Shared.lean)."""
from __future__ import annotations

import math

from . import vloop
from .await_h import _idval, build_event

P = 512


class Tap:
    """Per-caller view of the shared receive stream that records who received what."""

    def __init__(self, inner, idx, log, loop):
        self._inner, self._idx, self._log, self._loop = inner, idx, log, loop

    async def receive(self):
        item = await self._inner.receive()
        self._log.append((self._idx, self._loop.ticks, item))
        return item

    def __getattr__(self, name):
        return getattr(self._inner, name)


def run_case(case):
    import anyio
    from chuk_mcp.protocol.messages.send_message import send_message
    from chuk_mcp.protocol.types.errors import RetryableError, NonRetryableError

    n = len(case["callers"])
    obs = [dict() for _ in range(n)]
    log = []

    async def main():
        loop = __import__("asyncio").get_running_loop()
        in_send, in_recv = anyio.create_memory_object_stream(math.inf)
        out_send, out_recv = anyio.create_memory_object_stream(math.inf)

        ids = {}
        raw_writes = []

        def drain():
            while True:
                try:
                    m = out_recv.receive_nowait()
                except Exception:
                    break
                d = m.model_dump(exclude_none=True)
                raw_writes.append(d)
                n_ = (d.get("params") or {}).get("n")
                if d.get("method") == "tools/call" and isinstance(n_, int) and n_ not in ids:
                    ids[n_] = d.get("id")

        def resolve(ev):
            if isinstance(ev.get("id"), dict) and "$CALLER" in ev["id"]:
                drain()
                v = ids.get(ev["id"]["$CALLER"])
                ev = dict(ev, id=({"s": v} if isinstance(v, str) else {"i": v}))
            return ev

        async def caller(i, spec):
            o = obs[i]
            try:
                kw = {} if spec.get("id") is None else {"message_id": _idval(spec["id"], {})}
                res = await send_message(Tap(in_recv, i, log, loop), out_send, "tools/call", {"n": i},
                                         timeout=spec["D"] * vloop.TICK, **kw)
                o["outcome"] = "returned"
                o["p"] = res
            except TimeoutError:
                o["outcome"] = "timeout"
            except (RetryableError, NonRetryableError) as ex:
                o["outcome"] = "raised"
                o["retryable"] = isinstance(ex, RetryableError)
                o["code"] = ex.code
            except Exception as ex:  # noqa
                o["outcome"] = "exception"
                o["exc"] = type(ex).__name__
            o["t"] = loop.ticks

        async with anyio.create_task_group() as tg:
            for i, spec in enumerate(case["callers"]):
                loop.at(spec["start"], (lambda i=i, spec=spec: tg.start_soon(caller, i, spec)))
            for a, ev in case["ev"]:
                loop.at(a, (lambda ev=ev: in_send.send_nowait(build_event(resolve(ev), {}))))
            # keep the task group open until every caller has been started
            await anyio.sleep((max(s["start"] for s in case["callers"]) + 1) * vloop.TICK)
        drain()
        for i in range(n):
            obs[i]["got"] = [t for (j, t, _) in log if j == i]
            obs[i]["wire_id"] = ids.get(i)
        return raw_writes

    writes = vloop.run(main, tie=case.get("tie", "events"))
    return {"callers": obs, "writes": writes, "log": [[j, t] for (j, t, _) in log]}


def model_line(case, obs=None):
    case = resolved_case(case, obs)
    fuel = len(case["ev"]) + sum(c["D"] // P + 3 for c in case["callers"]) + len(case["callers"]) + 8
    return {
        "m": "shared", "P": P, "fuel": fuel,
        "callers": [{"id": c["id"], "D": c["start"] + c["D"], "start": c["start"]} for c in case["callers"]],
        "ev": [[a, _resolved(ev)] for a, ev in case["ev"]],
    }


def resolved_case(case, obs):
    """substitute the ids the implementation put on the wire for symbolic caller references"""
    if obs is None:
        return case
    wire = [c.get("wire_id") for c in obs["callers"]]

    def mk(v):
        return {"s": v} if isinstance(v, str) else {"i": v if v is not None else -1}
    callers = [dict(c, id=(c["id"] if c.get("id") is not None else mk(wire[i]))) for i, c in enumerate(case["callers"])]
    ev = []
    for a, e in case["ev"]:
        if isinstance(e.get("id"), dict) and "$CALLER" in e["id"]:
            k = e["id"]["$CALLER"]
            e = dict(e, id=callers[k]["id"])
        ev.append([a, e])
    return {"callers": callers, "ev": ev}


def _resolved(ev):
    k = ev["k"]
    if k == "resp":
        return {"k": "resp", "id": ev["id"], "p": ev["p"]}
    if k == "err" and ev.get("id") is None:
        return {"k": "notif", "method": "(error response with id null)"}
    if k == "err":
        return {"k": "err", "id": ev["id"], "code": ev.get("code"), "msg": ev.get("msg")}
    if k == "req":
        return {"k": "req", "id": ev["id"], "method": ev["method"]}
    if k == "notif":
        return {"k": "notif", "method": ev["method"]}
    if k == "progress":
        return {"k": "progress", "token": None, "prog": None, "total": None, "message": None}
    return {"k": "batch"}
