"""C16, supplementary: the exit decision of the stdio client under VIRTUAL time against a SCRIPTED process.

Real children cannot be made to die 999 ms or exactly 1000 ms after SIGTERM, survive SIGKILL, or keep
a pipe open through a grandchild without leaving descriptors behind.  Here `anyio.open_process` is
replaced (from outside) by a process whose reactions are scripted on the virtual clock of
`vloop.VirtualLoop`: which signals the client sends and when, how long leaving the context takes and
whether the child has been waited for are then exact, and are compared with `Model.Shutdown.leave`
(grace periods and drain bound regenerated from the source).

Times in cases are milliseconds and multiples of 125 (= 128 ticks of 1/1024 s, so they are exact).
"""
from __future__ import annotations

import sys

from . import vloop

BEGIN_MS = 250          # the exit begins this long after the context has been entered
TPM = 1024 / 1000.0


def ticks(ms):
    t = ms * 1024
    assert t % 1000 == 0, ms
    return t // 1000


class _Stdin:
    async def send(self, data):
        return None

    async def aclose(self):
        return None


class _Stdout:
    def __init__(self, proc):
        self.proc = proc

    def __aiter__(self):
        return self

    async def __anext__(self):
        await self.proc.eof.wait()
        raise StopAsyncIteration

    async def receive(self, max_bytes=65536):
        import anyio
        await self.proc.eof.wait()
        raise anyio.EndOfStream

    async def aclose(self):
        return None


class VProc:
    def __init__(self, loop, spec, log):
        import anyio

        self.loop, self.spec, self.log = loop, spec, log
        self.pid = 424242
        self.returncode = None
        self.dead = anyio.Event()
        self.eof = anyio.Event()
        self.stdin = _Stdin()
        self.stdout = _Stdout(self)
        self.stderr = None
        if not spec.get("stdout_open", True) and not spec.get("stdout_held"):
            self.eof.set()         # the child closed its stdout and nobody else has it: EOF has been seen long ago
        if spec.get("exited"):
            self._die(spec.get("status", 0))

    def _die(self, code):
        if self.returncode is None:
            self.returncode = code
            self.dead.set()
            if not self.spec.get("stdout_held"):
                self.eof.set()

    def _later(self, delay_ms, code):
        if delay_ms is None:
            return
        if delay_ms == 0:
            self._die(code)
        else:
            self.loop.at(self.loop.ticks + ticks(delay_ms), lambda: self._die(code))

    def terminate(self):
        self.log.append([self.loop.ticks, "term"])
        if self.returncode is None:
            self._later(self.spec.get("term_delay"), self.spec.get("status", -15))   # a handler may exit with any status

    def kill(self):
        self.log.append([self.loop.ticks, "kill"])
        if self.returncode is None:
            self._later(self.spec.get("kill_delay"), -9)

    def send_signal(self, sig):
        self.terminate()

    async def wait(self):
        await self.dead.wait()
        return self.returncode

    async def aclose(self):
        return None


class Boom(Exception):
    pass


def run_case(case):
    import asyncio

    import anyio
    from chuk_mcp.transports.stdio.parameters import StdioParameters

    mod = sys.modules.get("chuk_mcp.transports.stdio.stdio_client")
    if mod is None:
        import importlib
        mod = importlib.import_module("chuk_mcp.transports.stdio.stdio_client")
    spec = case["spec"]
    path = case["path"]
    obs = {"signals": [], "duration": None, "child": None, "exc": None}
    holder = {}
    b = ticks(BEGIN_MS)

    async def fake_open_process(*a, **k):
        return holder["proc"]

    async def main():
        loop = asyncio.get_running_loop()
        log = []
        proc = holder["proc"] = VProc(loop, spec, log)
        if spec.get("self_exit") is not None and not spec.get("exited"):
            loop.at(b + ticks(spec["self_exit"]), lambda: proc._die(spec.get("status", 0)))
        params = StdioParameters(command="scripted", args=[])

        async def body():
            async with mod.stdio_client(params):
                await anyio.sleep(BEGIN_MS / 1000.0)
                if path == "exception":
                    raise Boom("body")
                if path in ("cancel", "timeout"):
                    await anyio.sleep_forever()

        try:
            with anyio.move_on_after(60.0) as guard:
                if path in ("normal", "exception"):
                    try:
                        await body()
                    except Boom:
                        pass
                elif path == "timeout":
                    with anyio.move_on_after(BEGIN_MS / 1000.0):
                        await body()
                else:
                    async with anyio.create_task_group() as tg:
                        with anyio.CancelScope() as inner:
                            async def canceller():
                                await anyio.sleep(BEGIN_MS / 1000.0)
                                inner.cancel()
                            tg.start_soon(canceller)
                            await body()
            if guard.cancelled_caught:
                obs["exc"] = "unbounded"
        except BaseException as ex:  # noqa: BLE001
            obs["exc"] = type(ex).__name__
        end = loop.ticks
        obs["duration"] = (end - b) * 1000 / 1024
        obs["signals"] = [[(t - b) * 1000 / 1024, s] for t, s in log]
        obs["child"] = "reaped" if proc.returncode is not None else "running"

    saved = anyio.open_process
    anyio.open_process = fake_open_process
    try:
        vloop.run(main, tie=case.get("tie", "events"))
    finally:
        anyio.open_process = saved
    for k in ("duration",):
        if obs[k] is not None and float(obs[k]).is_integer():
            obs[k] = int(obs[k])
    obs["signals"] = [[int(t) if float(t).is_integer() else t, s] for t, s in obs["signals"]]
    return obs


def run_cases(cases):
    return [run_case(c) for c in cases]
