"""C07, error path: a matching error response surfaces as a classified exception through
send_message and every typed helper (timed histories under the virtual loop)."""
from __future__ import annotations

from .. import await_gen as G
from .. import await_h as H
from ..core import canon
from ..runner import Suite

DOCUMENTED_PERMANENT = {-32700, -32600, -32601, -32602, -32003, -32005, -32006, -32007, -32008, -32000}
CODES = sorted(DOCUMENTED_PERMANENT) + [-32603, -32001, -32002, -32004, -32099, -32050, -1, 0, 1, 404, 2**31, -(2**63), 2**64 - 1]
BOOL_HELPERS = {"send_ping", "send_resources_subscribe", "send_resources_unsubscribe"}


def err_event(code, shape, k=0):
    ev = {"k": "err", "id": "$ID"}
    if shape != "nocode":
        ev["code"] = code
    if shape != "nomsg":
        ev["msg"] = [f"server says {k}", "100% of quota used", "bad uri file:///my%20docs/x %s %d %(a)s", "{braces} {0} }{",
                     "line1\nline2", "", "\u2028é😀"][k % 7] if shape != "plain" or k % 2 else f"server says {k}"
    if shape.startswith("data"):
        ev["data"] = {"data-obj": {"a": [1, None]}, "data-str": "s", "data-num": 5, "data-list": [1, 2], "data-false": False}[shape]
    return ev


SHAPES = ["plain", "nomsg", "nocode", "data-obj", "data-str", "data-num", "data-list", "data-false"]


class ErrorPath(Suite):
    name = "error-path"
    parallel = True

    def cases(self, ctx, budget):
        out = []
        helpers = [None] + sorted(h for h in H._helpers() if h != "send_initialize")
        k = 0
        # every code x shape through send_message; every helper x a few codes/shapes
        for code in CODES:
            for shape in SHAPES:
                for pre in ([], ["N"], ["Q", "O"], ["G", "T"]):
                    k += 1
                    if budget == "quick" and (k % 3) and shape not in ("plain", "nomsg"):
                        continue
                    ev = [[10 * (i + 1), G.sym_event(s, k=i)] for i, s in enumerate(pre)]
                    a = 10 * (len(pre) + 1) + (500 if k % 2 else 0)
                    ev.append([a, err_event(code, shape, k)])
                    ev.append([a + 5, {"k": "resp", "id": "$ID", "p": {"late": True}}])
                    out.append(G.place({"id": [{"s": "abc"}, {"s": "5"}, None][k % 3], "method": "tools/call",
                                        "params": {"name": "t"}, "D": 2048, "tie": ["events", "timers", "io"][k % 3],
                                        "progress": "G" in pre, "ev": ev}))
        for h in helpers[1:]:
            for code in CODES[::2] if budget == "quick" else CODES:
                for shape in ("plain", "data-obj", "data-str"):
                    k += 1
                    ev = [[7, G.sym_event("N", k=k)], [300, err_event(code, shape, k)], [310, {"k": "resp", "id": "$ID", "p": {}}]]
                    out.append(G.place({"id": None, "helper": h, "D": 1024, "tie": ["events", "timers", "io"][k % 3], "ev": ev}))
        # send_initialize on its error path: every code x messages that do / do not name the protocol version
        if "send_initialize" in H._helpers():
            vm = ["Unsupported protocol version: 1999-01-01", "PROTOCOL VERSION mismatch", "clientInfo.name is required",
                  "invalid params", "", "protocol  version", "version of the protocol"]
            for code in CODES:
                for i, m in enumerate(vm):
                    k += 1
                    if budget == "quick" and code not in (-32602, -32008, -32603, -32601, 0) and i % 3:
                        continue
                    ev = [[7, G.sym_event("N", k=k)], [300, {"k": "err", "id": "$ID", "code": code, "msg": m}],
                          [310, {"k": "resp", "id": "$ID", "p": {}}]]
                    out.append(G.place({"id": None, "helper": "send_initialize", "D": 1024, "tie": ["events", "timers", "io"][k % 3],
                                        "debug": k % 2 == 0, "ev": ev}))
        rng = ctx.sub_rng("c07", budget)
        n = 4000 if budget == "quick" else 80000
        for _ in range(n):
            c = G.seeded(rng, ["E", "E", "Ed", "En", "Ec", "E0", "R", "Q", "O", "Oe", "N", "G", "F", "B", "T", "Ez"], cancel_p=0.05)
            for _, ev in c["ev"]:
                if ev["k"] == "err" and ev.get("code") is not None and rng.random() < 0.5:
                    ev["code"] = rng.choice(CODES)
            out.append(c)
        return out

    def impl_batch(self, cases):
        from .. import helpers
        _, undrivable = helpers.discover()
        if undrivable and not getattr(self, "_reported", False):
            self._reported = True
            self._undrivable = undrivable
        obs = [H.run_case(c) for c in cases]
        return obs

    def model_line(self, case, o=None):
        if o is None or o.get("harness_errors") or o.get("sent_id") is None:
            return None
        if case.get("helper") == "send_initialize" and _init_maps_to_version_mismatch(case):
            return None  # the one documented re-mapping of this helper: judged by the oracle only
        return H.model_line(case, o)

    def model_obs(self, out, case):
        return H.model_shape(out)

    def compare(self, case, o, m):
        if getattr(self, "_undrivable", None):
            u, self._undrivable = self._undrivable, None
            return "request helpers the harness cannot drive (new required parameter?): " + ", ".join(u)
        a = H.impl_shape(case, o)
        h = case.get("helper")
        if h:
            kind = H._helpers()[h][1]
            if kind == "bool":
                # bool helpers: True on a result, False on anything else
                want = m["outcome"] == "returned"
                ok = o["outcome"] == "returned" and o.get("p") is want
                return None if ok and a["writes"] == m["writes"] else "bool helper differs"
            # typed helpers return typed results: compare outcome kind / class / code / time only
            keys = ("outcome", "t", "writes", "retryable", "code")
            return None if all(a.get(k) == m.get(k) for k in keys) else "differs"
        return None if canon(a) == canon(m) else "differs"

    def kind(self, case, o):
        return f"{case.get('helper') or 'send_message'}/{o['outcome']}"

    def oracle(self, case, o):
        if o.get("harness_errors") or o.get("sent_id") is None:
            return None
        if case.get("pre") or case.get("cancelAt") is not None:
            return None
        fm = H.first_matching(case, o["sent_id"])
        if fm is None or fm[2]["k"] != "err" or fm[1] >= case["D"]:
            return None
        _, a, ev = fm
        code = ev.get("code", -32603)
        h = case.get("helper")
        if h in BOOL_HELPERS:
            if not (o["outcome"] == "returned" and o.get("p") is False):
                return ("bool-helper", f"{h} on an error response gave {o['outcome']} {o.get('p')!r}", {"p": False})
            return None
        want_retry = code not in DOCUMENTED_PERMANENT
        if h == "send_initialize" and _init_maps_to_version_mismatch(case):
            # documented in send_initialize: INVALID_PARAMS whose message names the protocol version
            if not (o["outcome"] == "exception" and o.get("exc") == "VersionMismatchError"):
                return ("initialize-version-mismatch-mapping", f"initialize answered -32602 {ev.get('msg')!r}: {o['outcome']} {o.get('exc')}", None)
            return None
        if o["outcome"] != "raised":
            return ("error-not-raised", f"first matching message is error {code} but outcome is {o['outcome']} {o.get('p')!r}",
                    {"outcome": "raised", "retryable": want_retry, "code": code})
        if o["retryable"] != want_retry or o["code"] != code:
            return ("error-misclassified", f"error {code} raised as {'Retryable' if o['retryable'] else 'NonRetryable'}Error carrying {o['code']}",
                    {"retryable": want_retry, "code": code})
        if ev.get("msg") is not None and ev["msg"] not in o.get("text", ""):
            return ("error-message-lost", f"exception text {o.get('text')!r} lacks the server's message {ev['msg']!r}", {"text": ev["msg"]})
        return None

    def shrink_candidates(self, case):
        return G.shrink_candidates(case)


def _init_maps_to_version_mismatch(case):
    for _, ev in case["ev"]:
        if ev["k"] == "err":
            return ev.get("code") == -32602 and "protocol version" in (ev.get("msg") or "").lower()
    return False


def suites():
    return [ErrorPath()]
