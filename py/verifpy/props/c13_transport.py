"""C13, transport part: what the stdio reader does with a batch array after a handshake.

A case is a connection history
    {"segments": [{"set": <version|None>  (key absent = no set_protocol_version call),
                   "items": [{"text":..., "term":...}, ...], "cuts": [positions inside this segment's bytes]}, ...]}
Every segment is a run of complete lines; `set_protocol_version` is called between two reads.
"""
from __future__ import annotations

import itertools
import json

from ..runner import Suite
from .. import core, stdio_gen as G

CUTOFF_T = (2025, 6, 18)


def mode_of(v) -> bool:
    """independent reading of the property: batches accepted iff no version or older than 2025-06-18"""
    if v is None or v == "":
        return True
    return (int(v[0:4]), int(v[5:7]), int(v[8:10])) < CUTOFF_T


def _c(d):
    return json.dumps(d, ensure_ascii=False, separators=(",", ":"))


VALID = [
    {"jsonrpc": "2.0", "id": 11, "method": "sampling/createMessage", "params": {"t": "\u00e9"}},
    {"jsonrpc": "2.0", "method": "notifications/progress", "params": {"p": 1}},
    {"jsonrpc": "2.0", "id": "r-1", "result": {"ok": True, "n": None}},
    {"jsonrpc": "2.0", "id": 12, "error": {"code": -32000, "message": "m"}},
    {"jsonrpc": "2.0", "method": "notifications/\u2028"},
]
INVALID = [5, "str", None, True, {"jsonrpc": "2.0", "id": 1}, {"jsonrpc": "2.0", "id": [1], "method": "m"},
           {"jsonrpc": "2.0", "id": 2, "result": {}, "error": {"code": 1, "message": "m"}}, {"jsonrpc": "2.0", "id": 1.5, "method": "m"}]
ALPHABET = [VALID[0], VALID[1], VALID[2], INVALID[0], INVALID[4]]
# falsy members, type twins as ids, nested arrays, members with extra / reordered members, duplicates (the library's
# own parser decides which of them is a valid member)
ODD = [0, "", False, {}, [], [[]], {"jsonrpc": "2.0"}, {"id": 0}, {"jsonrpc": "2.0", "id": 0, "result": {}},
       {"jsonrpc": "2.0", "id": "", "result": []}, {"jsonrpc": "2.0", "id": 7, "result": {}}, {"jsonrpc": "2.0", "id": "7", "result": {}},
       {"jsonrpc": "2.0", "id": True, "result": {}}, {"jsonrpc": "2.0", "id": 7.0, "result": {}},
       {"result": {"k": 1}, "id": 3, "jsonrpc": "2.0", "extra": None}, {"jsonrpc": "2.0", "method": "", "params": {}},
       {"jsonrpc": "2.0", "method": "%s {0} %(x)s", "params": {"t": "{}\u2028\n"}}, {"jsonrpc": "2.0", "id": None, "error": {"code": -32600, "message": ""}},
       [{"jsonrpc": "2.0", "method": "nested"}], "2025-06-18", -32600, 100]


def versions():
    from chuk_mcp.protocol.types.versioning import SUPPORTED_VERSIONS

    return list(dict.fromkeys(list(SUPPORTED_VERSIONS) + ["2025-06-17", "2025-06-19", "2024-11-05", "2025-03-26", "2026-01-01",
                                                           "1999-12-31", "2025-06-18", "2025-07-01", "2025-05-31", ""]))


def seg_bytes(seg) -> bytes:
    return "".join(it["text"] + it["term"] for it in seg["items"]).encode("utf-8")


def boundaries(seg):
    """cut positions that do not fall inside a multi-byte character (chunking inside characters is
    C05's subject; this property quantifies over versions, batches and version changes)"""
    b = seg_bytes(seg)
    return [p for p in range(1, len(b)) if not (0x80 <= b[p] < 0xC0)]


def histories(case):
    """the connections made one after the other on ONE client / transport object: "segments", then each of "then" """
    return [case["segments"]] + list(case.get("then", []))


def events_of(case, segments=None):
    ev = []
    for seg in (case["segments"] if segments is None else segments):
        if "set" in seg:
            ev.append({"v": seg["set"]})
        if "handshake" in seg:  # a real initialize handshake (stdio_client_with_initialize): the child answers with this version
            ev.append({"reply_init": seg["handshake"]})
            ev.append({"sleep": 4})
        if seg.get("close_stdin"):
            ev.append({"close_stdin": 1})
        if seg.get("idle_hours"):
            ev.append({"sleep": int(seg["idle_hours"] * 3600 * 1024)})
        b = seg_bytes(seg)
        pos = [0] + [p for p in seg.get("cuts", []) if 0 < p < len(b)] + [len(b)]
        for i in range(len(pos) - 1):
            if pos[i + 1] > pos[i]:
                ev.append({"c": b[pos[i]:pos[i + 1]].hex()})
    return ev


def all_texts(case):
    return [it["text"] for segs in histories(case) for seg in segs for it in seg["items"]]


class Transport(Suite):
    name = "transport"

    def cases(self, ctx, budget):
        rng = ctx.sub_rng("transport", budget)
        vs = versions()
        out = []
        nl = "\n"

        def line(d, term=nl):
            return {"text": _c(d), "term": term}

        # every batch of 0..4 members over the alphabet, at a version without and with batching
        maxlen = 4
        for n in range(0, maxlen + 1):
            for combo in itertools.product(range(len(ALPHABET)), repeat=n):
                batch = [ALPHABET[i] for i in combo]
                for v in ("2025-06-18", "2025-03-26"):
                    out.append({"segments": [{"set": v, "items": [line(VALID[3]), line(batch, "\r\n"), line(VALID[1])], "cuts": []}]})
        ctx.exhaustive_parts.append(f"transport: every batch of 0..{maxlen} members over a 5-letter alphabet (3 valid, 2 invalid) "
                                    "at 2025-06-18 and 2025-03-26")
        # every version x a mixed stream, whole and cut
        mixed = [line(VALID[0]), line([VALID[1], INVALID[1], VALID[2]]), {"text": "junk", "term": nl}, line([]), line([INVALID[2]]),
                 line(VALID[4], "\r\n"), line([VALID[3], VALID[4]])]
        bounds = boundaries({"items": mixed})
        for v in vs + [None]:
            out.append({"segments": [{"set": v, "items": mixed, "cuts": []}]})
            for _ in range(6):
                out.append({"segments": [{"set": v, "items": mixed, "cuts": sorted(rng.sample(bounds, rng.randrange(1, 6)))}]})
        out.append({"segments": [{"items": mixed, "cuts": []}]})  # never negotiated
        # falsy / twin / nested / hostile members one by one and together, at both kinds of version, through every entry point
        for v in ("2025-06-18", "2025-03-26"):
            for m in ODD:
                out.append({"segments": [{"set": v, "items": [line([m]), line([VALID[0], m, VALID[1]], "\r\n"), line(VALID[2])], "cuts": []}]})
            out.append({"segments": [{"set": v, "items": [line(ODD), line(ODD + ODD)], "cuts": []}]})
            for api in ("transport", "client"):
                out.append({"segments": [{"set": v, "items": mixed, "cuts": []}, {"set": v, "items": mixed, "cuts": []}], "opts": {"api": api}})
            # the same batch two and three times (second batch on one connection), the same version set again in between
            b3 = line([VALID[0], INVALID[0], VALID[1]])
            out.append({"segments": [{"set": v, "items": [b3, b3, b3], "cuts": []}, {"set": v, "items": [b3], "cuts": []}]})
            # per-request streams registered, receivers gone, the client's write side closed before the batch arrives
            out.append({"segments": [{"set": v, "items": mixed, "cuts": []}], "opts": {"pending": [11, "r-1", 12], "pending_closed": ["11"]}})
            out.append({"segments": [{"set": v, "items": mixed, "cuts": []}], "opts": {"notif_closed": True}})
            out.append({"segments": [{"set": v, "items": mixed + mixed, "cuts": []}], "opts": {"read_closed": True}})
            out.append({"segments": [{"set": v, "items": [line(VALID[0])], "cuts": []}, {"close_stdin": True, "items": mixed + [line(VALID[2])], "cuts": []}]})
            # more members than the 100-slot streams hold, consumer late
            many = [dict(VALID[1], params={"i": i}) if i % 2 else dict(VALID[2], id=i) for i in range(230)]
            out.append({"segments": [{"set": v, "items": [line(many), line(VALID[0])], "cuts": []}], "opts": {"consumer": "late"}})
        # a REAL handshake (stdio_client_with_initialize -> send_initialize_with_client_tracking -> set_protocol_version) at each
        # supported version, then batches
        from chuk_mcp.protocol.types.versioning import SUPPORTED_VERSIONS
        for v in SUPPORTED_VERSIONS:
            out.append({"segments": [{"handshake": v, "items": mixed, "cuts": []}], "opts": {"api": "with_initialize"}})
            out.append({"segments": [{"handshake": v, "items": [line([VALID[0], INVALID[0], VALID[1]]), line([]), line(VALID[2])], "cuts": [9]}],
                        "opts": {"api": "with_initialize"}})
        # version changes mid-connection
        n = 600 if budget == "quick" else 8000
        for _ in range(n):
            segs = []
            for _ in range(rng.randrange(1, 5)):
                items = []
                for _ in range(rng.randrange(0, 4)):
                    r = rng.random()
                    if r < 0.55:
                        k = rng.randrange(0, 5)
                        members = [rng.choice(VALID) if rng.random() < 0.6 else rng.choice(INVALID + ODD) for _ in range(k)]
                        txt = rng.choice([_c(members), json.dumps(members), " " + _c(members) + " "])
                        items.append({"text": txt, "term": rng.choice([nl, "\r\n"])})
                    elif r < 0.8:
                        items.append(line(rng.choice(VALID), rng.choice([nl, "\r\n"])))
                    else:
                        items.append({"text": rng.choice(G.JUNK), "term": nl})
                seg = {"items": items, "cuts": []}
                if rng.random() < 0.85:
                    seg["set"] = rng.choice(vs + [None])
                bs = boundaries(seg)
                if len(bs) > 2 and rng.random() < 0.5:
                    seg["cuts"] = sorted(rng.sample(bs, min(len(bs), rng.randrange(1, 4))))
                segs.append(seg)
            out.append({"segments": segs})
        # declared structure vs content inside batches (raw texts the dict builders cannot produce): null next to its
        # alternative, duplicated members, a BOM before the array; and hours of idle time between the handshake and the batch
        raw_batches = ['[{"jsonrpc":"2.0","id":1,"result":{"a":1},"error":null},{"jsonrpc":"2.0","id":2,"error":{"code":1,"message":"m"},"result":null}]',
                       '[{"jsonrpc":"2.0","id":1,"id":2,"result":{}},{"jsonrpc":"2.0","method":"a","method":"b"}]',
                       '\ufeff[{"jsonrpc":"2.0","method":"bom"}]', '[{"jsonrpc":"2.0","method":"m"}]\ufeff', ' [ ] ', '[\t{"jsonrpc":"2.0","method":"e\u0301"} , {"jsonrpc":"2.0","method":"\u00e9"}]',
                       '[{"jsonrpc":"2.0","id":1,"result":null},{"id":null,"jsonrpc":"2.0","method":"m","params":null}]']
        for v in ("2025-06-18", "2025-03-26"):
            out.append({"segments": [{"set": v, "items": [{"text": t, "term": nl} for t in raw_batches] + [line(VALID[2])], "cuts": []}]})
            out.append({"segments": [{"set": v, "items": [line(VALID[0])], "cuts": []}, {"idle_hours": 30, "items": mixed, "cuts": [11]}]})
        # the SAME rejection 2, 3, 4 times in a row, then a version with batching and the same batch again; a rejected
        # batch after a good message and before one
        b = line([VALID[0], INVALID[0], VALID[1]])
        for k in (2, 3, 4):
            out.append({"segments": [{"set": "2025-06-18", "items": [line(VALID[2])] + [b] * k + [line(VALID[3])], "cuts": []},
                                     {"set": "2025-03-26", "items": [b, line(VALID[2])], "cuts": []},
                                     {"set": "2025-06-18", "items": [b] * k, "cuts": []}]})
        # the SAME transport / client object entered again: a connection at v1; then a second connection on which a batch arrives
        # BEFORE anything has been negotiated, and more batches after its own handshake at v2; a third one never negotiating
        for api in ("transport", "client"):
            for v1, v2 in itertools.product(("2025-06-18", "2025-03-26"), repeat=2):
                out.append({"segments": [{"set": v1, "items": mixed, "cuts": []}],
                            "then": [[{"items": [b, line(VALID[2])], "cuts": []}, {"set": v2, "items": [b, b], "cuts": [7]}],
                                     [{"items": mixed, "cuts": []}]], "opts": {"api": api}})
        # ... the first connection ending in every way: the host leaves normally, the child has already exited by itself when
        # the host leaves, the body raises - crossed with what the first connection negotiated (by
        # set_protocol_version or by a real handshake is the same call)
        for api in ("client", "transport"):
            for v1 in ("2025-06-18", "2025-03-26", "2026-01-01"):
                for end in (None, "child-exited", "exception"):
                    out.append({"segments": [{"set": v1, "items": [b, line(VALID[2])], "cuts": []}],
                                "then": [[{"items": [b, line(VALID[3])], "cuts": []}, {"set": "2025-06-18", "items": [b], "cuts": []}],
                                         [{"items": [line(VALID[0]), b], "cuts": [5]}]],
                                "ends": [end, rng.choice([None, "child-exited", "exception"]), None], "opts": {"api": api}})
        # non-default connection options crossed with rejection / acceptance
        for server in ({"env": {"LOG_LEVEL": "ERROR"}}, {"env": {"LOGGING_LEVEL": "CRITICAL"}, "args": ["--quiet"]}):
            for v in ("2025-06-18", "2025-03-26"):
                out.append({"segments": [{"set": v, "items": mixed, "cuts": []}], "server": server})
        # two and three connections alive at once at DIFFERENT versions receiving the SAME lines (equal ids): each obeys its own
        n0 = len(out)
        for g, vs3 in enumerate((("2025-06-18", "2025-03-26", "2025-06-18"), ("2024-11-05", "2025-06-18", None), ("2025-06-18", "2025-06-18", "2025-03-26"))):
            grp = [{"segments": [{"set": v, "items": mixed, "cuts": []}, {"items": [b, b], "cuts": []}]} for v in vs3]
            for c in grp:
                out.append(dict(c, **{"with": [o for o in grp if o is not c]}))
        from .. import stdio_h
        stdio_h.prejudge([t for c in out for t in all_texts(c)])  # well-formedness judged in a process that has parsed nothing else
        # a host with DEBUG logging configured
        for i, c in enumerate(out):
            if i % 4 == 1:
                c["debug"] = "format" if i % 8 == 1 else True
        return out

    # ------------------------------------------------------------------ implementation
    def impl_batch(self, cases):
        from .. import stdio_h

        def harness_case(c):
            h = dict({"events": events_of(c), "opts": c.get("opts", {})}, **{k: c[k] for k in ("debug", "server") if k in c})
            if c.get("then"):
                h["session_events"] = [events_of(c, segs) for segs in histories(c)]
                if c.get("ends"):  # how each connection ends
                    h["session_opts"] = [({"end": e} if e else {}) for e in c["ends"]]
            if c.get("with"):
                h["with"] = [harness_case(w) for w in c["with"]]
            return h

        return stdio_h.run_reader_cases([harness_case(c) for c in cases])

    # ------------------------------------------------------------------ model
    def model_line(self, case):
        table, _ = G.line_table(all_texts(case))
        # (the reader model does not know about the child's stdin: with it closed the rejection is decided but cannot be written)
        def model_events(segs):
            evs = []
            for e in events_of(case, segs):
                if "close_stdin" in e or "sleep" in e:
                    continue
                evs.append({"v": e["reply_init"]} if "reply_init" in e else e)  # the handshake's only effect on the reader: the version
            return evs

        if case.get("then"):  # consecutive connections on one object (Model.StdioIn.runSessions)
            return {"m": "stdio_reader", "sessions": [model_events(segs) for segs in histories(case)], "table": table, "cap": 100}
        return {"m": "stdio_reader", "events": model_events(case["segments"]), "table": table, "cap": 100}

    def model_obs(self, out, case):
        if "driver_error" in out:
            return out
        _, msgs = G.line_table(all_texts(case))

        def one(out):
            return {"delivered": [msgs[i][0] for i in out["delivered"]], "notified": [msgs[i][0] for i in out["offered"]],
                    "rejections": out["rejections"]}

        if "sessions" in out:
            ss = [one(x) for x in out["sessions"]]
            return dict(ss[-1], earlier=ss[:-1])
        return one(out)

    def compare(self, case, o, m):
        if "harness_error" in o or "driver_error" in m:
            return "error"
        for k, (o, m) in enumerate(zip(o.get("earlier", []) + [o], m.get("earlier", []) + [m])):
            if o["delivered"] is not None and core.canon(o["delivered"]) != core.canon(m["delivered"]):
                return "delivered"
            if not G.notif_ok(o["notified"], m["notified"]):
                return "notified"
            nw = len([w for w in o["writes"] if not (isinstance(w.get("json"), dict) and "method" in w["json"])])
            if not any(seg.get("close_stdin") for seg in histories(case)[k]) and nw != m["rejections"]:
                return "rejections"
        return None

    # ------------------------------------------------------------------ property oracle
    def expected(self, case, segments=None):
        from .. import stdio_h

        mode = True  # a connection starts with no version negotiated
        delivered, notified, rejected, forbidden = [], [], 0, []
        stdin_open = True
        sets = []
        for seg in (case["segments"] if segments is None else segments):
            if "set" in seg:
                mode = mode_of(seg["set"])
                sets.append({"set": seg["set"], "enabled": mode})
            if "handshake" in seg:
                mode = mode_of(seg["handshake"])
            if seg.get("close_stdin"):
                stdin_open = False
            for it in seg["items"]:
                v = stdio_h.parse_line(it["text"])
                if v[0] == "single":
                    delivered.append(v[1])
                    if v[2]:
                        notified.append(v[1])
                elif v[0] == "batch":
                    if mode:
                        for mem in v[1]:
                            if mem is not None:
                                delivered.append(mem[0])
                                if mem[1]:
                                    notified.append(mem[0])
                    else:
                        rejected += 1 if stdin_open else 0  # with the child's stdin closed there is nowhere to answer
                        forbidden += [mem[0] for mem in v[1] if mem is not None]
        return {"delivered": delivered, "notified": notified, "rejections": rejected, "_forbidden": forbidden, "_sets": sets}

    def oracle(self, case, o):
        if "harness_error" in o:
            return ("client-raised", f"the stdio client raised {o['harness_error']}", self.expected(case))
        hs = histories(case)
        for k, ob in enumerate(o.get("earlier", []) + [o]):
            r = self.oracle_one(case, ob, hs[k])
            if r is not None:
                if k > 0:  # a connection that is not the object's first
                    api = case.get("opts", {}).get("api", "client")
                    return (f"{r[0]}/reentered-{api}", r[1] + f" [connection {k + 1} of {len(hs)} on the same {api} object]", r[2])
                return r
        return None

    def oracle_one(self, case, o, segments):
        want = self.expected(case, segments)
        forbidden = want.pop("_forbidden")
        sets = want.pop("_sets")
        if "harness_error" in o:
            return ("client-raised", f"the stdio client raised {o['harness_error']}", want)
        if o["delivered"] is not None and core.canon(o["delivered"]) != core.canon(want["delivered"]):
            fb = {core.canon(x) for x in forbidden}
            wanted = {core.canon(x) for x in want["delivered"]}
            if any(core.canon(x) in fb and core.canon(x) not in wanted for x in o["delivered"]):
                return ("member-delivered-without-batching",
                        "a member of a batch received at a version without batching was delivered", want)
            return ("batch-members-differ", "the read stream is not: every single message and, at versions with batching, "
                    "every valid batch member in order (invalid members dropped alone)", want)
        # what the client writes of its own accord during a handshake (initialize, notifications/initialized) is not an answer to a batch
        writes = [w for w in o["writes"] if not (isinstance(w.get("json"), dict) and "method" in w["json"])]
        if len(writes) != want["rejections"]:
            return ("rejection-count", "the number of messages written back is not the number of batches received at a version "
                    "without batching (exactly one error per such batch, none otherwise)", want)
        for w in writes:
            j = w.get("json")
            code = j.get("error", {}).get("code") if isinstance(j, dict) and isinstance(j.get("error"), dict) else None
            if code != -32600 or isinstance(code, bool):
                return ("rejection-code", "the message written back for a rejected batch is not a -32600 error", want)
        for w, g in zip(sets, o.get("info") or []):
            if g.get("enabled") is not w["enabled"] or g.get("version") != w["set"] or (
                    isinstance(g.get("info"), dict) and (g["info"].get("batching_enabled") is not w["enabled"]
                                                         or g["info"].get("supports_batch_function") is not w["enabled"]
                                                         or g["info"].get("protocol_version") != w["set"])):
                return ("version-getters", f"after set_protocol_version({w['set']!r}) the client reports "
                        f"version={g.get('version')!r} batching={g.get('enabled')!r}", {"after_set": sets})
        if not G.notif_ok(o["notified"], want["notified"]):
            return ("notification-not-offered", "id-less delivered messages are not the content of the notification stream", want)
        return None

    def kind(self, case, o):
        nseg = len(case["segments"])
        e = self.expected(case)
        tags = []
        if e["rejections"]:
            tags.append("rejects")
        if any(v[0] == "batch" for v in (self._pl(t) for t in all_texts(case))):
            tags.append("batch")
        sets = [seg.get("set", seg.get("handshake", "unset")) for seg in case["segments"]]
        if len({mode_of(s) if s != "unset" else True for s in sets}) > 1:
            tags.append("mode-change")
        if case.get("then"):
            tags.append("reconnect")
        return f"segments={min(nseg, 3)}{'+' if nseg > 3 else ''}/" + ("+".join(tags) or "plain")

    @staticmethod
    def _pl(t):
        from .. import stdio_h

        return stdio_h.parse_line(t)

    def nontrivial(self, case, o):
        return any(seg["items"] for seg in case["segments"])

    @staticmethod
    def _shrink_segs(segs, keep_one=True):
        for i in range(len(segs)):
            if len(segs) > 1 or not keep_one:
                yield segs[:i] + segs[i + 1:]
        for i, seg in enumerate(segs):
            if seg.get("cuts"):
                yield segs[:i] + [dict(seg, cuts=[])] + segs[i + 1:]
            for j in range(len(seg["items"])):
                yield segs[:i] + [dict(seg, items=seg["items"][:j] + seg["items"][j + 1:], cuts=[])] + segs[i + 1:]
            for j, it in enumerate(seg["items"]):
                try:
                    d = json.loads(it["text"])
                except ValueError:
                    continue
                if isinstance(d, list) and len(d) > 1:
                    for k in range(len(d)):
                        nd = d[:k] + d[k + 1:]
                        yield segs[:i] + [dict(seg, items=seg["items"][:j] + [dict(it, text=_c(nd))] + seg["items"][j + 1:],
                                               cuts=[])] + segs[i + 1:]

    def shrink_candidates(self, case):
        if not case.get("then"):
            for segs in self._shrink_segs(case["segments"]):
                yield {"segments": segs}
            return
        # consecutive connections on one object: fewer connections, then less inside each (the entry point is kept)
        keep = {k: v for k, v in case.items() if k in ("opts", "ends")}
        then = case["then"]
        for i in range(len(then)):
            rest = then[:i] + then[i + 1:]
            k2 = dict(keep, ends=case["ends"][:i + 1] + case["ends"][i + 2:]) if case.get("ends") else keep
            yield dict(k2, segments=case["segments"], **({"then": rest} if rest else {}))
        for segs in self._shrink_segs(case["segments"]):
            yield dict(keep, segments=segs, then=then)
        for i, h in enumerate(then):
            for segs in self._shrink_segs(h):
                yield dict(keep, segments=case["segments"], then=then[:i] + [segs] + then[i + 1:])

def suites():
    return [Transport()]
