"""C05 — stdio inbound framing is independent of how the byte stream is chunked."""
from __future__ import annotations

import itertools

from ..runner import Suite
from .. import stdio_gen as G

MANIFEST = dict(
    text="Lean 4 theorems about an executable model of StdioClient._stdout_reader (incremental UTF-8 decoder with CPython's validity checks, split-on-LF buffer, str.strip, per-line processing with the parser as a parameter): for EVERY parser, every text and every way of cutting its UTF-8 encoding into any number of chunks (inside characters and CRLF included) the reader's outputs and final state are the same and equal the per-line processing of the text; the read stream is exactly the accepted lines in order; a blank / non-JSON / non-message line inserted anywhere changes nothing and leaves the reader alive; notification offers are the id-less part of the read stream; only a raw LF separates lines; and with the parser instantiated by the library's real codec (Json.dec + Rpc.parseMsg): the line Json.enc st (Rpc.emit m) of any constructor-built message, in any encoder style, with blanks around it, LF or CRLF, is accepted and contributes exactly the message, and a stream of such lines with junk between them delivers exactly the messages in order for every chunking. Correspondence: the real StdioClient is driven through the anyio.open_process seam with a scripted child whose stdout yields the chosen chunks; all 1- and 2-cut positions of bounded streams, seeded multi-cuts, byte-at-a-time; the parser verdicts given to the model are those of the library's real parser on whole lines.",
    note="Trusted: Lean kernel, the harness (scripted process, virtual-time loop), CPython's codecs incremental decoder and str.strip/str.split as sampled. 'Well-formed line' is defined by the library's own fast_json.loads + parse_message.",
    technique="Lean 4 proof over a hand-written executable model + correspondence run against the real StdioClient",
    design="5/C05",
)
GEN: list = []
THEOREMS = [
    "c05_reader_is_line_map",
    "c05_chunk_independent",
    "c05_chunks_eq_whole",
    "c05_delivers_good_lines",
    "c05_accepted_message",
    "c05_accepted_junk",
    "c05_good_lines_filterMap",
    "c05_bad_line_isolated",
    "c05_notifications_offered",
    "c05_only_lf_separates",
    "c05_real_codec_line",
    "c05_real_codec_stream",
]
RULE = (
    "streams of 1..6 lines (messages in several serialisations with ASCII / 2- / 3- / 4-byte characters, U+0085, "
    "U+2028/2029, escaped newlines; junk lines; LF and CRLF) x cut positions: every single cut and every pair of cuts "
    "of the directed bounded streams (exhaustive), every single cut of the seeded streams, seeded 3..8 cuts, one byte "
    "per read; thorough adds every triple of cuts of short streams and seeded cuts of 64 KiB+ streams; "
    "non-trivial = distinct (stream, cuts)"
)
TRUSTED = ["scripted process behind anyio.open_process (py/verifpy/stdio_h.py)"]
ASSUMPTIONS = [
    "the child's output is valid UTF-8 (the property's streams are text)",
    "codecs' incremental UTF-8 decoder, str.split, str.strip behave as modelled (sampled by the correspondence run)",
    "a line is well-formed iff the library's own fast_json.loads + parse_message accept it",
]

NOTIF_CAP = 100


def _msg(d):
    import json

    return json.dumps(d, ensure_ascii=False, separators=(",", ":"))


def directed_streams():
    a = [
        {"text": _msg({"jsonrpc": "2.0", "id": 1, "result": {"t": "\u00e9\u2028\U0001f600"}}), "term": "\r\n"},
        {"text": "junk\u0085", "term": "\n"},
        {"text": _msg({"jsonrpc": "2.0", "method": "n/\u20ac", "params": {"a": "x\ny"}}), "term": "\n"},
    ]
    b = [
        {"text": "", "term": "\r\n"},
        {"text": _msg({"jsonrpc": "2.0", "method": "\u2029"}), "term": "\n"},
        {"text": '{"jsonrpc":"2.0","id":1}', "term": "\r\n"},
        {"text": ' {"id": "\\u00e9", "error": {"code": 1, "message": "\\n"}} ', "term": "\r\n"},
    ]
    c = [
        {"text": "\u2028", "term": "\n"},
        {"text": _msg({"jsonrpc": "2.0", "id": "\U0010ffff", "method": "m", "params": {"\u0085": ["\u07ff", None]}}), "term": "\n"},
        {"text": "\x0b\x0c", "term": "\n"},
        {"text": _msg({"jsonrpc": "2.0", "id": 0, "result": "s\r"}), "term": "\r\n"},
    ]
    return [a, b, c]


def all_cuts(n, k):
    return [list(c) for c in itertools.combinations(range(1, n), k)]


class Chunking(Suite):
    name = "chunking"

    def cases(self, ctx, budget):
        out = []
        thorough = budget != "quick"
        streams = directed_streams()
        # exhaustive: 0, 1 and 2 cuts of the directed bounded streams
        for k, items in enumerate(streams):
            n = len(G.stream_bytes({"items": items}))
            out.append({"items": items, "cuts": []})
            out.append({"items": items, "cuts": list(range(1, n))})
            for cuts in all_cuts(n, 1):
                out.append({"items": items, "cuts": cuts})
            if k < (3 if thorough else 2):
                for cuts in all_cuts(n, 2):
                    out.append({"items": items, "cuts": cuts})
        ctx.exhaustive_parts.append("chunking: every 1-cut and 2-cut of the directed streams "
                                    + str([len(G.stream_bytes({"items": s})) for s in streams]) + " bytes")
        # a trailing unterminated fragment stays in the buffer
        out.append({"items": streams[0], "cuts": [5, 40], "tail": '{"jsonrpc":"2.0","me'})
        out.append({"items": [], "cuts": [], "tail": "\u00e9"})
        # more than the notification stream's capacity, nobody reading it
        many = [{"text": _msg({"jsonrpc": "2.0", "method": "n", "params": {"i": i}}), "term": "\n"} for i in range(NOTIF_CAP + 7)]
        out.append({"items": many, "cuts": [1000, 2001]})
        # seeded streams
        rng = ctx.sub_rng("chunking", budget)
        nstreams = 24 if budget == "quick" else 300
        for _ in range(nstreams):
            items = G.rand_items(rng)
            n = len(G.stream_bytes({"items": items}))
            if n < 2:
                continue
            out.append({"items": items, "cuts": []})
            out.append({"items": items, "cuts": list(range(1, n))})
            if n <= 400:
                for cuts in all_cuts(n, 1):
                    out.append({"items": items, "cuts": cuts})
            for _ in range(30 if budget == "quick" else 60):
                k = rng.randrange(2, 9)
                if n - 1 >= k:
                    out.append({"items": items, "cuts": sorted(rng.sample(range(1, n), k))})
        if thorough:
            # every triple of cuts of short streams
            short = [
                [{"text": _msg({"jsonrpc": "2.0", "method": "\u00e9\u20ac\U0001f600"}), "term": "\r\n"}, {"text": "x", "term": "\n"}],
                [{"text": "\u2028", "term": "\r\n"}, {"text": _msg({"jsonrpc": "2.0", "id": 1, "result": {"\u0085": "\n"}}), "term": "\n"}],
            ]
            for items in short:
                n = len(G.stream_bytes({"items": items}))
                for cuts in all_cuts(n, 3):
                    out.append({"items": items, "cuts": cuts})
            ctx.exhaustive_parts.append("chunking: every 3-cut of two short streams")
            # long streams (> 64 KiB) with seeded cuts, including 64 KiB-aligned reads
            for _ in range(12):
                items = []
                while len(G.stream_bytes({"items": items})) < 70000:
                    items += G.rand_items(rng, 4, 8, junk_p=0.2)
                    big = G.rand_message(rng)
                    big["big"] = "".join(rng.choice(rng.choice(G.CLASSES[:4])) for _ in range(3000))
                    items.append({"text": _msg(big), "term": rng.choice(["\n", "\r\n"])})
                n = len(G.stream_bytes({"items": items}))
                out.append({"items": items, "cuts": list(range(65536, n, 65536))})
                out.append({"items": items, "cuts": list(range(4096, n, 4096))})
                for _ in range(6):
                    out.append({"items": items, "cuts": sorted(rng.sample(range(1, n), rng.randrange(1, 40)))})
        return out

    # ------------------------------------------------------------------ implementation
    def impl_batch(self, cases):
        from .. import stdio_h

        evs = [{"events": [{"c": ch.hex()} for ch in G.chunks_of(c)]} for c in cases]
        obs = stdio_h.run_reader_cases(evs)
        return [{k: o[k] for k in o if k != "writes"} | ({"writes": len(o["writes"])} if "writes" in o else {}) for o in obs]

    # ------------------------------------------------------------------ model
    def model_line(self, case):
        table, _ = G.line_table([it["text"] for it in case["items"]] + ([case["tail"]] if case.get("tail") else []))
        return {"m": "stdio_reader", "events": [{"c": ch.hex()} for ch in G.chunks_of(case)], "table": table, "cap": NOTIF_CAP}

    def model_obs(self, out, case):
        _, msgs = G.line_table([it["text"] for it in case["items"]] + ([case["tail"]] if case.get("tail") else []))
        if "driver_error" in out:
            return out
        return {"delivered": [msgs[i][0] for i in out["delivered"]], "notified": [msgs[i][0] for i in out["buffered"]],
                "rejections": out["rejections"]}

    def compare(self, case, o, m):
        from .. import core

        if "harness_error" in o or "driver_error" in m:
            return "error"
        for k in ("delivered", "notified"):
            if core.canon(o[k]) != core.canon(m[k]):
                return k
        return None

    # ------------------------------------------------------------------ property oracle
    def expected(self, case):
        from .. import stdio_h

        delivered, notified = [], []
        for it in case["items"]:
            v = stdio_h.parse_line(it["text"])
            if v[0] == "single":
                delivered.append(v[1])
                if v[2]:
                    notified.append(v[1])
            elif v[0] == "batch":  # no version negotiated: members the parser accepts (C13); not generated here
                for m in v[1]:
                    if m is not None:
                        delivered.append(m[0])
                        if m[1]:
                            notified.append(m[0])
        return {"delivered": delivered, "notified": notified[:NOTIF_CAP]}

    def oracle(self, case, o):
        from .. import core

        want = self.expected(case)
        if "harness_error" in o:
            return ("client-raised", f"the stdio client raised {o['harness_error']} while reading", want)
        got = o["delivered"]
        if core.canon(got) != core.canon(want["delivered"]):
            inside_char, _ = G.cut_classes(case)
            prefix = len(got) < len(want["delivered"]) and core.canon(got) == core.canon(want["delivered"][:len(got)])
            if prefix and inside_char and not o.get("eof"):
                return ("reader-dies-on-split-character",
                        "a read boundary inside a multi-byte UTF-8 character ends the reader: the line containing it "
                        "and every later well-formed line are never delivered", want)
            if prefix:
                return ("reader-stops-early", "only a proper prefix of the well-formed lines is delivered", want)
            return ("delivered-sequence-differs", "the read stream is not the sequence of well-formed lines written", want)
        if core.canon(o["notified"]) != core.canon(want["notified"]):
            return ("notification-not-offered", "the notification stream does not carry the id-less messages delivered", want)
        return None

    def kind(self, case, o):
        ic, icr = G.cut_classes(case)
        n = len(case.get("cuts", []))
        return f"cuts={'0' if n == 0 else '1' if n == 1 else '2' if n == 2 else '3+'}/" + \
            ("split-char" if ic else "whole-chars") + ("/split-crlf" if icr else "")

    def nontrivial(self, case, o):
        return bool(case["items"])

    def shrink_candidates(self, case):
        return G.shrink_stream(case)


def suites():
    return [Chunking()]
