"""C05 — stdio inbound framing is independent of how the byte stream is chunked."""
from __future__ import annotations

import itertools

from ..runner import Suite
from .. import stdio_gen as G

MANIFEST = dict(
    text="Lean 4 theorems about an executable model of StdioClient._stdout_reader (incremental UTF-8 decoder with CPython's validity checks, split-on-LF buffer, str.strip, per-line processing with the parser as a parameter): for EVERY parser, every text and every way of cutting its UTF-8 encoding into any number of chunks (inside characters and CRLF included) the reader's outputs and final state are the same and equal the per-line processing of the text; the read stream is exactly the accepted lines in order; a blank / non-JSON / non-message line inserted anywhere changes nothing and leaves the reader alive; notification offers are the id-less part of the read stream; only a raw LF separates lines; and with the parser instantiated by the library's real codec (Json.dec + Rpc.parseMsg): the line Json.enc st (Rpc.emit m) of any constructor-built message, in any encoder style, with blanks around it, LF or CRLF, is accepted and contributes exactly the message, and a stream of such lines with junk between them delivers exactly the messages in order for every chunking. Correspondence: the real StdioClient is driven through the anyio.open_process seam with a scripted child whose stdout yields the chosen chunks; all 1- and 2-cut positions of bounded streams, seeded multi-cuts, byte-at-a-time; the parser verdicts given to the model are those of the library's real parser on whole lines.",
    note="Trusted: Lean kernel, the harness (scripted process, virtual-time loop), CPython's codecs incremental decoder and str.strip/str.split as sampled. 'Well-formed line' is defined by the library's own fast_json.loads + parse_message.",
    technique="Lean 4 proof over a hand-written executable model + correspondence run against the real StdioClient",
    design="5/C05",
)
GEN: list = []
THEOREMS = [
    "c05_reader_is_line_map",
    "c05_chunk_independent",
    "c05_chunks_eq_whole",
    "c05_delivers_good_lines",
    "c05_accepted_message",
    "c05_accepted_junk",
    "c05_good_lines_filterMap",
    "c05_bad_line_isolated",
    "c05_sessions_independent",
    "c05_notifications_offered",
    "c05_only_lf_separates",
    "c05_real_codec_line",
    "c05_real_codec_stream",
    "c05_route_each_message",
    "c05_route_refines",
    "c05_route_streams",
    "c05_route_chunk_independent",
    "c05_route_real_refines",
    "c05_route_never_raises",
    "c05_instances_independent",
]
RULE = (
    "streams of 1..6 lines (messages in several serialisations with ASCII / 2- / 3- / 4-byte characters, U+0085, "
    "U+2028/2029, escaped newlines; junk lines; LF and CRLF) x cut positions: every single cut and every pair of cuts "
    "of the directed bounded streams (exhaustive), every single cut of the seeded streams, seeded 3..8 cuts, one byte "
    "per read; thorough adds every triple of cuts of short streams and seeded cuts of 64 KiB+ streams; "
    "scenarios: unread 100-slot notification stream at 99/100/101/150/200 (+ closed receiver), 100-slot read stream with a "
    "late / slow / vanished consumer, per-request streams of the legacy API under ids of both JSON types and falsy ids "
    "(open and closed receivers), write side closed first, the three entry points (StdioClient, stdio_client(), "
    "StdioTransport), one client object used for two sessions, str / mixed chunks, 100 kB format-hostile lines with "
    "64 KiB-aligned reads, 100 000-deep nesting, a non-UTF-8 last read, junk-only and duplicated lines; well-formed lines at "
    "the edge of the decoders' domains (lone surrogate escapes, 1e400, nesting of 1024 / 1040 levels) between good lines; a second "
    "session on the same object after a first one whose child died inside a line / a character; message pools with "
    "falsy values, type twins, constants harvested from the anchored modules, extra / reordered members; "
    "non-trivial = distinct (stream, cuts, scenario)"
)
TRUSTED = ["scripted process behind anyio.open_process (py/verifpy/stdio_h.py)"]
ASSUMPTIONS = [
    "the child's output is valid UTF-8 (the property's streams are text)",
    "codecs' incremental UTF-8 decoder, str.split, str.strip behave as modelled (sampled by the correspondence run)",
    "a line is well-formed iff the library's own fast_json.loads + parse_message accept it",
]

NOTIF_CAP = 100


def _msg(d):
    import json

    return json.dumps(d, ensure_ascii=False, separators=(",", ":"))


def directed_streams():
    a = [
        {"text": _msg({"jsonrpc": "2.0", "id": 1, "result": {"t": "\u00e9\u2028\U0001f600"}}), "term": "\r\n"},
        {"text": "junk\u0085", "term": "\n"},
        {"text": _msg({"jsonrpc": "2.0", "method": "n/\u20ac", "params": {"a": "x\ny"}}), "term": "\n"},
    ]
    b = [
        {"text": "", "term": "\r\n"},
        {"text": _msg({"jsonrpc": "2.0", "method": "\u2029"}), "term": "\n"},
        {"text": '{"jsonrpc":"2.0","id":1}', "term": "\r\n"},
        {"text": ' {"id": "\\u00e9", "error": {"code": 1, "message": "\\n"}} ', "term": "\r\n"},
    ]
    c = [
        {"text": "\u2028", "term": "\n"},
        {"text": _msg({"jsonrpc": "2.0", "id": "\U0010ffff", "method": "m", "params": {"\u0085": ["\u07ff", None]}}), "term": "\n"},
        {"text": "\x0b\x0c", "term": "\n"},
        {"text": _msg({"jsonrpc": "2.0", "id": 0, "result": "s\r"}), "term": "\r\n"},
    ]
    return [a, b, c]


def char_boundaries(b: bytes):
    return [p for p in range(1, len(b)) if not (0x80 <= b[p] < 0xC0)]


def events_for(case):
    """reads of the child's stdout: bytes chunks, or (chunks_as = str / mixed) text chunks cut at
    character boundaries - the reader accepts both"""
    chunks = G.chunks_of(case)
    idle = case.get("idle_hours")
    if case.get("bad_tail_hex"):  # a last read that is not UTF-8 (ends the reader; everything before it was complete)
        chunks = chunks + [bytes.fromhex(case["bad_tail_hex"])]
    mode = case.get("chunks_as", "bytes")
    evs = []
    for i, ch in enumerate(chunks):
        if idle and i > 0:  # nothing arrives for hours between two reads
            evs.append({"sleep": int(idle * 3600 * 1024)})
        if mode == "str" or (mode == "mixed" and i % 2 == 1):
            evs.append({"s": ch.decode("utf-8")})
        else:
            evs.append({"c": ch.hex()})
    return evs


def conn_case(case, k):
    """connection k of a case with "conns": [{"rot": r, "tail": fragment, "consume": n, "notifs_unread": bool}, ...] - the child of
    connection k writes the case's lines rotated by r (so every connection has its own sequence), then possibly an
    unterminated fragment (text, or hex + "#hex") before it dies"""
    sp = case["conns"][k]
    r = sp.get("rot", 0) % max(1, len(case["items"]))
    return dict(case, items=case["items"][r:] + case["items"][:r])


def conn_events(case, k):
    evs = events_for(conn_case(case, k))
    t = case["conns"][k].get("tail")
    if t is not None:
        evs = evs + [{"c": (bytes.fromhex(t[:-4]) if t.endswith("#hex") else t.encode("utf-8")).hex()}]
    return evs


def scenario_cases(rng, budget):
    """usage scenarios around the same reader (HARDEN.md classes 5-8): buffer limits and back-pressure,
    per-request streams of the legacy API, closed receivers, half-closed connection, the three public
    entry points, a client object used for two sessions, text chunks, very long lines"""
    out = []
    nl = "\n"

    def notif(i):
        return {"text": _msg({"jsonrpc": "2.0", "method": "notifications/message", "params": {"i": i}}), "term": nl}

    def resp(i, idv=None):
        return {"text": _msg({"jsonrpc": "2.0", "id": i if idv is None else idv, "result": {"i": i}}), "term": nl}

    thorough = budget != "quick"
    # 100-slot notification stream nobody reads: N-1, N, N+1, multiples; responses in between
    for n in ([99, 100, 101, 150, 200] if not thorough else [1, 50, 99, 100, 101, 102, 150, 200, 201, 300, 500]):
        items = []
        for i in range(n):
            items.append(notif(i))
            if i % 25 == 24:
                items.append(resp(i))
        items.append(resp("last"))
        out.append({"items": items, "cuts": [], "opts": {"scenario": f"notif-unread-{n}"}})
        out.append({"items": items, "cuts": [len(G.stream_bytes({"items": items})) // 2], "opts": {"scenario": f"notif-unread-{n}", "notif_closed": n == 101}})
    # 100-slot read stream with a consumer that starts late / is slow: the reader has to wait, nothing may be lost
    for n in ([99, 100, 101, 102, 250] if not thorough else [99, 100, 101, 102, 199, 200, 201, 250, 400]):
        items = [resp(i) if i % 3 else notif(i) for i in range(n)]
        for consumer in ("late", "slow"):
            out.append({"items": items, "cuts": [], "opts": {"scenario": f"read-stream-{consumer}-{n}", "consumer": consumer}})
    # per-request streams of the legacy API (keyed by str(id)): ids of both JSON types side by side, falsy ids, closed receivers
    twins = [resp(1, 7), resp(2, "7"), resp(3, 0), resp(4, ""), resp(5, "0"), resp(6, 7), notif(7), resp(8, "id-x"), resp(9, True), resp(10, 7.0)]
    for pend, closed in ([7], []), (["7"], []), ([0, "", "id-x"], []), ([], [7, 0]), ([7, "0"], ["", "id-x"]), (["None", "True", "7.0"], []):
        out.append({"items": twins, "cuts": [], "opts": {"scenario": "per-request-streams", "pending": pend, "pending_closed": closed}})
        out.append({"items": twins + twins, "cuts": [17, 90], "opts": {"scenario": "per-request-streams", "pending": pend, "pending_closed": closed}})
    # receivers that went away; the write side closed while the child keeps talking
    base = directed_streams()[0]
    n0 = len(G.stream_bytes({"items": base}))
    for opts in ({"notif_closed": True}, {"close_write_first": True}, {"notif_closed": True, "close_write_first": True}):
        out.append({"items": base + [notif(1), notif(2)], "cuts": [n0 // 3], "opts": dict(opts, scenario="receiver-or-writer-gone")})
    # the three public entry points; one client object used for two sessions
    for api in ("function", "transport", "client"):
        for k in range(3 if not thorough else 12):
            items = G.rand_items(rng)
            nb = len(G.stream_bytes({"items": items}))
            cuts = sorted(rng.sample(range(1, nb), min(nb - 1, 3))) if nb > 4 else []
            out.append({"items": items, "cuts": cuts, "opts": {"scenario": "api-" + api, "api": api}})
        out.append({"items": base, "cuts": [7, n0 - 2], "opts": {"scenario": "two-sessions-" + api, "api": api, "sessions": 2}})
    # text chunks (str) and mixed str / bytes chunks, cut at character boundaries
    for mode in ("str", "mixed"):
        for items in directed_streams():
            bs = char_boundaries(G.stream_bytes({"items": items}))
            out.append({"items": items, "cuts": [], "chunks_as": mode, "opts": {"scenario": "chunks-" + mode}})
            for _ in range(4 if not thorough else 40):
                out.append({"items": items, "cuts": sorted(rng.sample(bs, rng.randrange(1, 6))), "chunks_as": mode,
                            "opts": {"scenario": "chunks-" + mode}})
    # very long lines (about 100 kB message with format-hostile text, 100 kB junk), 64 KiB-aligned reads
    hostile = "".join(G.HOSTILE) + "%s{}\u2028\u00e9"
    big = {"jsonrpc": "2.0", "id": 5, "result": {"text": hostile * (100_000 // len(hostile))}}
    items = [notif(0), {"text": _msg(big), "term": "\r\n"}, {"text": "%d{" * 33_000, "term": nl}, resp(1)]
    nb = len(G.stream_bytes({"items": items}))
    for cuts in ([], [65536], [65535, 65537, 131072], list(range(4096, nb, 4096)), list(range(65536, nb, 65536))):
        out.append({"items": items, "cuts": cuts, "opts": {"scenario": "long-lines"}})
    # the consumer of the read stream went away (notifications are still offered); a line nested deeper than any JSON
    # decoder's recursion limit; a final read that is not UTF-8 after complete lines
    out.append({"items": base + [notif(1), resp(2), notif(3)], "cuts": [n0 // 2], "opts": {"scenario": "read-receiver-closed", "read_closed": True}})
    deep = {"text": "[" * 100_000, "term": nl}
    out.append({"items": [resp(1), deep, notif(2), {"text": "[" * 100_000 + "]" * 100_000, "term": nl}, resp(3)], "cuts": [50_000],
                "opts": {"scenario": "deep-nesting"}})
    for bad in ("ff0a", "c328", "e282", "f09f98", "80"):
        out.append({"items": base + [notif(9)], "cuts": [n0 // 2], "bad_tail_hex": bad, "opts": {"scenario": "invalid-utf8-tail"}})
    # every JSON type at every position of a message, with an EMPTY and with a NON-EMPTY table of per-request streams
    tm = [{"text": t, "term": nl} for t in G.type_matrix_lines()]
    out.append({"items": tm, "cuts": [], "opts": {"scenario": "type-matrix"}})
    out.append({"items": tm, "cuts": [len(G.stream_bytes({"items": tm})) // 3], "opts": {"scenario": "type-matrix", "pending": [1, "1", "7", 0, "", "True", "None", "1.5"],
                                                                                     "pending_closed": ["False", "[]"]}})
    # lines of the SAME SHAPE (same member names) whose members hold values of different JSON types, object-valued first
    # (and last, and in reverse): a reader must not learn from the first message of a shape what the later ones look like -
    # in one stream, and across connections of one object (= within one process)
    def L(d):
        return {"text": _msg(d), "term": nl}

    twins = []
    for res in ({"a": 1}, [1, {"b": 2}], "text", 7, 1.5, True, None, {}, []):
        twins.append(L({"jsonrpc": "2.0", "id": len(twins) + 1, "result": res}))
    for par in ({"x": 1}, [1, 2], {}, []):
        twins.append(L({"jsonrpc": "2.0", "id": len(twins) + 1, "method": "tools/call", "params": par}))
        twins.append(L({"jsonrpc": "2.0", "method": "notifications/progress", "params": par}))
    for idv in ("abc", 5, "5", 0, ""):
        twins.append(L({"jsonrpc": "2.0", "id": idv, "result": {"of": "id"}}))
        twins.append(L({"jsonrpc": "2.0", "id": idv, "method": "ping"}))
        twins.append(L({"jsonrpc": "2.0", "id": idv, "error": {"code": -32000, "message": "m", "data": idv}}))
    for dat in ({"d": 1}, [1], "s", 3, None):
        twins.append(L({"jsonrpc": "2.0", "id": 9, "error": {"code": -1, "message": "m", "data": dat}}))
    for order in (twins, twins[::-1], twins + twins[:3]):
        out.append({"items": order, "cuts": [41], "opts": {"scenario": "same-shape-other-types"}})
        out.append({"items": order, "cuts": [], "opts": {"scenario": "same-shape-other-types", "fresh_process": True}})
    for api in ("client", "function"):
        out.append({"items": twins, "cuts": [], "conns": [{"rot": 0}, {"rot": 1}, {"rot": 9}, {"rot": len(twins) - 1}],
                    "opts": {"scenario": "same-shape-other-types", "api": api, "fresh_process": api == "client"}})
    # the SAME bad line 2, 3, 4 times in a row, then a good one; a bad line after a good one and before one
    for bad in ("not json", '{"jsonrpc":"2.0","id":1}', "[" * 100_000, "", "\x00"):
        for k in (2, 3, 4):
            out.append({"items": [resp(1)] + [{"text": bad, "term": nl}] * k + [resp(2), notif(3)], "cuts": [], "opts": {"scenario": "repeated-failure"}})
        out.append({"items": [resp(1), {"text": bad, "term": nl}, resp(2), {"text": bad, "term": "\r\n"}, resp(3)], "cuts": [5], "opts": {"scenario": "repeated-failure"}})
    # non-default connection options crossed with unusual input
    for server in ({"env": {"LOG_LEVEL": "ERROR"}}, {"env": {"LOGGING_LEVEL": "critical"}}, {"env": {"LOG_LEVEL": "debug", "X": ""}, "args": ["-x", ""]}):
        out.append({"items": base + [{"text": t, "term": nl} for t in G.JUNK[:12]] + [notif(1)], "cuts": [n0 // 2], "server": server,
                    "opts": {"scenario": "connection-options"}})
    # SIZE AND GROWTH: one line far above every buffer (300 KB quick, 1 MB thorough) arriving in many reads with small ones
    # before and after; the 1000th line of a session; a consumer that comes back after ten minutes
    for size in ((300_000,) if not thorough else (300_000, 1_000_000)):
        huge = {"jsonrpc": "2.0", "id": "huge", "result": {"text": ("0123456789abcdef\u00e9\u2028" * (size // 18))}}
        items = [resp(1), notif(2), {"text": _msg(huge), "term": "\r\n"}, resp(3), notif(4)]
        nb = len(G.stream_bytes({"items": items}))
        for step in ((65536,) if not thorough else (4096, 65536, 65537)):
            out.append({"items": items, "cuts": list(range(step, nb, step)), "opts": {"scenario": "huge-line"}})
    longrun = [resp(i) if i % 5 else notif(i) for i in range(1200)]
    out.append({"items": longrun, "cuts": list(range(1000, len(G.stream_bytes({"items": longrun})), 1000)), "opts": {"scenario": "thousandth-message"}})
    out.append({"items": [resp(i) for i in range(150)], "cuts": [], "opts": {"scenario": "read-stream-late-600s", "consumer": "late", "late_s": 600}})
    # the process sits idle for hours (virtual clock) between two reads, in the middle of a line and of a character
    for cuts in ([n0 // 2], [6, n0 - 3]):
        out.append({"items": base + [notif(5)], "cuts": cuts, "idle_hours": 13, "opts": {"scenario": "idle-for-hours"}})
    # aliasing: a consumer that scribbles on every object it received; the same lines again afterwards must arrive intact
    out.append({"items": twins + twins + [notif(1), notif(1)], "cuts": [40], "opts": {"scenario": "consumer-mutates", "consumer": "mutate"}})
    out.append({"items": base + base, "cuts": [], "opts": {"scenario": "consumer-mutates", "consumer": "mutate", "sessions": 2}})
    # credential-looking environment of the child, a working directory that does not exist
    out.append({"items": base, "cuts": [9], "server": {"env": {"API_KEY": "sk-123", "SECRET_TOKEN": "t", "DB_PASSWORD": "p w", "PATH": ""}},
                "opts": {"scenario": "connection-options"}})
    # well-formed lines at the edge of the decoders' domains, each with good lines around it
    edge = []
    for k, t in enumerate(G.edge_lines()):
        edge += [resp(k), {"text": t, "term": nl if k % 2 else "\r\n"}, notif(k)]
        out.append({"items": [resp(1), {"text": t, "term": nl}, notif(2)], "cuts": [20], "opts": {"scenario": "decoder-edge"}})
    out.append({"items": edge, "cuts": list(range(512, len(G.stream_bytes({"items": edge})), 512)), "opts": {"scenario": "decoder-edge"}})
    # a SECOND session on the same client object after a first one whose child died in the middle of a line / of a character
    for api in ("client", "transport", "function"):
        for tail in ('{"jsonrpc":"2.0","me', '{"jsonrpc":"2.0","method":"\u00e9'.encode("utf-8")[:-1].hex() + "#hex", "\u20ac".encode("utf-8")[:2].hex() + "#hex", "xx"):
            out.append({"items": base + [notif(1)], "cuts": [n0 // 2], "conns": [{"tail": tail}, {}],
                        "opts": {"scenario": "second-session-after-broken-first", "api": api}})
    # a second and a third session after a first whose CONSUMER left early: k of the lines read, the rest (and the
    # notifications) never looked at; every connection's child writes its own sequence
    mix = [resp(1), notif(1), resp(2), notif(2), notif(3), resp("r-3"), notif(4), resp(5)]
    for api in ("client", "transport", "function"):
        for k in (0, 1, 3, len(mix) - 1):
            for unread in (True, False):
                out.append({"items": mix, "cuts": [33], "conns": [{"consume": k, "notifs_unread": unread}, {"rot": 3}, {"rot": 5}],
                            "opts": {"scenario": "sessions-after-unread-first", "api": api}})
        out.append({"items": mix, "cuts": [], "conns": [{"consume": 2}, {"rot": 2, "consume": 0, "notifs_unread": True}, {"rot": 4}, {"rot": 1}],
                    "opts": {"scenario": "sessions-after-unread-first", "api": api}})
        out.append({"items": mix, "cuts": [], "conns": [{"consume": 1, "notifs_unread": True, "tail": '{"jsonrpc":"2.0","id":9'}, {"rot": 6}],
                    "opts": {"scenario": "sessions-after-unread-first", "api": api}})
        # ... and whose connection ended with the child already gone / with an exception in the body
        for end in ("child-exited", "exception"):
            out.append({"items": mix, "cuts": [], "conns": [{"consume": 2, "notifs_unread": True, "end": end}, {"rot": 3, "end": end}, {"rot": 6}],
                        "opts": {"scenario": "sessions-after-unread-first", "api": api}})
    # nothing but blank / junk lines; the same line many times
    out.append({"items": [{"text": t, "term": rng.choice([nl, "\r\n"])} for t in G.JUNK], "cuts": [], "opts": {"scenario": "junk-only"}})
    out.append({"items": [resp(1, 1)] * 5 + [notif(1)] * 5, "cuts": [10], "opts": {"scenario": "duplicates"}})
    return out


def all_cuts(n, k):
    return [list(c) for c in itertools.combinations(range(1, n), k)]


class Chunking(Suite):
    name = "chunking"
    _ctx = None

    def cases(self, ctx, budget):
        self._ctx = ctx
        out = []
        thorough = budget != "quick"
        streams = directed_streams()
        # exhaustive: 0, 1 and 2 cuts of the directed bounded streams
        for k, items in enumerate(streams):
            n = len(G.stream_bytes({"items": items}))
            out.append({"items": items, "cuts": []})
            out.append({"items": items, "cuts": list(range(1, n))})
            for cuts in all_cuts(n, 1):
                out.append({"items": items, "cuts": cuts})
            if thorough or k == 0:
                for cuts in all_cuts(n, 2):
                    out.append({"items": items, "cuts": cuts})
            else:  # quick: a seeded sample of the pairs of the other directed streams
                r2 = ctx.sub_rng("pairs", k)
                pairs = all_cuts(n, 2)
                for cuts in r2.sample(pairs, 1200):
                    out.append({"items": items, "cuts": cuts})
        ctx.exhaustive_parts.append("chunking: every 1-cut of the directed streams, every 2-cut of the first (quick) / of all (thorough) "
                                    + str([len(G.stream_bytes({"items": s})) for s in streams]) + " bytes")
        # a trailing unterminated fragment stays in the buffer
        out.append({"items": streams[0], "cuts": [5, 40], "tail": '{"jsonrpc":"2.0","me'})
        out.append({"items": [], "cuts": [], "tail": "\u00e9"})
        # more than the notification stream's capacity, nobody reading it
        many = [{"text": _msg({"jsonrpc": "2.0", "method": "n", "params": {"i": i}}), "term": "\n"} for i in range(NOTIF_CAP + 7)]
        out.append({"items": many, "cuts": [1000, 2001]})
        rng = ctx.sub_rng("chunking", budget)
        out += scenario_cases(ctx.sub_rng("scenarios", budget), budget)
        # seeded streams
        nstreams = 24 if budget == "quick" else 300
        for _ in range(nstreams):
            items = G.rand_items(rng)
            n = len(G.stream_bytes({"items": items}))
            if n < 2:
                continue
            out.append({"items": items, "cuts": []})
            out.append({"items": items, "cuts": list(range(1, n))})
            if n <= 400:
                for cuts in all_cuts(n, 1):
                    out.append({"items": items, "cuts": cuts})
            for _ in range(30 if budget == "quick" else 60):
                k = rng.randrange(2, 9)
                if n - 1 >= k:
                    out.append({"items": items, "cuts": sorted(rng.sample(range(1, n), k))})
        if thorough:
            # every triple of cuts of short streams
            short = [
                [{"text": _msg({"jsonrpc": "2.0", "method": "\u00e9\u20ac\U0001f600"}), "term": "\r\n"}, {"text": "x", "term": "\n"}],
                [{"text": "\u2028", "term": "\r\n"}, {"text": _msg({"jsonrpc": "2.0", "id": 1, "result": {"\u0085": "\n"}}), "term": "\n"}],
            ]
            for items in short:
                n = len(G.stream_bytes({"items": items}))
                for cuts in all_cuts(n, 3):
                    out.append({"items": items, "cuts": cuts})
            ctx.exhaustive_parts.append("chunking: every 3-cut of two short streams")
            # long streams (> 64 KiB) with seeded cuts, including 64 KiB-aligned reads
            for _ in range(12):
                items = []
                while len(G.stream_bytes({"items": items})) < 70000:
                    items += G.rand_items(rng, 4, 8, junk_p=0.2)
                    big = G.rand_message(rng)
                    big["big"] = "".join(rng.choice(rng.choice(G.CLASSES[:4])) for _ in range(3000))
                    items.append({"text": _msg(big), "term": rng.choice(["\n", "\r\n"])})
                n = len(G.stream_bytes({"items": items}))
                out.append({"items": items, "cuts": list(range(65536, n, 65536))})
                out.append({"items": items, "cuts": list(range(4096, n, 4096))})
                for _ in range(6):
                    out.append({"items": items, "cuts": sorted(rng.sample(range(1, n), rng.randrange(1, 40)))})
        # a host with DEBUG logging configured: a quarter of the cases and every scenario kind at least once
        seen = set()
        for i, c in enumerate(out):
            sc = c.get("opts", {}).get("scenario")
            if i % 4 == 2 or (sc and sc not in seen):
                c["debug"] = "format" if i % 8 == 2 or (sc and sc not in seen) else True  # formatting handler for half
            if sc:
                seen.add(sc)
        # several connections alive at once (groups of three consecutive cases run concurrently, equal ids on each)
        def plain(c):
            return c.get("opts", {}).get("api", "client") == "client" and not c.get("opts", {}).get("sessions")

        for g in range(len(out) // 60):
            grp = [out[g * 60 + 30 + k] for k in range(3) if g * 60 + 30 + k < len(out)]
            if len(grp) == 3 and all(plain(c) for c in grp):
                for c in grp:
                    c["with"] = [{k: v for k, v in o.items() if k != "with"} for o in grp if o is not c]
        # which line is a well-formed message is asked of the library's parser in a process that has parsed nothing else
        from .. import stdio_h
        dep = stdio_h.prejudge([it["text"] for c in out for it in c["items"]] + [c["tail"] for c in out if c.get("tail")])
        if dep:
            ctx.notes.append(f"the library's parser gives history-dependent answers on {len(dep)} line(s), e.g. {dep[0][:120]!r}; "
                             "each was judged alone in a fresh process")
        return out

    # ------------------------------------------------------------------ implementation
    def impl_batch(self, cases):
        from .. import stdio_h

        def harness_case(c):
            h = dict({"events": events_for(c), "opts": c.get("opts", {})}, **{k: c[k] for k in ("debug", "server") if k in c})
            if c.get("conns"):  # consecutive connections on ONE object, each with its own child, lines and consumer
                h["session_events"] = [conn_events(c, k) for k in range(len(c["conns"]))]
                h["session_opts"] = [{k2: v for k2, v in (("consume_max", sp.get("consume")), ("notifs_unread", sp.get("notifs_unread")), ("end", sp.get("end"))) if v is not None}
                                     for sp in c["conns"]]
            if c.get("with"):
                h["with"] = [harness_case(w) for w in c["with"]]
            return h

        evs = [harness_case(c) for c in cases]
        # cases marked "fresh_process" run each as the FIRST use of the library in a process of their own (process-wide state of the
        # parser, of the serialiser, of anything else starts from nothing); the rest share this process, in order
        fresh = [i for i, c in enumerate(cases) if c.get("opts", {}).get("fresh_process")]
        shared = [i for i in range(len(cases)) if i not in set(fresh)]
        obs = [None] * len(cases)
        for i, o in zip(shared, stdio_h.run_reader_cases([evs[i] for i in shared]) if shared else []):
            obs[i] = o
        for i in fresh:
            obs[i] = stdio_h.run_reader_cases_fresh([evs[i]])[0]
        out = []
        for o in obs:
            o = {k: o[k] for k in o if k not in ("writes", "info")} | ({"writes": len(o["writes"])} if "writes" in o else {})
            if "earlier" in o:
                o["earlier"] = [{k: e[k] for k in ("delivered", "notified")} for e in o["earlier"]]
            out.append(o)
        return out

    # ------------------------------------------------------------------ model
    def model_line(self, case):
        table, _ = G.line_table([it["text"] for it in case["items"]] + ([case["tail"]] if case.get("tail") else []))
        opts = case.get("opts", {})
        regs = [{"reg": str(k)} for k in list(opts.get("pending", [])) + list(opts.get("pending_closed", []))]
        evs = regs + [{"c": bytes.fromhex(e["c"]).hex() if "c" in e else e["s"].encode("utf-8").hex()}
                      for e in events_for(case) if "sleep" not in e]
        if case.get("conns"):  # consecutive connections on one object (Model.StdioIn.runSessions)
            def mev(k):
                return regs + [{"c": bytes.fromhex(e["c"]).hex() if "c" in e else e["s"].encode("utf-8").hex()}
                               for e in conn_events(case, k) if "sleep" not in e]
            return {"m": "stdio_reader", "sessions": [mev(k) for k in range(len(case["conns"]))], "table": table, "cap": NOTIF_CAP}
        return {"m": "stdio_reader", "events": evs, "table": table, "cap": NOTIF_CAP}

    def model_obs(self, out, case):
        _, msgs = G.line_table([it["text"] for it in case["items"]] + ([case["tail"]] if case.get("tail") else []))
        if "driver_error" in out:
            return out

        def one(out):
            reqs = {}
            for k, i in out.get("requests", []):
                reqs.setdefault(k, []).append(msgs[i][0])
            return {"requests": reqs, "delivered": [msgs[i][0] for i in out["delivered"]], "notified": [msgs[i][0] for i in out["offered"]],
                    "rejections": out["rejections"]}

        if "sessions" in out:
            ss = [one(x) for x in out["sessions"]]
            return dict(ss[-1], earlier=ss[:-1])
        return one(out)

    def compare(self, case, o, m):
        from .. import core

        if "harness_error" in o or "driver_error" in m:
            return "error"
        obs = o.get("earlier", []) + [o]
        for k, (ob, mm) in enumerate(zip(obs, (m["earlier"] + [m]) if "earlier" in m else [m] * len(obs))):
            lim = case["conns"][k].get("consume") if case.get("conns") else None  # a consumer that read only the first `lim` lines
            if ob["delivered"] is not None and core.canon(ob["delivered"]) != core.canon(mm["delivered"] if lim is None else mm["delivered"][:lim]):
                return "delivered"
            if not G.notif_ok(ob["notified"], mm["notified"]):  # None: no notification stream handed out / receiver closed
                return "notified"
        # supplementary (the property text does not name the per-request streams of the legacy API): informational
        for k, got in (o.get("legacy") or {}).items():
            if core.canon(got) != core.canon(m.get("requests", {}).get(k, [])) and self._ctx is not None and len(self._ctx.notes) < 8:
                self._ctx.notes.append(f"INFORMATIONAL routing divergence: per-request stream {k!r} received {len(got)} message(s), "
                                       f"the routing model says {len(m.get('requests', {}).get(k, []))} (case {core.sha(case)})")
        return None

    # ------------------------------------------------------------------ property oracle
    def expected(self, case):
        from .. import stdio_h

        delivered, notified = [], []
        for it in case["items"]:
            v = stdio_h.parse_line(it["text"])
            if v[0] == "single":
                delivered.append(v[1])
                if v[2]:
                    notified.append(v[1])
            elif v[0] == "batch":  # no version negotiated: members the parser accepts (C13); not generated here
                for m in v[1]:
                    if m is not None:
                        delivered.append(m[0])
                        if m[1]:
                            notified.append(m[0])
        return {"delivered": delivered, "notified": notified}

    def oracle(self, case, o):
        if "harness_error" in o:
            return ("client-raised", f"the stdio client raised {o['harness_error']} while reading", self.expected(case))
        if case.get("conns"):  # connection n delivers the well-formed lines child n wrote - whatever happened on the object before
            obs = o.get("earlier", []) + [o]
            for k, ob in enumerate(obs):
                r = self._oracle_one(conn_case(case, k), dict(ob, eof=True), case["conns"][k].get("consume"))
                if r is not None:
                    return (r[0], r[1] + f" [connection {k + 1} of {len(obs)} on the same object]", r[2])
            return None
        for e in o.get("earlier", []):  # an earlier session on the same client object
            r = self._oracle_one(case, dict(e, eof=True))
            if r is not None:
                return r
        return self._oracle_one(case, o)

    def _oracle_one(self, case, o, limit=None):
        from .. import core

        want = self.expected(case)
        if limit is not None:  # the consumer read `limit` lines and left
            want = dict(want, delivered=want["delivered"][:limit])
        got = o["delivered"]
        if got is not None and core.canon(got) != core.canon(want["delivered"]):
            inside_char, _ = G.cut_classes(case)
            prefix = len(got) < len(want["delivered"]) and core.canon(got) == core.canon(want["delivered"][:len(got)])
            if prefix and inside_char and not o.get("eof"):
                return ("reader-dies-on-split-character",
                        "a read boundary inside a multi-byte UTF-8 character ends the reader: the line containing it "
                        "and every later well-formed line are never delivered", want)
            if prefix:
                return ("reader-stops-early", "only a proper prefix of the well-formed lines is delivered", want)
            return ("delivered-sequence-differs", "the read stream is not the sequence of well-formed lines written", want)
        if not G.notif_ok(o["notified"], want["notified"], NOTIF_CAP):
            return ("notification-not-offered", "the notification stream does not carry the id-less messages delivered (in order, at least the first 100 when nobody reads it)", want)
        return None

    def kind(self, case, o):
        ic, icr = G.cut_classes(case)
        n = len(case.get("cuts", []))
        if case.get("opts", {}).get("scenario"):
            return "scenario/" + case["opts"]["scenario"]
        return f"cuts={'0' if n == 0 else '1' if n == 1 else '2' if n == 2 else '3+'}/" + \
            ("split-char" if ic else "whole-chars") + ("/split-crlf" if icr else "")

    def nontrivial(self, case, o):
        return bool(case["items"])

    def shrink_candidates(self, case):
        return G.shrink_stream(case)


def extra(ctx, tier):
    """line coverage of the anchored functions reached by this run (visibility only, no verdict)"""
    from .. import stdio_cov

    for n in stdio_cov.notes(['._route', '._stdout', '._process', '.new_request', 'transport.']):
        if n not in ctx.notes:
            ctx.notes.append(n)


def suites():
    return [Chunking()]
