"""C16 — stdio client shutdown is bounded and leaves no child process behind."""
from __future__ import annotations

from .. import shutdown_h as H
from ..runner import Suite

MANIFEST = dict(
    text="Lean 4 theorems about a model of StdioClient.__aexit__/_terminate_process against an abstract child (any reaction to SIGTERM, already exited or not, reading or not, flooding, closed pipes) with the two grace periods regenerated from the source: for every exit path {normal, exception, outer cancellation, timeout around the context}, every child and every OS the exit returns within g1+g2 = 2 s; with the termination sequence shielded from cancellation the child is reaped (OS facts as explicit hypotheses: SIGKILL ends a process within the second grace period, wait reaps); without the shield the cancelled paths leave a live child running (the defect, as a theorem); a pending request returns only the payload of a line the child wrote; an unstartable command makes entering raise. Tied to the code by a correspondence run with REAL child processes (well-behaved, exits at step k, ignores SIGTERM, never reads, floods, closes stdout/stdin, slow start) x exit paths x moments x {stdio_client, StdioTransport, StdioClient}, observing the process table (/proc), wall-clock exit duration, descriptor count and request outcomes.",
    note="Partial by nature: descriptors, the process table, signal delivery and the promptness of task cancellation are runtime facts; they are decided only by the correspondence run with real children (the model has no descriptors). The wall-clock bound used by the oracle is 2 s + 3 s scheduling slack.",
    technique="Lean 4 proof over a hand-written state-machine model (constants regenerated from source) + correspondence run with real child processes and /proc observation",
    design="5/C16",
)
GEN = ["Timing"]
THEOREMS = [
    "c16_translated",
    "c16_grace_periods",
    "c16_bounded",
    "c16_bounded_two_seconds",
    "c16_reaped",
    "c16_unshielded_cancel_leaks",
    "c16_live_child_signalled",
    "c16_no_fabricated_result",
    "c16_silent_child_times_out",
    "c16_bad_command_raises",
]
RULE = (
    "real children {well-behaved, exits at step k (k=0..4), ignores SIGTERM after signalling readiness, never reads stdin, "
    "floods stdout (valid / junk lines), closes stdout, closes stdin, slow start} x exit path {normal, exception in body, "
    "outer cancellation, timeout around the context} x moment {before first message, request in flight, after response(s)} "
    "x API {stdio_client, StdioTransport, StdioClient}; quick: 17 directed scenarios + 4 seeded ones + 3 unstartable "
    "commands; thorough: the full product; observed: /proc state of the child after the exit, wall-clock exit duration "
    "against 2 s + 3 s slack, /proc/self/fd count before/after, outcome of every awaited request; non-trivial = a scenario "
    "in which the context was entered"
)
TRUSTED = [
    "the /proc scan of py/verifpy/shutdown_h.py (a process whose command line names the scenario's temp directory is the child; a new zombie whose parent is the harness process is an unreaped child)",
    "OS: SIGKILL ends a process within the second grace period; wait() after death reaps (hypotheses of c16_reaped, sampled)",
]
ASSUMPTIONS = [
    "scheduling slack of the wall-clock bound: 3 s (bound = 1 s + 1 s + 3 s)",
    "process state and descriptor count are read when the exit returns and may settle for at most 1.5 s while the event loop keeps running (the loop collects pipe transports a few iterations after the child's death); descriptors that are only released by the cyclic garbage collector count as leaked",
    "'outer cancellation' = the enclosing cancel scope is cancelled by another task; 'timeout around the context' = anyio.move_on_after around the async with",
]

BOUND_MS = H.GRACE_MS + H.SLACK_MS


def _case(b, p, m, **kw):
    c = {"behaviour": b, "path": p, "moment": m, "api": "stdio_client", "nreq": 1}
    c.update(kw)
    return c


def product(apis, nreq=2, junk=True):
    out = []
    for api in apis:
        for b in H.BEHAVIOURS:
            variants = [{"k": k} for k in range(0, 2 * nreq + 1)] if b == "exit_at" else [{}]
            if b == "flood" and junk:
                variants = [{}, {"junk": True}]
            for v in variants:
                for p in H.PATHS:
                    for m in H.MOMENTS:
                        out.append(_case(b, p, m, api=api, nreq=nreq, **v))
    return out


DIRECTED = [
    _case("well", "normal", "after"),
    _case("well", "exception", "inflight"),
    _case("well", "cancel", "before"),
    _case("well", "timeout", "inflight"),
    _case("ignore_term", "normal", "after"),
    _case("ignore_term", "cancel", "after"),
    _case("exit_at", "normal", "after", k=1),
    _case("exit_at", "exception", "before", k=0),
    _case("exit_at", "timeout", "after", k=2, nreq=2),
    _case("never_reads", "timeout", "inflight"),
    _case("flood", "normal", "before"),
    _case("flood", "cancel", "inflight"),
    _case("close_stdout", "normal", "after"),
    _case("close_stdin", "exception", "after"),
    _case("slow_start", "timeout", "before"),
    _case("slow_start", "normal", "after"),
    _case("well", "cancel", "after", api="StdioTransport"),
]
BAD = [{"bad": b, "api": a} for b in ("missing", "not-executable", "directory", "bare-name") for a in H.APIS]


class Scenarios(Suite):
    name = "scenarios"

    def cases(self, ctx, budget):
        rng = ctx.sub_rng("c16", budget)
        if budget == "quick":
            full = product(H.APIS)
            out = [dict(c) for c in DIRECTED] + rng.sample(full, 4)
            out += [BAD[0], BAD[4], BAD[8]]
        elif budget == "thorough":
            out = product(H.APIS) + BAD
        else:  # search
            out = product(["stdio_client"], nreq=1, junk=False) + BAD[:4]
        for i, c in enumerate(out):
            if "bad" not in c:
                c["nonce"] = f"{budget[0]}{i}"
        return out

    def impl_batch(self, cases):
        return H.run_cases(cases)

    # -- model -------------------------------------------------------------------------
    def model_line(self, case):
        if "bad" in case:
            return {"m": "shutdown", "bad": True}
        d = {"m": "shutdown", "behaviour": case["behaviour"], "path": case["path"], "moment": case["moment"],
             "nreq": case.get("nreq", 1)}
        if "k" in case:
            d["k"] = case["k"]
        return d

    def model_obs(self, out, case):
        if "bad" in case:
            return {"raised_on_enter": out["raised_on_enter"]}
        return {"raised_on_enter": out["raised_on_enter"], "child": out["child"],
                "bounded": out["duration"] <= out["bound"], "requests": out["requests"]}

    def compare(self, case, o, m):
        if o.get("harness_error"):
            return "harness error: " + o["harness_error"]
        if "bad" in case:
            return None if (not o["entered"]) == m["raised_on_enter"] else "entering differs"
        mine = {
            "raised_on_enter": not o["entered"],
            "child": "reaped" if o["state"] == "gone" else o["state"],
            "bounded": (not o["hang"]) and o["duration_ms"] is not None and o["duration_ms"] <= BOUND_MS,
            "requests": ["returned" if r["outcome"] == "returned" else "timeout"
                         for r in o["requests"] if not r.get("held")],
        }
        return None if mine == m else "differs"

    # -- property oracle (implementation observation only) ---------------------------------
    def oracle(self, case, o):
        if o.get("harness_error"):
            return None
        if "bad" in case:
            if o["entered"]:
                return (f"bad-command-entered/{case['bad']}", f"entering the context with an unstartable command "
                        f"({case['bad']}, {case.get('api')}) did not raise", {"raised_on_enter": True})
            return None
        what = f"{case['behaviour']}{'/k=%d' % case['k'] if 'k' in case else ''} x {case['path']} x {case['moment']} ({case.get('api')})"
        if not o["entered"]:
            return None  # cannot happen with a startable command; nothing the property says about it
        if o["hang"] or o["duration_ms"] is None or o["duration_ms"] > BOUND_MS:
            return (f"unbounded/{case['path']}", f"{what}: leaving the context took "
                    f"{'more than %d' % int(H.SCENARIO_TIMEOUT_S * 1000) if o['hang'] else o['duration_ms']} ms "
                    f"(bound {H.GRACE_MS} ms + {H.SLACK_MS} ms slack)", {"duration_ms": f"<= {BOUND_MS}"})
        if o["state"] == "running":
            return (f"child-left-running/{case['path']}", f"{what}: the child process is still running after the "
                    f"context was left ({o['fd_delta']} descriptors still open)", {"state": "gone", "fd_delta": 0})
        if o["state"] == "zombie":
            return (f"child-unreaped/{case['path']}", f"{what}: the child is a zombie after the context was left",
                    {"state": "gone"})
        if o["fd_delta"] is not None and o["fd_delta"] > 0:
            return (f"fd-leak/{case['behaviour']}", f"{what}: {o['fd_delta']} additional descriptor(s) open after the "
                    f"context was left (child gone)", {"fd_delta": 0})
        for j, r in enumerate(o["requests"], 1):
            if r["outcome"] != "returned":
                continue
            if r.get("held") or not H.answers(case, j) or r.get("payload") != {"echo": r["x"]}:
                return ("fabricated-result", f"{what}: request {j} returned {r.get('payload')!r}, which the child never wrote",
                        {"outcome": "timeout or error"})
        return None

    def kind(self, case, o):
        if "bad" in case:
            return f"bad-command/{case['bad']}"
        b = case["behaviour"] + ("%d" % case["k"] if "k" in case else "")
        return f"{b}/{case['path']}/{case['moment']}/{case.get('api')}"

    def nontrivial(self, case, o):
        return "bad" not in case and o["entered"]

    def shrink_candidates(self, case):
        if "bad" in case:
            if case.get("api") != "stdio_client":
                yield dict(case, api="stdio_client")
            return
        if case.get("api") != "stdio_client":
            yield dict(case, api="stdio_client")
        if case["behaviour"] != "well":
            c = {k: v for k, v in case.items() if k not in ("k", "junk")}
            yield dict(c, behaviour="well")
        if case.get("junk"):
            yield {k: v for k, v in case.items() if k != "junk"}
        if case["moment"] != "before":
            yield dict(case, moment="before")
        if case.get("nreq", 1) > 1 and case.get("k", 0) <= 2:
            yield dict(case, nreq=1)
        if case["path"] == "exception":
            yield dict(case, path="normal")


def suites():
    return [Scenarios()]
