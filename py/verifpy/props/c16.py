"""C16 — stdio client shutdown is bounded and leaves no child process behind."""
from __future__ import annotations

from .. import shutdown_h as H
from ..runner import Suite

MANIFEST = dict(
    text="Lean 4 theorems about a model of StdioClient.__aexit__/_terminate_process against an abstract child (any reaction to SIGTERM, already exited or not, reading or not, flooding, closed pipes) with the two grace periods regenerated from the source: for every exit path {normal, exception, outer cancellation, timeout around the context}, every child and every OS the exit returns within g1+g2 = 2 s; with the termination sequence shielded from cancellation the child is reaped (OS facts as explicit hypotheses: SIGKILL ends a process within the second grace period, wait reaps); without the shield the cancelled paths leave a live child running (the defect, as a theorem); a pending request returns only the payload of a line the child wrote; an unstartable command makes entering raise; the whole exit (leave = pre-cancel step + exit) is bounded for every backlog iff the wait for the stdin writer is bounded (an unbounded wait never returns against a non-reading child, as a theorem); cancellation during entry leaves no child unless __aenter__ has a cancellable await between spawn and ownership. Tied to the code by a correspondence run with REAL child processes (well-behaved, exits at step k, ignores SIGTERM, never reads, floods, closes stdout/stdin, slow start) x exit paths x moments (incl. a large backlog of queued output at exit, and cancellation while the context is being entered) x {stdio_client, StdioTransport, StdioClient}, observing the process table (/proc), wall-clock exit duration, descriptor count and request outcomes.",
    note="Partial by nature: descriptors, the process table, signal delivery and the promptness of task cancellation are runtime facts; they are decided only by the correspondence run with real children (the model has no descriptors). The wall-clock bound used by the oracle is 2 s + 3 s scheduling slack.",
    technique="Lean 4 proof over a hand-written state-machine model (constants regenerated from source) + correspondence run with real child processes and /proc observation",
    design="5/C16",
)
GEN = ["Timing/grace"]
# not stated by the property text (DESIGN 9.9): the bound of the stdout drain, which only matters with a grandchild
SUPP_GEN = ["Shutdown"]
SUPP_THEOREMS = ["c16_drain_translated", "c16_leave_sound_held"]
THEOREMS = [
    "c16_translated",
    "c16_grace_periods",
    "c16_bounded",
    "c16_bounded_two_seconds",
    "c16_reaped",
    "c16_unshielded_cancel_leaks",
    "c16_live_child_signalled",
    "c16_no_fabricated_result",
    "c16_silent_child_times_out",
    "c16_bad_command_raises",
    "c16_leave_bounded",
    "c16_leave_sound",
    "c16_unbounded_flush_never_returns",
    "c16_unbounded_flush_waits_for_child",
    "c16_entry_cancel_no_orphan",
    "c16_entry_gap_orphans",
    "c16_returned_value_was_written_by_child", "c16_dead_child_never_answers",
    "c16_eof_is_not_exit", "c16_reuse_sound", "c16_exit_once_leaks_on_reuse", "c16_failed_handshake_cleans_up",
    "c16_concurrent_no_fabricated_result", "c16_concurrent_clients_independent", "c16_client_settings_irrelevant",
]
RULE = (
    "real children {well-behaved, exits at step k (k=0..4), ignores SIGTERM after signalling readiness, never reads stdin, "
    "stops reading after its first answer, floods stdout (valid / junk lines), closes stdout (at once / after its first answer) and then exits on stdin EOF / "
    "keeps reading / never looks at stdin again / ignores SIGTERM too, closes stdin, slow start} x "
    "exit path {normal, exception in body, outer cancellation, timeout around the context} x moment {before first message, "
    "request in flight, after response(s)} x API {stdio_client, StdioTransport, StdioClient}; the same with a BACKLOG of 40 "
    "queued outgoing 16 kB messages (10x pipe + write buffer) at the moment of the exit for the children that do not read; "
    "HARDENING: what the body raises (empty / no args / 'cancel scope' / 'json object must be str' / format-hostile / 100 kB "
    "text), chatty children (blank / junk / unsolicited / duplicated lines), falsy results and a falsy-looking request id, "
    "children reacting to SIGTERM 0.5/0.9/1.1/1.5 s late, backlogs at 99/100 (queue) 101/150 (body blocked in send) and "
    "3/4/5/8 x 16 KiB (pipe), env given / stderr suppressed / stderr noise / hostile argv, 2-3 nested contexts, the "
    "per-request stream API with a request still registered, and the stdio_client_with_initialize wrapper incl. a "
    "handshake that fails on entry; REUSE: 2 (3) sequential sessions on ONE StdioClient / StdioTransport object (and consecutive stdio_client contexts), "
    "observed after each session; cancellation / timeout WHILE THE CONTEXT IS BEING ENTERED: the deadline of a scope around the whole async-with scanned "
    "0..160 ms in 8 ms steps (thorough 0..200 ms in 2 ms steps) for a slow-starting and a normal child, both cancelled paths; "
    "quick: 50 directed scenarios + 6 seeded ones + 42 entry deadlines + 3 unstartable commands; thorough: the full "
    "products; observed: /proc state of the child after the exit, wall-clock exit duration against 2 s + 3 s slack (an exit "
    "still running 5.5 s after it began is released by killing the child and reported), /proc/self/fd count before/after, "
    "outcome of every awaited request; non-trivial = a scenario in which the context was entered or its entry was cut"
)
TRUSTED = [
    "the /proc scan of py/verifpy/shutdown_h.py (a process whose command line names the scenario's temp directory is the child; a new zombie whose parent is the harness process is an unreaped child)",
    "OS: SIGKILL ends a process within the second grace period; wait() after death reaps (hypotheses of c16_reaped, sampled)",
]
ASSUMPTIONS = [
    "scheduling slack of the wall-clock bound: 3 s (bound = 1 s + 1 s + 3 s)",
    "process state and descriptor count are read when the exit returns and may settle for at most 1.5 s while the event loop keeps running (the loop collects pipe transports a few iterations after the child's death); descriptors that are only released by the cyclic garbage collector count as leaked",
    "'outer cancellation' = the enclosing cancel scope is cancelled by another task; 'timeout around the context' = anyio.move_on_after around the async with",
    "'at any point of a conversation' includes the entry: a cancellation that arrives while the context is being entered must leave no child and no descriptor either (whether the body was reached is recorded, not demanded)",
    "which phase of the entry a deadline hits depends on wall-clock (spawn latency); the scan is dense (8 ms / 2 ms steps) rather than exact",
]

BOUND_MS = H.GRACE_MS + H.SLACK_MS
BACKLOG = 40            # x 16 kB: ten times what the 64 KiB pipe and the transport's write buffer take


def _case(b, p, m, **kw):
    c = {"behaviour": b, "path": p, "moment": m, "api": "stdio_client", "nreq": 1}
    c.update(kw)
    return c


# closes its stdout (the client sees EOF) and ... exits on stdin EOF / keeps reading, ignoring EOF / never looks at
# stdin again (dies on SIGTERM) / ignores SIGTERM too; at once, or after its first answer
CLOSE_STDOUT = [{}, {"linger": "reads"}, {"linger": "sleep"}, {"linger": "stubborn"},
                {"linger": "reads", "close_after": 1}, {"linger": "sleep", "close_after": 1},
                {"linger": "stubborn", "close_after": 1}]


def reuse_product(apis=("StdioClient", "StdioTransport", "stdio_client"), sessions=(2,)):
    """k sequential sessions on ONE client object (StdioClient, StdioTransport; for the stdio_client function:
    k fresh contexts in a row): after EACH session no child and no additional descriptor"""
    out = []
    for api in apis:
        for k in sessions:
            for b, v in (("well", {}), ("ignore_term", {}), ("never_reads", {}), ("exit_at", {"k": 1}), ("flood", {}),
                         ("close_stdout", {"linger": "sleep"})):
                for p in H.PATHS:
                    for m in H.MOMENTS:
                        out.append(_case(b, p, m, api=api, sessions=k, **v))
    return out


def hardening_product():
    """the generic miss classes (falsy / magic / format-hostile values, limits, rarely taken branches, unusual but
    valid traffic, other ways into and out of the context) applied to the shutdown scenarios"""
    out = []
    for t in list(H.EXC_TEXTS) + ["noargs"]:                     # what the body raises: text the wrappers inspect / format
        for m in ("before", "after"):
            out.append(_case("well", "exception", m, exc_text=t))
        out.append(_case("never_reads", "exception", "inflight", exc_text=t, api="StdioTransport"))
    for b in ("well", "ignore_term"):                            # lines that carry nothing, unsolicited and duplicated answers
        for p in H.PATHS:
            out.append(_case(b, p, "after", nreq=2, chatty=True))
    for i in range(len(H.FALSY_RESULTS)):                        # falsy results, empty payloads, a falsy-looking id
        out.append(_case("well", "normal", "after", falsy_result=i, req_id="0" if i % 2 else None))
    out.append(_case("well", "timeout", "after", empty_x=True, req_id="0"))
    for d in (0.5, 0.9, 1.1, 1.5):                               # around the first grace period
        for p in ("normal", "cancel"):
            out.append(_case("well", p, "before", term_delay=d))
    for n in (99, 100):                                          # the 100-slot outgoing queue, the 64 KiB pipe
        out.append(_case("never_reads", "normal", "before", backlog=n))
        out.append(_case("well", "exception", "before", backlog=n, backlog_bytes=1))
    for n in (101, 150):
        for p in ("cancel", "timeout"):
            out.append(_case("never_reads", p, "before", backlog=n))
            out.append(_case("stops_reading", p, "after", backlog=n, backlog_bytes=1))
    for n in (3, 4, 5, 8):
        out.append(_case("never_reads", "normal", "before", backlog=n, backlog_bytes=16384))
    for e in ("empty", "quiet", "quiet2"):                       # env given / stderr suppressed / stderr noise / hostile argv
        for p in ("normal", "cancel"):
            out.append(_case("well", p, "after", env=e, stderr=True, hostile_args=(e == "quiet")))
    for k in (2, 3):                                             # contexts inside one another
        for b in ("well", "never_reads", "ignore_term"):
            for p in H.PATHS:
                out.append(_case(b, p, "before", nested=k))
    for p in H.PATHS:                                            # the per-request stream API, a request still registered
        out.append(_case("well", p, "inflight", api="StdioClient", legacy=True))
        out.append(_case("exit_at", p, "inflight", api="StdioClient", legacy=True, k=1))
    for b, v in (("well", {}), ("ignore_term", {}), ("slow_start", {}), ("never_reads", {}), ("flood", {}), ("close_stdin", {}),
                 ("close_stdout", {"linger": "sleep"})):         # the wrapper that shakes hands on entry
        for p in H.PATHS:
            for m in ("before", "after"):
                out.append(_case(b, p, m, api="with_initialize", **v))
    return out


def host_runner_enabled():
    """The scenarios that leave the contexts the way the library's own multi-server host does
    (`server_manager.run_command`).  They failed on the pinned tree (findings/C16-run-command-*.json)
    and hold since the repair 2fe68b4 in /repo; they are always generated."""
    return True


def pending_stream_product():
    """requests pending through the per-request stream API (`new_request_stream` + `send_json`) when the context is
    left: 1 or 3 registered streams, their receive ends unread / being read by a task / closed, every exit path,
    children that never answer them or die"""
    out = []
    for n in (1, 3):
        for ends in ("unread", "read", "closed"):
            for p in H.PATHS:
                out.append(_case("well", p, "inflight", api="StdioClient", legacy=True, legacy_n=n, legacy_ends=ends))
            out.append(_case("exit_at", "cancel", "inflight", api="StdioClient", legacy=True, legacy_n=n, legacy_ends=ends, k=1))
            out.append(_case("ignore_term", "timeout", "inflight", api="StdioClient", legacy=True, legacy_n=n, legacy_ends=ends))
    return out


def reader_killer_product():
    """output that ends or strains the stdout reader FIRST (a line that is not UTF-8, binary garbage, one 1.5 MB line, a
    stream cut inside a multi-byte character), then the child behaves as its kind says: floods, stops reading, ignores
    SIGTERM, or is well-behaved"""
    out = []
    for pre in ("bad_utf8", "binary", "long_line", "truncated_utf8"):
        for b, v in (("flood", {}), ("flood", {"junk": True}), ("never_reads", {"backlog": BACKLOG}), ("ignore_term", {}), ("well", {}),
                     ("close_stdout", {"linger": "sleep"})):
            for p in H.PATHS:
                out.append(_case(b, p, "before", preamble=pre, **v))
        out.append(_case("flood", "normal", "before", preamble=pre, api="StdioTransport"))
        out.append(_case("flood", "cancel", "before", preamble=pre, api="StdioClient", sessions=2))
    return out


def version_product():
    """the protocol version the handshake settled on, on the CLIENT object (with / without JSON-RPC batching), crossed
    with children that send batch arrays and do not read what the client writes back"""
    out = []
    for v in ("2025-06-18", "2025-03-26", "2024-11-05"):
        for api in ("StdioClient", "StdioTransport"):
            for p in H.PATHS:
                out.append(_case("flood", p, "before", api=api, version=v, batch=True))
                out.append(_case("flood", p, "inflight", api=api, version=v, batch=True, backlog=BACKLOG))
            out.append(_case("well", "normal", "after", api=api, version=v, chatty=True))
            out.append(_case("stops_reading", "cancel", "after", api=api, version=v, backlog=BACKLOG))
    for p in H.PATHS:
        out.append(_case("flood", p, "before", api="with_initialize", batch=True))
    return out


def host_runner_product():
    out = []
    groups = [[{"behaviour": "well"}], [{"behaviour": "ignore_term"}], [{"behaviour": "well", "on_term": 0}],
              # a server that goes mute / dies with the handshake in flight, alone and after a good one; no "timeout" key,
              # and with one
              [{"behaviour": "well", "mute_on_initialize": True}],
              [{"behaviour": "well"}, {"behaviour": "well", "die_on_initialize": True}],
              [{"behaviour": "well"}, {"behaviour": "never_reads"}, {"behaviour": "well"}],
              [{"behaviour": "well", "cfg_timeout": 30}, {"behaviour": "well", "mute_on_initialize": True, "cfg_timeout": 1}],
              # a server that ANSWERS the handshake with something the client rejects (error reply, unsupported version,
              # invalid result) and then does not go away by itself: alone, last, first, between good servers
              [{"behaviour": "ignore_term", "init_reply": "error"}],
              [{"behaviour": "well"}, {"behaviour": "ignore_term", "init_reply": "bad_version"}],
              [{"behaviour": "ignore_term", "init_reply": "invalid"}, {"behaviour": "well"}],
              [{"behaviour": "well"}, {"behaviour": "ignore_term", "init_reply": "error"}, {"behaviour": "well"}],
              [{"behaviour": "well", "init_reply": "bad_version"}, {"behaviour": "never_reads", "init_reply": "error"}],
              [{"behaviour": "close_stdout", "linger": "stubborn", "init_reply": "invalid"}],
              [{"behaviour": "well", "term_delay": 0.5}, {"behaviour": "well"}],
              [{"behaviour": "well"}, {"behaviour": "ignore_term"}, {"behaviour": "slow_start"}]]
    for g in groups:
        for p in ("normal", "exception"):
            out.append({"behaviour": "well", "path": p, "moment": "after", "api": "run_command", "nreq": 1, "servers": g})
    return out


def body_exception_product():
    """every class of exception the BODY may leave the context with — unprintable ones, groups, the builtins the
    wrappers filter on — at every moment, through every API, with and without a host logger that formats at DEBUG"""
    out = []
    for i, k in enumerate(H.EXC_CLASSES):
        for m in H.MOMENTS:
            for api in (H.APIS + ["with_initialize"]):
                c = _case("well", "exception", m, exc_class=k, api=api)
                if (i + len(out)) % 2:
                    c["logging"] = "debug"
                out.append(c)
        out.append(_case("ignore_term", "exception", "after", exc_class=k, logging="debug"))
        out.append(_case("flood", "exception", "before", exc_class=k))
    return out


def status_product():
    """every class of exit status {0, non-zero, killed by the signal} x {reacting to SIGTERM, ending by itself before
    the exit} x {flooding (reader paused), quiet} x every exit path"""
    out = []
    for b in ("flood", "well"):
        for v in ({}, {"on_term": 0}, {"on_term": 3}, {"self_exit": 0}, {"self_exit": 3}):
            for p in H.PATHS:
                out.append(_case(b, p, "before", **v))
                if b == "well":
                    out.append(_case(b, p, "after", **v))
    for k in (0, 1, 2):                                       # early exits with status 0 / non-zero
        for code in (0, 3):
            out.append(_case("exit_at", "normal", "after", k=k, code=code))
    return out


def stderr_product():
    """the child's THIRD pipe: a child that floods its stderr all the time, or writes a long report there when it is
    told to terminate — with stderr passed through (default) and with the quiet-logging environments that make the
    client handle stderr itself; every exit path"""
    out = []
    for sf in ("always", "on_term"):
        for env in (None, "quiet", "quiet2"):
            for p in H.PATHS:
                out.append(_case("well", p, "before", stderr_flood=sf, **({"env": env} if env else {})))
                out.append(_case("well", p, "after", stderr_flood=sf, **({"env": env} if env else {})))
            out.append(_case("ignore_term", "normal", "after", stderr_flood="always", **({"env": env} if env else {})))
            out.append(_case("flood", "normal", "before", stderr_flood=sf, **({"env": env} if env else {})))
    return out


def concurrent_product():
    """two and three StdioClient objects alive at once (same command, the SAME request id on every connection), one
    child dying with its request pending while another answers; every registration / sending order; both request APIs"""
    import itertools
    out = []
    groups = [[{"behaviour": "exit_at", "k": 1}, {"behaviour": "well"}],
              [{"behaviour": "well"}, {"behaviour": "well"}],
              [{"behaviour": "never_reads"}, {"behaviour": "well"}],
              [{"behaviour": "exit_at", "k": 1}, {"behaviour": "well"}, {"behaviour": "ignore_term"}],
              [{"behaviour": "exit_at", "k": 0}, {"behaviour": "exit_at", "k": 1}, {"behaviour": "well"}]]
    for g in groups:
        idx = list(range(len(g)))
        orders = list(itertools.permutations(idx))
        for order in orders:
            for send in (orders if len(g) == 2 else [tuple(idx), tuple(reversed(idx))]):
                for api in ("legacy", "send_message"):
                    if api == "send_message" and (order != orders[0] or send != tuple(idx)):
                        continue
                    for p in (H.PATHS if order == orders[-1] else ["normal"]):
                        out.append({"behaviour": "well", "path": p, "moment": "after", "api": "StdioClient", "nreq": 1,
                                    "concurrent": g, "order": list(order), "send_order": list(send), "req_api": api})
    return out


def product(apis, nreq=2, junk=True):
    out = []
    for api in apis:
        for b in H.BEHAVIOURS:
            variants = [{"k": k} for k in range(0, 2 * nreq + 1)] if b == "exit_at" else [{}]
            if b == "flood" and junk:
                variants = [{}, {"junk": True}]
            if b == "close_stdout":
                variants = CLOSE_STDOUT
            for v in variants:
                for p in H.PATHS:
                    for m in H.MOMENTS:
                        out.append(_case(b, p, m, api=api, nreq=nreq, **v))
    return out


DIRECTED = [
    _case("well", "normal", "after"),
    _case("well", "exception", "inflight"),
    _case("well", "cancel", "before"),
    _case("well", "timeout", "inflight"),
    _case("ignore_term", "normal", "after"),
    _case("ignore_term", "cancel", "after"),
    _case("exit_at", "normal", "after", k=1),
    _case("exit_at", "exception", "before", k=0),
    _case("exit_at", "timeout", "after", k=2, nreq=2),
    _case("never_reads", "timeout", "inflight"),
    _case("flood", "normal", "before"),
    _case("flood", "cancel", "inflight"),
    _case("close_stdout", "normal", "after"),
    _case("close_stdin", "exception", "after"),
    _case("slow_start", "timeout", "before"),
    _case("slow_start", "normal", "after"),
    _case("well", "cancel", "after", api="StdioTransport"),
    # a large backlog of queued outgoing messages at the moment of the exit, child not (or no longer) reading
    _case("never_reads", "normal", "before", backlog=BACKLOG),
    _case("never_reads", "exception", "inflight", backlog=BACKLOG),
    _case("stops_reading", "normal", "after", backlog=BACKLOG),
    _case("flood", "exception", "before", backlog=BACKLOG),
    _case("well", "normal", "after", backlog=BACKLOG),
    _case("never_reads", "cancel", "before", backlog=BACKLOG),
    # closes its stdout and lingers
    _case("close_stdout", "normal", "before", linger="sleep"),
    _case("close_stdout", "exception", "inflight", linger="reads"),
    _case("close_stdout", "cancel", "after", linger="stubborn", close_after=1),
    _case("close_stdout", "timeout", "after", linger="sleep", close_after=1),
    # the same client object for several sessions
    _case("well", "normal", "after", api="StdioClient", sessions=3),
    _case("well", "cancel", "before", api="StdioClient", sessions=2),
    _case("ignore_term", "exception", "inflight", api="StdioClient", sessions=2),
    _case("exit_at", "timeout", "after", k=1, api="StdioClient", sessions=2),
    _case("never_reads", "timeout", "inflight", api="StdioTransport", sessions=2),
    _case("well", "normal", "before", api="stdio_client", sessions=2),
    # hardening sweep (sampled; the thorough tier runs hardening_product() in full)
    _case("well", "exception", "after", exc_text="cancel-scope"),
    _case("well", "exception", "before", exc_text="hostile"),
    _case("never_reads", "exception", "inflight", exc_text="json", api="StdioTransport"),
    _case("well", "cancel", "after", nreq=2, chatty=True),
    _case("well", "normal", "after", falsy_result=1, req_id="0"),
    _case("well", "normal", "after", falsy_result=2),
    _case("well", "normal", "before", term_delay=0.9),
    _case("well", "cancel", "before", term_delay=1.1),
    _case("never_reads", "normal", "before", backlog=100),
    _case("never_reads", "timeout", "before", backlog=150),
    _case("never_reads", "normal", "before", backlog=4, backlog_bytes=16384),
    _case("well", "normal", "after", env="quiet", stderr=True, hostile_args=True),
    _case("well", "timeout", "before", nested=2),
    _case("well", "exception", "inflight", api="StdioClient", legacy=True),
    _case("well", "normal", "after", api="with_initialize"),
    _case("never_reads", "normal", "before", api="with_initialize"),
    _case("flood", "cancel", "before", api="with_initialize"),
    # exit status classes: a clean SIGTERM handler (status 0), a failing one, a child that has ended by itself
    _case("flood", "normal", "before", on_term=0),
    _case("flood", "timeout", "before", on_term=0),
    _case("flood", "exception", "before", on_term=3),
    _case("flood", "normal", "before", self_exit=0),
    _case("flood", "cancel", "before", self_exit=3),
    _case("well", "cancel", "after", on_term=0),
    _case("exit_at", "normal", "after", k=2, code=0),
    # requests pending through the per-request stream API when the context is left
    _case("well", "cancel", "inflight", api="StdioClient", legacy=True, legacy_n=3),
    _case("well", "timeout", "inflight", api="StdioClient", legacy=True, legacy_n=1, legacy_ends="read"),
    _case("well", "normal", "inflight", api="StdioClient", legacy=True, legacy_n=3, legacy_ends="closed"),
    _case("exit_at", "cancel", "inflight", api="StdioClient", legacy=True, legacy_n=1, legacy_ends="closed", k=1),
    # the stdout reader is ended first (not UTF-8 / binary / one huge line), then the child floods or lingers
    _case("flood", "normal", "before", preamble="bad_utf8"),
    _case("flood", "cancel", "before", preamble="binary"),
    _case("flood", "exception", "before", preamble="long_line", junk=True),
    _case("ignore_term", "timeout", "before", preamble="bad_utf8"),
    _case("never_reads", "normal", "before", preamble="truncated_utf8", backlog=BACKLOG),
    # the negotiated protocol version on the client, a child that sends batches and does not read the replies
    _case("flood", "normal", "before", api="StdioClient", version="2025-06-18", batch=True),
    _case("flood", "cancel", "before", api="StdioTransport", version="2025-06-18", batch=True),
    _case("flood", "exception", "inflight", api="StdioClient", version="2025-03-26", batch=True, backlog=BACKLOG),
    _case("flood", "timeout", "before", api="with_initialize", batch=True),
    # what the body raises: unprintable, groups, the classes the wrappers filter; a host logger that formats at DEBUG
    _case("well", "exception", "after", exc_class="unprintable"),
    _case("well", "exception", "before", exc_class="unreprable", logging="debug"),
    _case("well", "exception", "inflight", exc_class="ExceptionGroup-unprintable", api="StdioTransport"),
    _case("ignore_term", "exception", "after", exc_class="BaseExceptionGroup", logging="debug"),
    _case("well", "exception", "after", exc_class="ExceptionGroup-cancel-scope", api="StdioClient"),
    _case("well", "exception", "after", exc_class="StopAsyncIteration", api="with_initialize", logging="debug"),
    _case("well", "normal", "after", logging="debug"),
    _case("flood", "cancel", "before", logging="debug"),
    _case("exit_at", "timeout", "after", k=1, logging="debug"),
    # the stderr pipe
    _case("well", "normal", "before", stderr_flood="on_term", env="quiet"),
    _case("well", "cancel", "after", stderr_flood="always", env="quiet"),
    _case("well", "exception", "before", stderr_flood="on_term"),
    _case("well", "timeout", "before", stderr_flood="always", env="quiet2"),
    # several clients alive at once, the same request id on every connection
    {"behaviour": "well", "path": "normal", "moment": "after", "api": "StdioClient", "nreq": 1, "req_api": "legacy",
     "concurrent": [{"behaviour": "exit_at", "k": 1}, {"behaviour": "well"}], "order": [1, 0], "send_order": [0, 1]},
    {"behaviour": "well", "path": "cancel", "moment": "after", "api": "StdioClient", "nreq": 1, "req_api": "legacy",
     "concurrent": [{"behaviour": "exit_at", "k": 1}, {"behaviour": "well"}], "order": [0, 1], "send_order": [1, 0]},
    {"behaviour": "well", "path": "exception", "moment": "after", "api": "StdioClient", "nreq": 1, "req_api": "send_message",
     "concurrent": [{"behaviour": "never_reads"}, {"behaviour": "well"}], "order": [0, 1], "send_order": [0, 1]},
    {"behaviour": "well", "path": "timeout", "moment": "after", "api": "StdioClient", "nreq": 1, "req_api": "legacy",
     "concurrent": [{"behaviour": "exit_at", "k": 1}, {"behaviour": "well"}, {"behaviour": "ignore_term"}],
     "order": [2, 1, 0], "send_order": [0, 1, 2]},
]
BAD = [{"bad": b, "api": a} for b in ("missing", "not-executable", "directory", "bare-name") for a in H.APIS]
# the same object entered again after the failed start (a host that retries): it must fail again, not "succeed" empty
BAD += [{"bad": b, "api": a, "attempts": n, **({"logging": "debug"} if n == 3 else {})}
        for b in ("missing", "not-executable") for a in ("StdioTransport", "StdioClient", "stdio_client") for n in (2, 3)]


def entry_scan(step, upto=200, apis=("stdio_client",)):
    """cancellation / timeout WHILE the context is being entered: the deadline of a scope around the whole
    `async with` scanned from 0 in small steps (before the spawn, during it, right after it, early body)"""
    out = []
    i = 0
    for api in apis:
        for d in range(0, upto + 1, step):
            for b in ("slow_start", "well"):
                # alternate the two cancelled paths over the grid so that each child sees both at every phase
                p = ("timeout", "cancel")[(i + (b == "well")) % 2]
                out.append({"behaviour": b, "path": p, "moment": "entry", "deadline_ms": d, "api": api, "nreq": 1})
            i += 1
    return out


def backlog_product(apis=("stdio_client",)):
    out = []
    for api in apis:
        for b in ("never_reads", "stops_reading", "flood", "close_stdin", "well", "ignore_term"):
            for p in H.PATHS:
                for m in H.MOMENTS:
                    out.append(_case(b, p, m, api=api, backlog=BACKLOG))
    return out


class Scenarios(Suite):
    name = "scenarios"

    def cases(self, ctx, budget):
        rng = ctx.sub_rng("c16", budget)
        if budget == "quick":
            full = product(H.APIS) + backlog_product() + reuse_product() + hardening_product() + pending_stream_product() + reader_killer_product() + version_product() + body_exception_product() + status_product() + stderr_product() + concurrent_product()
            out = [dict(c) for c in DIRECTED] + [dict(c) for c in rng.sample(full, 6)]
            out += entry_scan(8, 160)
            out += [BAD[0], BAD[4], BAD[8]] + [b for b in BAD if b.get("attempts") == 2 and b["bad"] == "missing"] \
                + [b for b in BAD if b.get("attempts") == 3 and b["bad"] == "not-executable" and b["api"] != "stdio_client"]
        elif budget == "thorough":
            out = (product(H.APIS) + backlog_product(H.APIS) + reuse_product() + reuse_product(("StdioClient",), (3,))
                   + hardening_product() + pending_stream_product() + reader_killer_product() + version_product() + body_exception_product() + status_product() + stderr_product() + concurrent_product()
                   + entry_scan(2, 200) + entry_scan(8, 160, H.APIS[1:]) + BAD)
        else:  # search
            out = (product(["stdio_client"], nreq=1, junk=False) + backlog_product() + reuse_product(("StdioClient", "StdioTransport"))
                   + hardening_product() + pending_stream_product() + reader_killer_product() + version_product() + body_exception_product() + status_product() + stderr_product() + concurrent_product()
                   + entry_scan(4, 160) + BAD[:4])
        if host_runner_enabled():
            hp = host_runner_product()
            out += hp if budget != "quick" else [hp[0], hp[3], hp[6], hp[8], hp[10], hp[13], hp[14], hp[17], hp[20], hp[23]]
        for i, c in enumerate(out):
            if "bad" not in c:
                c["nonce"] = f"{budget[0]}{i}"
        return out

    def impl_batch(self, cases):
        return H.run_cases(cases)

    # -- model -------------------------------------------------------------------------
    def model_line(self, case):
        if "bad" in case:
            return {"m": "shutdown", "bad": True}
        d = {"m": "shutdown", "behaviour": case["behaviour"], "path": case["path"], "moment": case["moment"],
             "nreq": case.get("nreq", 1), "backlog": case.get("backlog", 0) * H.BACKLOG_BYTES}
        for key in ("k", "linger", "close_after", "sessions", "api"):
            if key in case:
                d[key] = case[key]
        if case.get("concurrent"):
            return {"m": "shutdown", "path": case["path"], "concurrent": case["concurrent"]}
        if case.get("servers"):
            def beh(sp):
                if sp.get("die_on_initialize"):
                    return {"behaviour": "exit_at", "k": 0}
                if sp.get("mute_on_initialize"):
                    return {"behaviour": "never_reads"}
                if sp.get("init_reply"):
                    return {"behaviour": "ignore_term"} if sp["behaviour"] in ("ignore_term", "close_stdout") else {"behaviour": "well"}
                if "term_delay" in sp:
                    return {"behaviour": "slow_term", "term_delay_ms": int(sp["term_delay"] * 1000)}
                return {"behaviour": sp["behaviour"]}
            return {"m": "shutdown", "path": "normal", "concurrent": [beh(sp) for sp in case["servers"]]}
        if "self_exit" in case:
            # it answers what it was asked (if it is a child that answers) and is gone when the exit begins
            answered = case.get("nreq", 1) if (case["moment"] == "after" and H.answers(case, 1)) else 0
            d["behaviour"], d["k"] = "exit_at", 2 * answered
        if "term_delay" in case and case["behaviour"] == "well":
            d["behaviour"] = "slow_term"
            d["term_delay_ms"] = int(case["term_delay"] * 1000)
        if "backlog_bytes" in case:
            d["backlog"] = case.get("backlog", 0) * case["backlog_bytes"]
        return d

    def model_obs(self, out, case):
        if "bad" in case:
            return {"raised_on_enter": out["raised_on_enter"]}
        return {"raised_on_enter": out["raised_on_enter"], "child": out["child"],
                "bounded": out["bounded"], "requests": out.get("requests", [])}

    def compare(self, case, o, m):
        if o.get("harness_error"):
            return "harness error: " + o["harness_error"]
        if "bad" in case:
            return None if (not o["entered"]) == m["raised_on_enter"] else "entering differs"
        if case.get("servers") and self.oracle(case, o) is not None:
            return None      # the property oracle already reports this case (possibly as a known finding)
        mine = {
            "raised_on_enter": (not o["entered"]) and case["moment"] != "entry",
            "child": "reaped" if o["state"] == "gone" else o["state"],
            "bounded": (not o["hang"]) and o["duration_ms"] is not None
            and o["duration_ms"] <= H.GRACE_MS * max(1, len(case.get("servers") or [1])) + H.SLACK_MS,
            "requests": ["returned" if r["outcome"] == "returned" else "timeout"
                         for r in o["requests"] if not r.get("held")],
        }
        if case.get("servers"):
            # the command function only sees the servers that completed the handshake; total time against its own budget
            mine["bounded"] = not o.get("hang") and o.get("total_ms", 0) <= o.get("budget_ms", 0)
            mine.pop("requests")
            m = {k: v for k, v in m.items() if k != "requests"}
            mine["raised_on_enter"] = False
        return None if mine == m else "differs"

    # -- property oracle (implementation observation only) ---------------------------------
    def oracle(self, case, o):
        if o.get("harness_error"):
            return None
        if "bad" in case:
            if o["entered"]:
                which = ""
                if case.get("attempts", 1) > 1:
                    which = f" on attempt {1 + next((i for i, a in enumerate(o.get('attempts', [])) if a != 'raised'), 0)} of " \
                            f"{case['attempts']} with the same object ({o.get('attempts')})"
                return (f"bad-command-entered/{case['bad']}{'/retry' if which and o.get('attempts', ['x'])[0] == 'raised' else ''}",
                        f"entering the context with an unstartable command ({case['bad']}, {case.get('api')}) did not raise{which}",
                        {"raised_on_enter": True})
            return None
        if case.get("servers"):
            n = len(case["servers"])
            names = "+".join(sp["behaviour"] + ("(mute at initialize)" if sp.get("mute_on_initialize") else "(dies at initialize)"
                             if sp.get("die_on_initialize") else "(answers initialize with %s)" % sp["init_reply"] if sp.get("init_reply")
                             else "") for sp in case["servers"])
            what = f"server_manager.run_command with {n} server(s) [{names}], command function {'raises' if case['path'] == 'exception' else 'returns'}"
            bound = H.GRACE_MS * n + H.SLACK_MS
            if o.get("hang") or o.get("total_ms", 0) > o.get("budget_ms", 10 ** 9):
                return ("unbounded/run_command", f"{what}: run_command had not returned after {o.get('total_ms')} ms (a handshake "
                        f"nobody answers is bounded by send_initialize's default, scaled here to {int(H.INIT_SCALED_S * 1000)} ms; "
                        f"budget {o.get('budget_ms')} ms)", {"total_ms": f"<= {o.get('budget_ms')}"})
            if o["duration_ms"] is not None and o["duration_ms"] > bound:
                return ("unbounded/run_command", f"{what}: leaving the {n} context(s) took {o['duration_ms']} ms", {"duration_ms": f"<= {bound}"})
            if o["state"] == "running":
                return ("child-left-running/run_command", f"{what}: a server process is still running after run_command returned "
                        f"({o['fd_delta']} descriptors still open)", {"state": "gone", "fd_delta": 0})
            if o["state"] == "zombie":
                return ("child-unreaped/run_command", f"{what}: a server process is an unreaped zombie after run_command returned "
                        f"({o['fd_delta']} descriptors still open)", {"state": "gone", "fd_delta": 0})
            if o["fd_delta"] is not None and o["fd_delta"] > 0:
                return ("fd-leak/run_command", f"{what}: {o['fd_delta']} additional descriptor(s) open after run_command returned", {"fd_delta": 0})
            for r in o["requests"]:
                if r["outcome"] == "returned" and r.get("payload") != {"echo": r["x"]}:
                    return ("fabricated-result/run_command", f"{what}: server {r['client']} returned {r.get('payload')!r}", None)
            return None
        if case.get("concurrent"):
            names = "+".join(sp["behaviour"] + ("%d" % sp["k"] if "k" in sp else "") for sp in case["concurrent"])
            what0 = f"{len(case['concurrent'])} clients at once [{names}] registered {case.get('order')} sent {case.get('send_order')} via {case.get('req_api')}"
        else:
            what0 = f"{case['behaviour']}{'/k=%d' % case['k'] if 'k' in case else ''}"
        what = (f"{what0} x {case['path']} x {case['moment']}"
                f"{' x %d queued messages of %d bytes' % (case['backlog'], H.BACKLOG_BYTES) if case.get('backlog') else ''}"
                f"{' (stdout closed%s, then: %s)' % (' after %d answer(s)' % case['close_after'] if case.get('close_after') else '', case.get('linger', 'eof')) if case['behaviour'] == 'close_stdout' else ''}"
                f" ({case.get('api')})")
        reuse = ""
        if case.get("sessions", 1) > 1:
            what += f", session {o.get('session')} of {case['sessions']} on the same {case.get('api')} object"
            if (o.get("session") or 1) > 1:
                reuse = "/reuse"
        if case["moment"] == "entry":
            what = f"{case['behaviour']} x {case['path']} {case['deadline_ms']} ms after reaching the context ({case.get('api')})"
            where = "entry" if not o["entered"] else "early-body"
            if o["hang"] or o["duration_ms"] is None or o["duration_ms"] > BOUND_MS:
                return (f"unbounded/{where}/{case['path']}", f"{what}: control came back {o['duration_ms']} ms after the "
                        f"cancellation (bound {H.GRACE_MS} ms + {H.SLACK_MS} ms slack)", {"duration_ms": f"<= {BOUND_MS}"})
            if o["state"] != "gone":
                return (f"child-left-{o['state']}/{where}/{case['path']}", f"{what}: the cancellation arrived "
                        f"{'while the context was being entered' if not o['entered'] else 'early in the body'}; the child is "
                        f"{o['state']} afterwards ({o['fd_delta']} descriptors still open)", {"state": "gone", "fd_delta": 0})
            if o["fd_delta"] is not None and o["fd_delta"] > 0:
                return (f"fd-leak/{where}/{case['path']}", f"{what}: {o['fd_delta']} additional descriptor(s) open afterwards",
                        {"fd_delta": 0})
            return None
        if not o["entered"]:
            if case.get("api") != "with_initialize":
                return None  # cannot happen with a startable command; nothing the property says about it
            # the handshake failed inside the context: entering raised; what is left behind?
            what += ": the handshake got no answer and entering raised " + str(o.get("enter_exc"))
            if o["hang"]:
                return (f"unbounded/failed-handshake", f"{what}, but only after more than {H.HANG_AFTER_MS} ms", None)
            if o["state"] != "gone":
                return (f"child-left-{o['state']}/failed-handshake", f"{what}; the child is {o['state']} afterwards "
                        f"({o['fd_delta']} descriptors still open)", {"state": "gone", "fd_delta": 0})
            if o["fd_delta"] is not None and o["fd_delta"] > 0:
                return (f"fd-leak/failed-handshake", f"{what}; {o['fd_delta']} additional descriptor(s) open afterwards",
                        {"fd_delta": 0})
            return None
        if o["hang"] or o["duration_ms"] is None or o["duration_ms"] > BOUND_MS:
            return (f"unbounded/{case['path']}{reuse}", f"{what}: leaving the context took "
                    f"{'more than %d' % H.HANG_AFTER_MS if o['hang'] else o['duration_ms']} ms"
                    f"{' (it returned only after the harness killed the child)' if o['hang'] else ''} "
                    f"(bound {H.GRACE_MS} ms + {H.SLACK_MS} ms slack)", {"duration_ms": f"<= {BOUND_MS}"})
        if o["state"] == "running":
            return (f"child-left-running/{case['path']}{reuse}", f"{what}: the child process is still running after the "
                    f"context was left ({o['fd_delta']} descriptors still open)", {"state": "gone", "fd_delta": 0})
        if o["state"] == "zombie":
            return (f"child-unreaped/{case['path']}{reuse}", f"{what}: the child is a zombie after the context was left",
                    {"state": "gone"})
        if o["fd_delta"] is not None and o["fd_delta"] > 0:
            return (f"fd-leak/{case['behaviour']}{reuse}", f"{what}: {o['fd_delta']} additional descriptor(s) open after the "
                    f"context was left (child gone)", {"fd_delta": 0})
        for j, r in enumerate(o["requests"], 1):
            if r["outcome"] != "returned":
                continue
            if "client" in r:
                sp = case["concurrent"][r["client"]]
                if not H.answers(dict(sp), 1) or r.get("payload") != {"echo": r["x"]}:
                    return ("fabricated-result/concurrent", f"{what}: client {r['client']} ({sp['behaviour']}"
                            f"{'/k=%d' % sp['k'] if 'k' in sp else ''}) got {r.get('payload')!r} for its request — its own child "
                            f"never wrote that (request id shared with {len(case['concurrent']) - 1} other live connection(s))",
                            {"outcome": "timeout or error"})
                continue
            nreq = case.get("nreq", 1) if case["moment"] == "after" else 1
            wrote = r["expect"] if "expect" in r else {"echo": r["x"]}
            if r.get("held") or not H.answers(case, (j - 1) % nreq + 1) or r.get("payload") != wrote \
                    or type(r.get("payload")) is not type(wrote):
                return ("fabricated-result", f"{what}: request {j} returned {r.get('payload')!r}, which the child never wrote",
                        {"outcome": "timeout or error"})
        return None

    def kind(self, case, o):
        if "bad" in case:
            return f"bad-command/{case['bad']}/{case.get('api')}{'x%d' % case['attempts'] if case.get('attempts', 1) > 1 else ''}"
        b = case["behaviour"] + ("%d" % case["k"] if "k" in case else "")
        if case.get("servers"):
            return "run_command:" + "+".join(sp["behaviour"] + ("-mute" if sp.get("mute_on_initialize") else "-dies" if sp.get("die_on_initialize") else "-init-" + sp["init_reply"] if sp.get("init_reply") else "")
                                             for sp in case["servers"]) + "/" + case["path"]
        if case.get("concurrent"):
            b = "concurrent:" + "+".join(sp["behaviour"] + ("%d" % sp["k"] if "k" in sp else "") for sp in case["concurrent"]) \
                + "/" + case.get("req_api", "legacy")
        if case.get("exc_class"):
            b += "+raises-" + case["exc_class"]
        if "on_term" in case:
            b += "+exit%d-on-term" % case["on_term"]
        if "self_exit" in case:
            b += "+self-exit%d" % case["self_exit"]
        if "code" in case:
            b += "+code%d" % case["code"]
        if case["moment"] == "entry":
            return f"{b}/{case['path']}/entry-{'cut' if not o['entered'] else 'body'}/{case.get('api')}"
        if case["behaviour"] == "close_stdout":
            b += "-" + case.get("linger", "eof") + ("@%d" % case["close_after"] if case.get("close_after") else "")
        flags = "".join("+" + k for k in ("preamble", "legacy_n", "legacy_ends", "version", "batch", "logging", "stderr_flood", "chatty", "falsy_result", "term_delay", "env", "stderr", "hostile_args", "nested", "legacy",
                                          "exc_text", "req_id", "empty_x", "backlog_bytes") if case.get(k) is not None)
        if case.get("backlog", 0) > 95:
            flags += "+queue-full"
        b += flags
        return (f"{b}/{case['path']}/{case['moment']}{'+backlog' if case.get('backlog') else ''}/{case.get('api')}"
                f"{'x%d' % case['sessions'] if case.get('sessions', 1) > 1 else ''}")

    def nontrivial(self, case, o):
        return "bad" not in case and (o["entered"] or case["moment"] == "entry")

    def shrink_candidates(self, case):
        if "bad" in case:
            if "logging" in case:
                yield {a: b for a, b in case.items() if a != "logging"}
            if case.get("attempts", 1) > 2:
                yield dict(case, attempts=2)
            if case.get("api") != "stdio_client" and case.get("attempts", 1) == 1:
                yield dict(case, api="stdio_client")
            return
        if case.get("api") != "stdio_client":
            yield dict(case, api="stdio_client")
        if case["moment"] == "entry":
            if case["behaviour"] != "well":
                yield dict(case, behaviour="well")
            return
        if case.get("servers"):
            if len(case["servers"]) > 1:
                for i in range(len(case["servers"])):
                    yield dict(case, servers=case["servers"][:i] + case["servers"][i + 1:])
            return
        if case.get("concurrent"):
            if len(case["concurrent"]) > 2:
                for drop in range(len(case["concurrent"])):
                    keep = [i for i in range(len(case["concurrent"])) if i != drop]
                    ren = {old: new for new, old in enumerate(keep)}
                    yield dict(case, concurrent=[case["concurrent"][i] for i in keep],
                               order=[ren[i] for i in case.get("order", []) if i in ren],
                               send_order=[ren[i] for i in case.get("send_order", []) if i in ren])
            return
        for k in ("preamble", "legacy_ends", "version", "batch", "logging", "exc_class", "on_term", "self_exit", "code", "stderr_flood"):
            if k in case:
                yield {a: b for a, b in case.items() if a != k}
        for k in ("chatty", "falsy_result", "env", "stderr", "hostile_args", "legacy", "exc_text", "req_id", "empty_x", "backlog_bytes"):
            if k in case:
                yield {a: b for a, b in case.items() if a != k}
        if case.get("legacy_n", 1) > 1:
            yield dict(case, legacy_n=1)
        if case.get("nested", 1) > 2:
            yield dict(case, nested=2)
        if case.get("sessions", 1) > 2:
            yield dict(case, sessions=2)
        if case.get("close_after"):
            yield {k: v for k, v in case.items() if k != "close_after"}
        if case.get("linger") in ("reads", "stubborn"):
            yield dict(case, linger="sleep")
        if case.get("backlog"):
            yield {k: v for k, v in case.items() if k != "backlog"}
        if case["behaviour"] != "well":
            c = {k: v for k, v in case.items() if k not in ("k", "junk", "linger", "close_after")}
            yield dict(c, behaviour="well")
            if case.get("backlog") and case["behaviour"] != "never_reads":
                yield dict(c, behaviour="never_reads")
        if case.get("junk"):
            yield {k: v for k, v in case.items() if k != "junk"}
        if case["moment"] != "before":
            yield dict(case, moment="before")
        if case.get("nreq", 1) > 1 and case.get("k", 0) <= 2:
            yield dict(case, nreq=1)


# =============================================================================== supplementary: the exit decision, exactly
TERM_DELAYS = [None, 0, 125, 875, 1000, 1125, 1500, 2500]
KILL_DELAYS = [None, 0, 125, 875, 1000, 1125]
SELF_EXITS = [None, None, 500, 1000, 1500]


def _vt_tie(spec):
    """the child's death coincides with a deadline of the client: both orders are legitimate"""
    t, k, s = spec.get("term_delay"), spec.get("kill_delay"), spec.get("self_exit")
    return t in (1000, 2000) or s in (1000, 2000) or (k is not None and 1000 + k == 2000) or (t is not None and s is not None and t == s)


class ExitTrace(Suite):
    """`__aexit__` / `_terminate_process` / `_drain_stdout` under virtual time against a scripted process: which
    signals at which instant, how long, waited for or not — against `Model.Shutdown.leave` (grace periods and drain
    bound regenerated).  The ORACLE demands the property text (bounded; waited for whenever SIGKILL works); the
    comparison of the signal trace is SUPPLEMENTARY (a client that, say, closed stdin first and waited would satisfy
    the property with another trace): differences go to the evidence notes."""
    name = "exit-trace"
    supplementary = True       # the ORACLE below is the property text; the trace comparison is not a verdict

    def cases(self, ctx, budget):
        import itertools
        rng = ctx.sub_rng("c16-vt", budget)
        full = []
        for ex, t, k, held, opened, se, p, tie in itertools.product(
                (False, True), TERM_DELAYS, KILL_DELAYS, (False, True), (True, False), (None, 500, 1000, 1500), H.PATHS,
                ("events", "timers", "io")):
            if ex and (t is not None or k is not None or se is not None):
                continue
            spec = {"exited": ex, "term_delay": t, "kill_delay": k, "stdout_held": held, "stdout_open": opened, "self_exit": se,
                    "status": (0, 3, -15)[len(full) % 3]}      # the exit status the child ends with: success, failure, signal
            full.append({"path": p, "tie": tie, "spec": spec})
        if budget == "thorough":
            return full
        n = 700 if budget == "quick" else 2500
        return rng.sample(full, n)

    def impl_batch(self, cases):
        from .. import shutdown_vt
        return shutdown_vt.run_cases(cases)

    def model_line(self, case):
        return {"m": "shutdown", "path": case["path"], "spec": case["spec"]}

    def compare(self, case, o, m):
        if _vt_tie(case["spec"]):
            return None
        mine = {"child": o["child"], "duration": o["duration"], "signals": o["signals"]}
        theirs = {"child": m.get("child"), "duration": m.get("duration"), "signals": m.get("signals")}
        return None if mine == theirs else f"exit trace {mine}, model {theirs}"

    def oracle(self, case, o):
        sp = case["spec"]
        what = f"scripted child {sp} x {case['path']} (tie order {case['tie']})"
        if o["exc"] == "unbounded" or o["duration"] is None or o["duration"] > BOUND_MS:
            return (f"unbounded/{case['path']}", f"{what}: leaving the context took {o['duration']} virtual ms", {"duration": f"<= {BOUND_MS}"})
        kill_works = sp.get("kill_delay") is not None and sp["kill_delay"] < 1000
        dies_anyway = sp.get("exited") or (sp.get("term_delay") is not None and sp["term_delay"] < 2000) \
            or (sp.get("self_exit") is not None and sp["self_exit"] < 2000)
        if (kill_works or dies_anyway) and o["child"] != "reaped":
            return (f"child-left-running/{case['path']}", f"{what}: the child was not waited for when the context was left "
                    f"(signals sent: {o['signals']})", {"child": "reaped"})
        return None

    def kind(self, case, o):
        sig = "+".join(s for _, s in o["signals"]) or "none"
        return f"vt/{case['path']}/{sig}/{o['child']}{'/drain' if case['spec'].get('stdout_held') else ''}{'/tie' if _vt_tie(case['spec']) else ''}"

    def nontrivial(self, case, o):
        return not case["spec"].get("exited")

    def shrink_candidates(self, case):
        sp = case["spec"]
        for k, v in (("stdout_held", False), ("stdout_open", True), ("self_exit", None), ("kill_delay", 0), ("term_delay", None)):
            if sp.get(k) != v:
                yield dict(case, spec=dict(sp, **{k: v}))
        if case["tie"] != "events":
            yield dict(case, tie="events")


def suites():
    return [Scenarios(), ExitTrace()]
