"""C20 — every host entry point launches exactly the server the configuration names."""
from __future__ import annotations

import json
import re

from .. import config_h as H
from ..core import canon
from ..runner import Suite

MANIFEST = dict(
    text="Lean 4 theorems over ALL configuration documents (any number of servers, any argument strings, any environment mapping, any timeout value, any extra members) about a model of load_config / StdioClient spawn arguments / the three host entry points: each entry point performs exactly the configured launch (command :: args, configured env when non-empty else the library default, then initialize); the multi-server runner launches exactly the named servers; missing file / invalid JSON / unknown name are FileNotFoundError / JSONDecodeError / ValueError and launch nothing. The theorems are shallow (glue logic); the tie is a correspondence run that launches a witness child process through the REAL load_config+stdio_client+send_initialize, __main__.test_server and server_manager.run_command and compares the argv/environment/initialize the child recorded with the model and with the configuration.",
    note="Partial by nature: process launch (no shell, no re-quoting), the JSON decoder and the handshake traffic are runtime facts decided by the correspondence run with real child processes. An empty env object means 'not given' (library default environment), as the code defines it.",
    technique="Lean 4 proof over a hand-written model + differential correspondence run with real witness child processes",
    design="5/C20",
)
GEN: list[str] = []
# not stated by the property text (DESIGN 9.9): the library's default environment, the command line, the legacy paths
SUPP_GEN = ["HostEnv", "Cli", "Legacy"]
SUPP_THEOREMS = [
    "c20_host_translated", "c20_default_env_sound", "c20_default_env_complete", "c20_nothing_else_leaks",
    "c20_child_env_exact", "c20_cli_defaults", "c20_cli_value_option", "c20_cli_flags", "c20_cli_missing_value",
    "c20_cli_discovery_first", "c20_cli_discovery_none", "c20_cli_decision", "c20_cli_nothing_launched",
    "c20_cli_launch_exact", "c20_legacy_translated", "c20_legacy_aliases_same_object",
]
THEOREMS = [
    "c20_load_configured",
    "c20_launch_exact",
    "c20_runner_launch_exact",
    "c20_runner_one_launch_per_name",
    "c20_runner_mixed_names",
    "c20_host_process_irrelevant",
    "c20_missing_path_not_launched", "c20_runner_survives_unspawnable",
    "c20_errors_classified",
    "c20_errors_surface",
    "c20_extra_members_ignored",
    "c20_executable_exact",
    "c20_path_command_verbatim",
    "c20_executable_independent_of_host",
    "c20_unresolvable_not_launched",
]
RULE = (
    "generated configuration documents (1..4 servers; every 5th document uses BARE command names: copies of one witness "
    "name in several directories, some on the host process's PATH, others named by PATH values of env blocks - env absent/"
    "empty/own PATH first/own PATH last/PATH without it/no PATH - the witness that ran is identified by its directory; 40% of the multi-server ones as FAMILIES: servers sharing command and args "
    "and differing only in env / identical twins / sharing env and differing in args or command; args drawn from spaces/quotes/shell metacharacters/Unicode/empty "
    "strings/newlines; env absent/empty/1..3 values; timeout absent/int/float/string-number; extra members at every level) "
    "x entry point {load_config+stdio_client+send_initialize, __main__.test_server, server_manager.run_command, "
    "__main__.main (argv: --config/--server, -c/-s, default configuration discovery in the cwd, default server name)} x "
    "USAGE {config file written compact/CRLF/indented/raw UTF-8, file and directory names with spaces/%s/{0}, verbose, "
    "witness with tools/resources/prompts capabilities whose lists succeed or fail, command function named "
    "interactive_mode / chat_run / raising, user_specified absent/None/[]/subset/unknown, the entry run twice, host "
    "environment with '()' values / missing members} x VALUES {falsy and type-twin names/args/env values/timeouts (0, "
    "0.0, '0', null), env null, magic strings from the anchored sources, format-hostile text, 100 kB strings} x "
    "{valid, missing file, invalid JSON (6 shapes), unknown server name}; a witness child records argv/environment/"
    "methods; non-trivial = distinct case whose configuration is valid and names at least one server"
)
TRUSTED = [
    "the witness child (py/verifpy/config_h.py) reports argv and /proc/self/environ truthfully",
    "OS process launch, pipes, stdlib json decoder (sampled, not proved)",
]
ASSUMPTIONS = [
    "a bare command name is looked up on the PATH of the environment the child gets (execvpe semantics: configured env, library default when none, /bin:/usr/bin when that environment has no PATH); when no such file exists there the server cannot be launched and nothing is demanded beyond 'no other file is executed'",
    "an empty `env` object is the configured way of saying 'not given': the child then gets the library default environment (StdioClient: `self.server.env or get_default_environment()`)",
    "configuration documents have unique member names",
    "'reaches the initialize handshake' is read as: the launched child receives an `initialize` request",
]

ENTRIES = ["loader", "cliTest", "runner", "cliMain"]
LONG = "x" * 100_000     # one argument / one value near the kernel's per-string limit (128 KiB)
# text that looks like JSON-with-comments syntax or defeats a naive string scanner: URLs, comment openers / closers,
# trailing backslashes, escaped quotes
SCANNER_HOSTILE = ["C:\\data\\", "a\\", "http://host:8080/p?q=1#frag", "postgresql://u:p@db/x", "//", "/* c */", "*/", "/*",
                   "# not a comment", 'say \"hi\"', '\\"', "'//'", "\\\\", "x // y", '"', "\\n"]
NAMES = ["sqlite", "db", "my server", "sérveur", "a.b", "S", "echo-1", "服务", "x" * 40,
         # falsy-looking / type-twin / harvested from the code under test / format-hostile
         "0", "False", "null", "None", "7", "7.0", "true", "mcpServers", "command", "args", "env", "timeout",
         "servers", "interactive_mode", "chat_run", "cancel scope", "%s", "{0}", "{}", "a\nb", "x\u2028y", "q'\"q"]
ARGS = [
    "", " ", "a b", "--flag=va lue", "'single'", '"double"', "$(echo hi)", "`x`", "héllo", "日本語",
    "\U0001f600", "-", "--", "a\\b", "tab\there", "new\nline", "*", "~", ";", "| cat", "&&", "--port", "8080",
    "$HOME", "%PATH%", "a=b", "\\", "'", '"',
    "0", "false", "null", "None", "7", "7.0", "true", "[]", "{}", "%", "%s %d", "{0}", "{name}", "\r\n", "\u2028",
    "\u2029", "\u0085", "mcpServers", "command", "--config", "--server", "--verbose", "-v", "-c", "-s", "-l",
    "cancel scope", "json object must be str", "()", "() { :; }", "LOG_LEVEL=ERROR",
] + SCANNER_HOSTILE
ENV_KEYS = ["FOO", "BAR_1", "PATH", "LOG_LEVEL", "HOME", "X", "lower_case", "MCP_TOKEN",
            # names that look like credentials (what log-scrubbing code looks for)
            "SERVICE_API_KEY", "GITHUB_TOKEN", "DB_PASSWORD", "CLIENT_SECRET", "AWS_SECRET_ACCESS_KEY", "passwd",
            "CREDENTIALS_FILE", "PRIVATE_KEY", "AUTH",
            "LOGGING_LEVEL", "LOGNAME", "SHELL", "TERM", "USER", "APPDATA", "0", "env", "command", "%s"]
ENV_VALS = ["sk-live-123", "***", "ghp_abcDEF", "", "1", "a b", "q\"'q", "=", "/usr/bin:/bin", "ERROR", "debug", "ü", "$HOME", "x" * 200,
            "0", "false", "null", "CRITICAL", "critical", "Error", "WARNING", "()", "() { :; }; x", "%s %d", "{0}",
            "\r\n", "\u2028", "a\nb"] + SCANNER_HOSTILE
TIMEOUTS = [None, 1, 30, 120, 0.5, 2.25, 7.0, "5", "2.5", "10.0", "0.125",
            0, 0.0, "0", "0.0", 7, "7", "7.0", 0.001, "1e3", "NULL"]     # "NULL": the member is present with value null
SERVER_EXTRAS = [("description", "a server"), ("disabled", False), ("cwd", "/nonexistent"), ("transport", "stdio"),
                 ("url", None), ("tags", ["a", "b"]), ("Command", "decoy"), ("ARGS", ["decoy"]), ("Env", {"A": "decoy"}),
                 ("", "empty member name"), ("command ", "decoy"), ("timeouts", 0), ("enabled", 0), ("note", "%s {0}\n")]
TOP_EXTRAS = [("version", 1), ("$schema", "http://example/schema"), ("servers", {"decoy": {"command": "false"}}),
              ("defaults", {"timeout": 3}), ("mcpservers", {}), ("mcpServers ", {"decoy": {"command": "false"}}),
              ("", None), ("timeout", 0)]
INVALID_TEXTS = ["", "{", "{'mcpServers': {}}", "not json at all", "[1, 2,]", "\ufeff{}"]


def gen_doc(rng, nservers=None):
    n = nservers or rng.choice([1, 1, 2, 2, 3, 4])
    names = rng.sample(NAMES, n)
    servers = {}
    for i, name in enumerate(names):
        sc = {"command": f"@W{i}"}
        am = rng.choice(["absent", "empty", "some", "some", "many"])
        if am == "empty":
            sc["args"] = []
        elif am == "some":
            sc["args"] = [rng.choice(ARGS) for _ in range(rng.randint(1, 3))]
        elif am == "many":
            sc["args"] = [rng.choice(ARGS) for _ in range(rng.randint(4, 8))]
        em = rng.choice(["absent", "empty", "values", "values", "values", "null"])
        if em == "empty":
            sc["env"] = {}
        elif em == "null":
            sc["env"] = None
        elif em == "values":
            sc["env"] = {k: rng.choice(ENV_VALS) for k in rng.sample(ENV_KEYS, rng.randint(1, 3))}
        t = rng.choice(TIMEOUTS)
        if t == "NULL":
            sc["timeout"] = None
        elif t is not None:
            sc["timeout"] = t
        if rng.random() < 0.03:
            sc["args"] = list(sc.get("args", [])) + [LONG]
        if rng.random() < 0.03 and sc.get("env"):
            sc["env"][rng.choice(list(sc["env"]))] = LONG
        for k, v in rng.sample(SERVER_EXTRAS, rng.choice([0, 0, 1, 2])):
            sc[k] = v
        items = list(sc.items())
        rng.shuffle(items)
        servers[name] = dict(items)
    if n >= 2 and rng.random() < 0.4:
        relate(rng, servers)
    doc = {"mcpServers": servers}
    for k, v in rng.sample(TOP_EXTRAS, rng.choice([0, 0, 1, 2])):
        doc[k] = v
    items = list(doc.items())
    rng.shuffle(items)
    return dict(items)


STYLES = ["ascii", "compact", "crlf", "spaced", "pretty-utf8"]
CFG_NAMES = ["config.json", "server_config.json", "mcp_config.json", "conf %s {0}.json", "my config.json", "cfgé.json"]
CFG_DIRS = ["conf", "dir with space", "%d{}"]
DISCOVERABLE = ["server_config.json", "mcp_config.json", "config.json"]
WITNESS_MODES = [None, None, {"caps": ["tools", "resources", "prompts"], "lists": "ok"},
                 {"caps": ["tools", "resources", "prompts"], "lists": "error"},
                 {"caps": ["tools"], "lists": "ok", "instructions": "use %s {0} wisely\n\u2028"},
                 {"caps": ["prompts", "resources"], "lists": "ok", "instructions": ""}]
HOST_ENVS = [{"LOGNAME": "() { :; }; x", "TERM": ""}, {"SHELL": None, "USER": "u s e r"}, {"HOME": "()", "TERM": "xterm"}]


def stdout_may_fail(c):
    """A stdout that cannot take what is printed (not UTF-8, or closed) is an I/O problem of the host's own; it must
    not keep a library entry point from launching what is configured.  It is only generated where the entry point has
    nothing it MUST say before the launch: not for the command line itself (`main` announces what it tests), not when
    an error has to be reported (a name that cannot be loaded, a failing command function), not for a second run
    after the first one's report failed."""
    if c["expect"] != "valid" or c["entry"] == "cliMain" or c.get("repeat", 1) > 1:
        return False
    if c["entry"] == "runner":
        known = c["doc"].get("mcpServers", {})
        if c.get("mixed") or c.get("unspawnable") or c.get("cmdfunc") == "raises" or any(n not in known for n in c["names"]):
            return False
        if c.get("bare") and len(expected_launches(c, {"PATH": ""})) != len(c["names"]):
            return False
    if c.get("bare"):
        return False
    return True


def decorate(rng, case):
    """ways of USING the entry points that do not change what has to be launched"""
    c = dict(case)
    e = c["entry"]
    if c["file"] == "ok":
        c["style"] = rng.choice(STYLES)
    c["cfgname"] = rng.choice(CFG_NAMES)
    c["cfgdir"] = rng.choice(CFG_DIRS)
    if e in ("cliTest", "cliMain"):
        c["verbose"] = rng.random() < 0.4
        m = rng.choice(WITNESS_MODES)
        if m is not None and c["file"] == "ok":
            c["witness_mode"] = m
    if e == "cliMain":
        modes = ["explicit", "short", "discover"]
        if c["names"] == ["sqlite"]:
            modes.append("default-server")
        c["main_mode"] = rng.choice(modes)
        if c["main_mode"] == "discover":
            c["cfgname"] = rng.choice(DISCOVERABLE)
    if e == "runner":
        c["cmdfunc"] = rng.choice(["plain", "plain", "interactive_mode", "chat_run", "raises"])
        us = rng.choice(["absent", "none", "empty", "first", "all", "ghost"])
        if us != "absent":
            c["user_specified"] = {"none": None, "empty": [], "first": c["names"][:1], "all": list(c["names"]),
                                   "ghost": ["ghost"]}[us]
    if e == "loader" and rng.random() < 0.4:
        c["legacy"] = rng.choice(["names", "modules", "transport", "asyncgen"])
    if e == "runner" and rng.random() < 0.3:
        c["legacy"] = "names"
    if rng.random() < 0.6:
        c["cmdstyle"] = rng.randrange(0, 13)          # hostile text in the configured command path itself
    # the host process: logging at DEBUG with a handler that formats; a stdout that is not UTF-8, or closed
    if rng.random() < 0.45:
        c["logging"] = "debug"
    if rng.random() < 0.12 and c["expect"] == "valid":
        c["repeat"] = 2
    if rng.random() < 0.4 and stdout_may_fail(c):
        c["stdout"] = rng.choice(["ascii", "cp1252", "closed"])
    if rng.random() < 0.15:
        c["host_env"] = rng.choice(HOST_ENVS)
    return c


def relate(rng, servers):
    """Turn the servers into RELATIVES of the first one: same launcher (command and args) with another
    environment, identical twins, same environment with other args, ... — configurations in which two
    servers coincide in part of their launch data (one launcher, several tenants)."""
    names = list(servers)
    base = servers[names[0]]
    for n in names[1:]:
        how = rng.choice(["env-only", "env-only", "twin", "args-only", "command-only", "env-presence"])
        sc = servers[n]
        own_cmd = sc["command"]
        rel = {k: v for k, v in base.items() if k in ("command", "args", "env")}
        rel = {k: (list(v) if isinstance(v, list) else dict(v) if isinstance(v, dict) else v) for k, v in rel.items()}
        if how == "env-only":
            keys = list((rel.get("env") or {}).keys()) or [rng.choice(ENV_KEYS)]
            rel["env"] = {k: rng.choice([v for v in ENV_VALS if v != (base.get("env") or {}).get(k)]) for k in keys}
        elif how == "env-presence":
            if rel.get("env"):
                rel.pop("env")
            else:
                rel["env"] = {rng.choice(ENV_KEYS): rng.choice(ENV_VALS)}
        elif how == "args-only":
            rel["args"] = list(rel.get("args", [])) + [rng.choice(ARGS)]
        elif how == "command-only":
            rel["command"] = own_cmd
        for k in ("timeout",) + tuple(k for k, _ in SERVER_EXTRAS):
            if k in sc:
                rel[k] = sc[k]
        servers[n] = rel


def is_family(doc):
    cmds = [sc.get("command") for sc in doc["mcpServers"].values()]
    return len(set(cmds)) < len(cmds)


SYS_PATH = "/usr/bin:/bin"


def gen_bare_doc(rng):
    """servers whose command is a bare NAME: copies of the witness under that name sit in directories 0..k;
    some of the directories are on the host process's PATH, PATH values of env blocks name others.
    -> (doc, bare)"""
    ndirs = rng.choice([2, 2, 3])
    dirs = list(range(ndirs))
    host = rng.choice([[0], [0], [], [1, 0]])
    n = rng.choice([1, 2, 2, 3])
    servers = {}
    for name in rng.sample(NAMES, n):
        sc = {"command": BARE}
        if rng.random() < 0.6:
            sc["args"] = [rng.choice(ARGS) for _ in range(rng.randint(1, 3))]
        how = rng.choice(["absent", "empty", "own-path", "own-path", "own-path-2", "sys-path", "no-path", "host-first"])
        d = rng.choice(dirs)
        if how == "empty":
            sc["env"] = {}
        elif how == "own-path":
            sc["env"] = {"PATH": f"@D{d}:{SYS_PATH}", "FOO": rng.choice(ENV_VALS)}
        elif how == "own-path-2":
            sc["env"] = {"PATH": f"{SYS_PATH}:@D{d}:@D{(d + 1) % ndirs}"}
        elif how == "sys-path":
            sc["env"] = {"PATH": SYS_PATH, "X": "1"}
        elif how == "no-path":
            sc["env"] = {"FOO": "1"}
        elif how == "host-first":
            sc["env"] = {"PATH": ":".join(f"@D{i}" for i in (host or [0])) + f":@D{d}", "HOME": "/nonexistent"}
        t = rng.choice(TIMEOUTS)
        if t == "NULL":
            sc["timeout"] = None
        elif t is not None:
            sc["timeout"] = t
        servers[name] = sc
    return {"mcpServers": servers}, {"name": BARE, "dirs": dirs, "host": host}


GHOSTS = ["nosuch", "ghost", "", "mcpServers", "Alpha ", "0"]


def mixed_runner_cases(rng, doc, n=3):
    """the multi-server runner asked for names of which SOME cannot be loaded (not in the document), in every
    position: failing first / in the middle / last, two in a row, the same failing name twice.  Each loadable name
    is launched exactly once, a failing name launches nothing (in particular not somebody else's server)."""
    good = list(doc["mcpServers"])
    ghosts = [g for g in GHOSTS if g not in good]
    out = []
    patterns = ["GF", "FG", "GFG", "FGF", "GFF", "FFG", "GFGF", "FGGF", "GGF", "FFGG"]
    for pat in rng.sample(patterns, min(n, len(patterns))):
        gs = rng.sample(good, min(len(good), pat.count("G")))
        names, gi = [], 0
        f1 = rng.choice(ghosts)
        f2 = rng.choice([f1] + ghosts)                      # the same failing name again, or another one
        fs = [f1, f2]
        fi = 0
        for ch in pat:
            if ch == "G":
                if gi < len(gs):
                    names.append(gs[gi])
                    gi += 1
            else:
                names.append(fs[fi % 2])
                fi += 1
        out.append({"entry": "runner", "file": "ok", "doc": doc, "names": names, "expect": "valid", "mixed": pat})
    return out


def unspawnable_runner_cases(rng, doc, n=2):
    """the multi-server runner with servers whose command CANNOT BE SPAWNED (no such file / not executable) among
    healthy ones, at every position: first, last, in the middle, two in a row.  The healthy ones must be launched,
    reach the handshake and be handed to the command function; the broken ones launch nothing."""
    good = list(doc["mcpServers"])
    out = []
    for pat in rng.sample(["BG", "GB", "GBG", "BGB", "GBB", "BBG", "GGB", "BGG"], n):
        servers = dict(doc["mcpServers"])
        names, gi, bi = [], 0, 0
        gs = rng.sample(good, min(len(good), pat.count("G")))
        for ch in pat:
            if ch == "G":
                if gi < len(gs):
                    names.append(gs[gi])
                    gi += 1
            else:
                nm = f"broken{bi}"
                servers[nm] = {"command": rng.choice(["@X", "@N"]) + str(bi), "args": ["x"], **({"env": {"FOO": "1"}} if bi % 2 else {})}
                names.append(nm)
                bi += 1
        out.append({"entry": "runner", "file": "ok", "doc": dict(doc, mcpServers=servers), "names": names, "expect": "valid",
                    "unspawnable": pat})
    return out


def valid_cases(rng, doc, bare=None):
    """the three entry points on one document"""
    if bare is not None:
        return [dict(c, bare=bare) for c in valid_cases(rng, doc)]
    names = list(doc["mcpServers"])
    out = []
    for e in ENTRIES:
        if e == "runner":
            k = len(names) if is_family(doc) else rng.randint(1, len(names))
            sel = rng.sample(names, k)
        else:
            sel = [rng.choice(names)]
        out.append({"entry": e, "file": "ok", "doc": doc, "names": sel, "expect": "valid"})
    return out


def malformed_cases(rng, doc, which=None):
    out = []
    names = list(doc["mcpServers"])
    text = json.dumps(doc)
    for e in ENTRIES:
        sel = [rng.choice(names)] if e != "runner" else rng.sample(names, rng.randint(1, len(names)))
        for cls in which or ["missing", "invalid-json", "unknown"]:
            if cls == "missing":
                out.append({"entry": e, "file": "missing", "path": rng.choice(["absent.json", "no/such/dir/config.json"]),
                            "names": sel, "expect": "missing"})
            elif cls == "invalid-json":
                t = rng.choice(INVALID_TEXTS + [text[: rng.randrange(1, len(text))], text + ",", text + text])
                out.append({"entry": e, "file": "invalid", "text": t, "names": sel, "expect": "invalid-json"})
            else:
                unk = rng.choice([u for u in ["nope", "", names[0].upper() + "_", names[0] + " ", " " + names[0], "mcpServers",
                                              "command", "default", "0", "None"] if u not in names and "other-" + u not in names])
                d = doc
                if rng.random() < 0.25:
                    d = {k: v for k, v in doc.items() if k != "mcpServers"}  # no mcpServers member at all
                    unk = names[0]
                out.append({"entry": e, "file": "ok", "doc": d, "names": [unk] if e != "runner" else [unk, "other-" + unk][: rng.randint(1, 2)],
                            "expect": "unknown"})
    return out


WHITESPACE_TEXTS = ["", " ", "\n", "\n\n\n", "\t\n  \n", "\r\n", "\r\n\r\n", "   \n\n", "\ufeff", "\ufeff\n"]


def malformed_stream(rng, doc, budget):
    """configuration files that are NOT JSON, systematically: empty / whitespace-only / blank-lines-only, the BOM,
    and a valid document cut off at every byte (compact and indented spelling), each also followed by a newline or
    CR LF (a half-written file usually ends in one).  The loader sees all of them, the other entry points a sample."""
    names = list(doc["mcpServers"])
    texts = list(INVALID_TEXTS) + WHITESPACE_TEXTS
    for spelling in (json.dumps(doc), json.dumps(doc, indent=1), json.dumps(doc, indent=2).replace("\n", "\r\n")):
        n = len(spelling)
        if budget == "quick":
            after_nl = [i + 1 for i, ch in enumerate(spelling) if ch == "\n"]
            ks = sorted(set(after_nl[:8] + [1, 2, n - 1] + [rng.randrange(1, n) for _ in range(5)]))
        else:
            ks = range(1, n)
        for k in ks:
            pre = spelling[:k]
            texts.append(pre)
            if budget != "quick" or k % 3 == 0 or pre.endswith("\n"):
                texts.append(pre + "\n")
                texts.append(pre + "\r\n")
        texts += [spelling + ",", spelling + spelling, "\ufeff" + spelling, spelling[:-1] + "\n"]
    out, seen = [], set()
    for i, t in enumerate(texts):
        if t in seen:
            continue
        seen.add(t)
        for e in (ENTRIES if i % 5 == 0 else ["loader"]):
            sel = [names[0]] if e != "runner" else names[:2]
            out.append({"entry": e, "file": "invalid", "text": t, "names": sel, "expect": "invalid-json"})
    return out


BARE = "verif-mcp-witness"      # a command NAME (no directory part): found through PATH
DEFPATH = "/bin:/usr/bin"       # what the OS searches when the child's environment has no PATH


def executed(case, sc, env):
    """which witness file the configuration selects: a path is taken as it stands, a bare name is
    looked up on the PATH of the environment THE CHILD gets (execvpe); None: there is no such file"""
    cmd = sc["command"]
    if cmd.startswith("@W"):
        return cmd
    if cmd[:2] in ("@X", "@N"):
        return None                                   # no such file / not executable: cannot be spawned
    bare = case.get("bare") or {}
    if cmd != bare.get("name"):
        return None
    for d in env.get("PATH", DEFPATH).split(":"):
        if d.startswith("@D") and d[2:].isdigit() and int(d[2:]) in bare.get("dirs", []):
            return "@W" + d[2:]
    return None


def expected_launches(case, default_env):
    """what the configuration asks for — computed from the document alone (oracle side); a server whose
    command does not exist in its own environment cannot be launched and is left out"""
    out = []
    for n in case["names"]:
        sc = case["doc"]["mcpServers"].get(n)
        if not isinstance(sc, dict):
            continue                                   # a name the document does not have: nothing to launch for it
        env = sc.get("env") or default_env
        cmd = executed(case, sc, env)
        if cmd is not None:
            out.append({"cmd": cmd, "argv": list(sc.get("args", [])), "env": dict(env)})
    return out


def drop_unresolvable(case, launches, default_env):
    """launches made for a requested server whose command does NOT exist in its own environment: today the
    spawn fails; the property does not say what else may happen (a fallback lookup would be harmless), so
    such launches are neither demanded nor held against the code"""
    if case.get("file") != "ok" or not case.get("bare"):
        return launches
    servers = case["doc"].get("mcpServers", {})
    unres = []
    for n in case["names"]:
        sc = servers.get(n)
        if isinstance(sc, dict):
            env = sc.get("env") or default_env
            if executed(case, sc, env) is None:
                unres.append((list(sc.get("args", [])), dict(env)))
    out = []
    for l in launches:
        if (l["argv"], l["env"]) in unres:
            unres.remove((l["argv"], l["env"]))
            continue
        out.append(l)
    return out


def dflt_of(o):
    """the default environment a child must get in this case (see config_h.expected_default)"""
    return H.expected_default(o.get("parent_env"), o["default_env"])


def _model_cmd(c):
    m = re.match(r"@D(\d+)/", c) if isinstance(c, str) else None
    return f"@W{m.group(1)}" if m else c


def model_doc(doc):
    """for the model a witness named by its path is `@D<i>/witness` (a command with a directory part)"""
    doc = json.loads(json.dumps(doc))
    for sc in (doc.get("mcpServers") or {}).values():
        if isinstance(sc, dict) and isinstance(sc.get("command"), str) and sc["command"].startswith("@W"):
            sc["command"] = f"@D{sc['command'][2:]}/witness"
        elif isinstance(sc, dict) and isinstance(sc.get("command"), str) and sc["command"][:2] in ("@X", "@N"):
            sc["command"] = f"@BROKEN/{sc['command'][1:]}/server"        # a path; not among the existing executable files
    return doc


def model_files(case):
    bare = case.get("bare") or {}
    out = [f"@D{i}/witness" for i in H.placeholders(case.get("doc") or {})]
    out += [f"@D{i}/{bare['name']}" for i in bare.get("dirs", [])]
    return out


def _launch_key(l):
    return json.dumps({"cmd": l["cmd"], "argv": l["argv"], "env": l["env"]}, sort_keys=True)


class Entry(Suite):
    name = "entrypoints"

    def cases(self, ctx, budget):
        rng = ctx.sub_rng("c20", budget)
        out = []
        # directed: the smallest document, and one with every difficult argument
        d0 = {"mcpServers": {"sqlite": {"command": "@W0"}}}
        d1 = {"mcpServers": {"a": {"command": "@W0", "args": ARGS[:16], "env": {}, "timeout": "2.5"},
                             "b": {"command": "@W1", "args": ARGS[16:], "env": {"LOG_LEVEL": "ERROR", "FOO": ""}, "timeout": 3}}}
        # one launcher, several tenants: same command and args, environments differ (c and d are identical twins)
        d2 = {"mcpServers": {"tenant_a": {"command": "@W0", "args": ["--serve", "x y"], "env": {"MCP_TOKEN": "1", "FOO": "a b"}},
                             "tenant_b": {"command": "@W0", "args": ["--serve", "x y"], "env": {"MCP_TOKEN": "debug", "FOO": "a b"}},
                             "tenant_c": {"command": "@W0", "args": ["--serve", "x y"]},
                             "tenant_d": {"command": "@W0", "args": ["--serve", "x y"], "timeout": 5}}}
        # same environment, launchers differ
        d3 = {"mcpServers": {"p": {"command": "@W0", "env": {"FOO": "1"}}, "q": {"command": "@W1", "env": {"FOO": "1"}},
                             "r": {"command": "@W0", "args": ["-"], "env": {"FOO": "1"}}}}
        # bare command names: (a) no env -> host PATH; (b) env PATH selects ANOTHER copy than the host PATH;
        # (c2) empty env -> default; (d) env PATH without it; (e) env without PATH -- (d), (e): nothing to launch
        d4 = {"mcpServers": {"a": {"command": BARE, "args": ["x y"]},
                             "b": {"command": BARE, "args": ["x y"], "env": {"PATH": f"@D1:{SYS_PATH}", "FOO": "1"}},
                             "c2": {"command": BARE, "env": {}},
                             "d": {"command": BARE, "env": {"PATH": SYS_PATH}},
                             "e": {"command": BARE, "env": {"FOO": "1"}}}}
        b4 = {"name": BARE, "dirs": [0, 1], "host": [0]}
        # (c) only the configured PATH has it
        d5 = {"mcpServers": {"c": {"command": BARE, "env": {"PATH": f"{SYS_PATH}:@D1"}}, "a": {"command": BARE}}}
        b5 = {"name": BARE, "dirs": [1], "host": []}
        for d, b in ((d4, b4), (d5, b5)):
            for e in ENTRIES:
                for n in (list(d["mcpServers"]) if e != "runner" else [None]):
                    out.append({"entry": e, "file": "ok", "doc": d, "bare": b, "expect": "valid",
                                "names": list(d["mcpServers"]) if e == "runner" else [n]})
        for d in (d0, d1, d2, d3):
            for e in ENTRIES:
                out.append({"entry": e, "file": "ok", "doc": d, "names": list(d["mcpServers"]) if e == "runner" else [list(d["mcpServers"])[-1]],
                            "expect": "valid"})
        # the command line as a user types it: default server name, discovered configuration, short options
        for mode in ("default-server", "discover", "short", "explicit"):
            out.append({"entry": "cliMain", "file": "ok", "doc": d0, "names": ["sqlite"], "expect": "valid", "main_mode": mode,
                        "cfgname": "server_config.json" if mode == "discover" else "config.json", "verbose": mode == "short",
                        "witness_mode": WITNESS_MODES[2 + (mode == "short")]})
        d6 = {"mcpServers": {"svc": {"command": "@W0", "args": ["héllo", "日本語", "--ключ"],
                                     "env": {"SERVICE_API_KEY": "sk-live-123", "GITHUB_TOKEN": "ghp_abcDEF", "DB_PASSWORD": "p w",
                                             "FOO": "1"}}}}
        for e in ENTRIES:
            for lg_, so in (("debug", "utf-8"), (None, "ascii"), ("debug", "cp1252"), (None, "closed")):
                c = {"entry": e, "file": "ok", "doc": d6, "names": ["svc"], "expect": "valid", "stdout": so}
                if not stdout_may_fail(c):
                    c["stdout"] = "utf-8"
                if lg_:
                    c["logging"] = lg_
                if e in ("cliTest", "cliMain"):
                    c["verbose"] = lg_ == "debug"
                out.append(c)
        # several scanner-hostile strings in ONE file, in every order (args) and spread over args / env / extras
        import itertools
        four = ["C:\\data\\", "http://host/p", "/* c */", 'say \"q\" // x']
        for i, perm in enumerate(itertools.permutations(four)):
            dd = {"mcpServers": {"s": {"command": "@W0", "args": list(perm)}}}
            out.append({"entry": ENTRIES[i % 4] if i % 6 == 0 else "loader", "file": "ok", "doc": dd, "names": ["s"], "expect": "valid",
                        "style": ("ascii", "spaced", "crlf")[i % 3]})
        for i, perm in enumerate(itertools.permutations(four[:3])):
            dd = {"mcpServers": {"a": {"command": "@W0", "args": [perm[0]], "env": {"URL": perm[1], "DIR": perm[2]}, "note": four[3]},
                                 "b": {"command": "@W1", "env": {"P": "a\\"}, "args": ["postgresql://u:p@h/db", "*/"]}},
                  "comment": "// top /* level */"}
            out.append({"entry": "runner" if i % 2 else "cliTest", "file": "ok", "doc": dd, "names": ["a", "b"] if i % 2 else ["a"],
                        "expect": "valid", "style": ("compact", "pretty-utf8")[i % 2]})
        for st in range(13):                              # every hostile command path through every entry point
            out.append({"entry": ENTRIES[st % 4], "file": "ok", "doc": d1, "names": ["a", "b"] if ENTRIES[st % 4] == "runner" else ["b"],
                        "expect": "valid", "cmdstyle": st})
        for lg in ("names", "modules", "transport", "asyncgen"):
            out.append({"entry": "loader", "file": "ok", "doc": d1, "names": ["b"], "expect": "valid", "legacy": lg})
        out.append({"entry": "runner", "file": "ok", "doc": d3, "names": ["p", "q"], "expect": "valid", "legacy": "names"})
        d7 = {"mcpServers": dict(d3["mcpServers"], bx={"command": "@X0"}, bn={"command": "@N1", "args": ["a"], "env": {"FOO": "1"}})}
        for names in (["bx", "p"], ["p", "bx"], ["p", "bn", "q"], ["bx", "p", "bn", "q"], ["p", "q", "bx", "bn"], ["bn", "bx", "r"]):
            out.append({"entry": "runner", "file": "ok", "doc": d7, "names": names, "expect": "valid", "unspawnable": "directed"})
        for names in (["p", "nosuch"], ["nosuch", "p"], ["p", "nosuch", "q"], ["nosuch", "p", "nosuch", "q", "ghost"], ["p", "nosuch", "nosuch"]):
            out.append({"entry": "runner", "file": "ok", "doc": d3, "names": names, "expect": "valid", "mixed": "directed"})
        for cf in ("interactive_mode", "chat_run", "raises"):
            out.append({"entry": "runner", "file": "ok", "doc": d3, "names": ["q", "p", "r"], "expect": "valid", "cmdfunc": cf,
                        "user_specified": ["p"], "repeat": 2 if cf == "chat_run" else 1})
        out += malformed_stream(rng, d0, budget)
        if budget != "quick":
            out += malformed_stream(rng, d1, budget)
        nconf = {"quick": 32, "thorough": 400, "search": 120}[budget]
        for i in range(nconf):
            if i % 5 == 4:
                doc, bare = gen_bare_doc(rng)
                out += [decorate(rng, c) for c in valid_cases(rng, doc, bare)]
                continue
            doc = gen_doc(rng)
            out += [decorate(rng, c) for c in valid_cases(rng, doc)]
            if i % 3 == 0:
                out += [decorate(rng, c) for c in mixed_runner_cases(rng, doc, 2 if budget == "quick" else 6)]
            if i % 3 == 1:
                out += [decorate(rng, c) for c in unspawnable_runner_cases(rng, doc, 2 if budget == "quick" else 6)]
            if budget == "quick":
                if i < 6:
                    out += [decorate(rng, c) for c in malformed_cases(rng, doc)]
            elif i % 4 == 0:
                out += [decorate(rng, c) for c in malformed_cases(rng, doc)]
        cov = {}
        for c in out:
            for k in ("style", "cfgname", "main_mode", "cmdfunc", "verbose", "repeat", "legacy", "logging", "stdout", "cmdstyle"):
                if k in c:
                    cov[f"{k}={c[k]}"] = cov.get(f"{k}={c[k]}", 0) + 1
            if "witness_mode" in c:
                key = "witness=" + "+".join(c["witness_mode"].get("caps", [])) + "/" + c["witness_mode"].get("lists", "-")
                cov[key] = cov.get(key, 0) + 1
            if "user_specified" in c:
                cov["user_specified=given"] = cov.get("user_specified=given", 0) + 1
            if "host_env" in c:
                cov["host_env"] = cov.get("host_env", 0) + 1
        ctx.notes.append("usage coverage: " + ", ".join(f"{k}:{v}" for k, v in sorted(cov.items())))
        return out

    def impl_batch(self, cases):
        obs = H.run_cases(cases)
        self._last = {id(c): o for c, o in zip(cases, obs)}
        return obs

    # -- model -------------------------------------------------------------------------
    def model_line(self, case):
        o = getattr(self, "_last", {}).get(id(case))
        if o is None:
            return None
        if case["file"] == "ok":
            f = {"k": "json", "v": model_doc(case["doc"])}
        elif case["file"] == "missing":
            f = {"k": "missing"}
        else:
            f = {"k": "invalid"}
        entry = "cliTest" if case["entry"] == "cliMain" else case["entry"]
        return {"m": "config", "entry": entry, "file": f, "names": case["names"], "dflt": dflt_of(o),
                "files": model_files(case)}

    def compare(self, case, o, m):
        if o.get("hang"):
            return "entry point did not return"
        a = sorted(_launch_key(l) for l in drop_unresolvable(case, o["launches"], dflt_of(o)))
        b = sorted(_launch_key({"cmd": _model_cmd(l["argv"][0]), "argv": l["argv"][1:], "env": l["env"]}) for l in m["launches"]
                   for _ in range(case.get("repeat", 1)))
        if a != b:
            return "launches differ"
        if any(l["handshake"] for l in m["launches"]) != any(l["init"] for l in o["launches"]) or \
                not all(l["init"] for l in o["launches"]):
            return "initialize differs"
        if case["entry"] == "loader":
            # the exception class that reaches the caller of the loader
            r = o["raised"]
            want = m["raised"]
            flag = {"FileNotFoundError": "fnf", "JSONDecodeError": "jsondecode", "ValueError": "value"}.get(want)
            if want is None:
                if r is not None:
                    return "loader raised, model does not"
            elif flag is None:
                return None  # outside the property: the model does not fix the class
            elif r is None or not r[flag]:
                return "exception class differs"
            # what load_config returned
            ld = m["load"]
            if "err" not in ld:
                ret = o.get("ret") or {}
                if (ret.get("command"), ret.get("args"), ret.get("env")) != (_model_cmd(ld["command"]), ld["args"], ld["env"]):
                    return "load_config parameters differ"
                mt = None if ld["timeout"] is None else float(ld["timeout"])
                if ret.get("timeout") != mt:
                    return "load_config timeout differs"
        return None

    # -- property oracle (implementation observation + configuration document only) -------
    def oracle(self, case, o):
        e = case["entry"]
        if o.get("hang"):
            return (f"hang/{e}", f"{e} did not return within {H.ENTRY_TIMEOUT_S + 30:.0f} s", None)
        if case["expect"] == "valid":
            want = expected_launches(case, dflt_of(o)) * case.get("repeat", 1)
            got = drop_unresolvable(case, o["launches"], dflt_of(o))
            wk = sorted(_launch_key(l) for l in want)
            gk = sorted(_launch_key(l) for l in got)
            if wk != gk:
                # one launch per requested server name, as a multiset: match what can be matched exactly
                rest_w, rest_g = list(want), list(got)
                for w in list(rest_w):
                    for g in rest_g:
                        if _launch_key(g) == _launch_key(w):
                            rest_w.remove(w)
                            rest_g.remove(g)
                            break
                names_w = [n for n, w in zip(case["names"] * case.get("repeat", 1), want) if any(w is x for x in rest_w)]
                if got and len(got) < len(want) and not rest_g and all(
                        any(g["cmd"] == w["cmd"] and g["argv"] == w["argv"] for g in got) for w in rest_w):
                    return (f"merged-launch/{e}", f"{e}: {len(want)} servers requested, {len(got)} launched; {names_w} share "
                            f"command and args with a launched server and were never launched with their own environment",
                            {"launches": want})
                if len(got) < len(want) and len(rest_g) < len(rest_w):
                    return (f"not-launched/{e}", f"{e}: {len(want)} servers requested, {len(got)} launched; no launch for "
                            f"{names_w} (exception: {(o['raised'] or {}).get('name')})", {"launches": want})
                if len(got) > len(want) and not rest_w:
                    return (f"extra-launch/{e}", f"{e}: {len(got)} launches for {len(want)} requested servers; "
                            f"extra: {[l['cmd'] for l in rest_g]}", {"launches": want})
                # same number (or both sides unmatched): pair the leftovers by command and say what differs
                for w in rest_w:
                    g = next((l for l in rest_g if l["cmd"] != w["cmd"] and l["argv"] == w["argv"] and l["env"] == w["env"]), None)
                    if g is not None:
                        return (f"wrong-executable/{e}", f"{e}: the configuration selects {w['cmd']} (command looked up in the "
                                f"child's own environment), but {g['cmd']} was executed with its arguments and environment",
                                {"launches": want})
                    g = next((l for l in rest_g if l["cmd"] == w["cmd"] and l["argv"] == w["argv"]), None) \
                        or next((l for l in rest_g if l["cmd"] == w["cmd"]), None)
                    if g is None:
                        return (f"not-launched/{e}", f"{e}: no launch of {w['cmd']} for {names_w} "
                                f"(launched: {sorted(l['cmd'] for l in got)})", {"launches": want})
                    if g["argv"] != w["argv"]:
                        return (f"wrong-argv/{e}", f"{e}: child saw argv {g['argv']!r}, configured {w['argv']!r}", {"launches": want})
                    diff = {k: (g["env"].get(k), w["env"].get(k)) for k in sorted(set(g["env"]) | set(w["env"]))
                            if g["env"].get(k) != w["env"].get(k)}
                    return (f"wrong-env/{e}", f"{e}: child environment differs from the configured one "
                            f"(keys seen {sorted(g['env'])}, wanted {sorted(w['env'])}; (seen, wanted) of "
                            f"{ {k: (str(a)[:40] if a is not None else None, str(b)[:40] if b is not None else None) for k, (a, b) in list(diff.items())[:3]} })",
                            {"launches": want})
                return (f"extra-launch/{e}", f"{e}: launches {[l['cmd'] for l in rest_g]} not asked for", {"launches": want})
            if e == "runner" and isinstance(o.get("ret"), dict) and o["ret"].get("n") is not None \
                    and case.get("cmdfunc", "plain") != "never" and case.get("repeat", 1) == 1:
                if o["ret"]["n"] != len(want):
                    return (f"wrong-connection-count/{e}", f"{e}: the command function was handed {o['ret']['n']} connection(s) "
                            f"for {len(want)} loadable server(s) among {case['names']!r}", {"connections": len(want)})
            if e == "runner" and isinstance(o.get("ret"), dict) and o["ret"].get("n") == len(want) and want \
                    and case.get("repeat", 1) == 1 and o["ret"].get("pings") != [True] * len(want):
                return (f"command-lost-connection/{e}", f"{e}: the command function could not use all of its {len(want)} connection(s) "
                        f"(pings {o['ret'].get('pings')}) for {case['names']!r}", {"pings": [True] * len(want)})
            noinit = [l["cmd"] for l in got if not l["init"]]
            if noinit:
                return (f"no-initialize/{e}", f"{e}: launched {noinit} but never sent initialize", {"launches": want})
            if e == "loader" and o["raised"] is not None and want:
                return (f"raised/{e}", f"{e} raised {o['raised']['name']} on a valid configuration", None)
            return None
        # configuration errors: nothing may be launched; the loader raises the documented class
        if o["launches"]:
            return (f"launch-on-config-error/{e}", f"{e}: launched {[l['cmd'] for l in o['launches']]} although the "
                    f"configuration error is {case['expect']}", {"launches": []})
        if e == "loader":
            flag, cls = {"missing": ("fnf", "FileNotFoundError"), "invalid-json": ("jsondecode", "json.JSONDecodeError"),
                         "unknown": ("value", "ValueError")}[case["expect"]]
            r = o["raised"]
            if r is None or not r[flag]:
                return (f"error-class/{case['expect']}", f"load_config on {case['expect']} configuration "
                        f"{'returned' if r is None else 'raised ' + r['name']}; documented: {cls}", {"raised": cls})
        return None

    def kind(self, case, o):
        if case["expect"] != "valid":
            return f"{case['entry']}/{case['expect']}"
        known = [n for n in case["names"] if n in case["doc"]["mcpServers"]]
        sc = case["doc"]["mcpServers"][known[0]] if known else {}
        env = "absent" if "env" not in sc else ("null" if sc["env"] is None else "empty" if not sc["env"] else "values")
        t = sc.get("timeout")
        tk = ("absent" if "timeout" not in sc else "null") if t is None else type(t).__name__ + ("0" if t in (0, "0", "0.0") else "")
        if case.get("unspawnable"):
            return f"runner/unspawnable-{case['unspawnable']}/{len(known)}-named"
        if case.get("mixed"):
            return f"runner/mixed-{case['mixed'] if case['mixed'] != 'directed' else 'directed'}/{len(known)}of{len(case['names'])}-loadable"
        fam = "/bare" if case.get("bare") else ("/family" if is_family(case["doc"]) else "")
        e = case["entry"]
        if e == "cliMain":
            e += ":" + case.get("main_mode", "explicit")
        elif e == "runner" and case.get("cmdfunc", "plain") != "plain":
            e += ":" + case["cmdfunc"]
        elif e == "cliTest" and case.get("witness_mode"):
            e += ":caps-" + case["witness_mode"].get("lists", "-")
        return f"{e}/valid/env-{env}/timeout-{tk}{fam}{'/x%d' % case['repeat'] if case.get('repeat', 1) > 1 else ''}"

    def nontrivial(self, case, o):
        return case["expect"] == "valid"

    def shrink_candidates(self, case):
        for k in ("cmdstyle", "logging", "stdout", "legacy", "host_env", "repeat", "witness_mode", "verbose", "user_specified", "cmdfunc", "style", "cfgname", "cfgdir"):
            if k in case and not (k == "cfgname" and case.get("main_mode") == "discover"):
                yield {a: b for a, b in case.items() if a != k}
        if case.get("main_mode") not in (None, "explicit"):
            yield dict({a: b for a, b in case.items() if a != "cfgname"}, main_mode="explicit")
        if case["entry"] == "cliMain":
            yield dict({a: b for a, b in case.items() if a != "main_mode"}, entry="cliTest")
        if case["file"] != "ok":
            return
        doc = case["doc"]
        servers = doc.get("mcpServers", {})

        def with_doc(d, names=None):
            c = dict(case, doc=d)
            if names is not None:
                c["names"] = names
            return c

        # fewer named servers, then drop the ones not named
        if len(case["names"]) > 1:
            for i in range(len(case["names"])):
                yield dict(case, names=case["names"][:i] + case["names"][i + 1:])
        for n in list(servers):
            if n not in case["names"]:
                yield with_doc(dict(doc, mcpServers={k: v for k, v in servers.items() if k != n}))
        for k in list(doc):
            if k != "mcpServers":
                yield with_doc({a: b for a, b in doc.items() if a != k})
        for n in case["names"]:
            sc = servers.get(n)
            if not isinstance(sc, dict):
                continue
            for k in list(sc):
                if k == "env" and is_family(doc):
                    continue  # keep what tells the relatives apart
                if k != "command":
                    yield with_doc(dict(doc, mcpServers=dict(servers, **{n: {a: b for a, b in sc.items() if a != k}})))
            args = sc.get("args") or []
            for i in range(len(args)):
                yield with_doc(dict(doc, mcpServers=dict(servers, **{n: dict(sc, args=args[:i] + args[i + 1:])})))
            env = sc.get("env") or {}
            if len(env) > 1:
                for k in env:
                    yield with_doc(dict(doc, mcpServers=dict(servers, **{n: dict(sc, env={a: b for a, b in env.items() if a != k})})))
            if n != "s":
                if "s" not in servers:
                    d2 = {("s" if k == n else k): v for k, v in servers.items()}
                    yield with_doc(dict(doc, mcpServers=d2), ["s" if x == n else x for x in case["names"]])


# =============================================================================== supplementary: the default environment
INHERITABLE = ["HOME", "LOGNAME", "PATH", "SHELL", "TERM", "USER", "APPDATA", "HOMEDRIVE", "HOMEPATH", "LOCALAPPDATA",
               "PROCESSOR_ARCHITECTURE", "SYSTEMDRIVE", "SYSTEMROOT", "TEMP", "USERNAME", "USERPROFILE"]
DECOYS = ["HOMEX", "Path", "path", "home", "PATH ", "LD_PRELOAD", "PYTHONPATH", "VERIF_SECRET", "AWS_SECRET_ACCESS_KEY",
          "LANG", "LC_ALL", "PWD", "_", "SHLVL", "TERMINFO", "USER_NAME", "LOG_LEVEL", "0", "ENV"]
PARENT_VALS = ["x", "/root", "/usr/bin:/bin", "", " ", "()", "() { :; }; echo pwned", " ()", "(", "(x)", "a()", "0",
               "false", "%s {0}", "ü\u2028", "x" * 5000, "=", "a=b"]


class HostEnv(Suite):
    """`get_default_environment()` against `Model.Host.defaultEnv` (name lists regenerated from the source).
    SUPPLEMENTARY: what the library's default environment contains is the library's definition, not part of the
    property text; a difference here is reported in the evidence notes, not as a violation."""
    name = "hostenv"
    supplementary = True

    def cases(self, ctx, budget):
        rng = ctx.sub_rng("c20-hostenv", budget)
        n = {"quick": 300, "thorough": 6000, "search": 600}[budget]
        out = [{"parent": {}, "win32": False}, {"parent": {}, "win32": True},
               {"parent": {k: "v" for k in INHERITABLE + DECOYS}, "win32": False},
               {"parent": {k: "v" for k in INHERITABLE + DECOYS}, "win32": True}]
        for v in PARENT_VALS:
            out.append({"parent": {k: v for k in INHERITABLE}, "win32": False})
        for _ in range(n):
            names = rng.sample(INHERITABLE, rng.randint(0, len(INHERITABLE))) + rng.sample(DECOYS, rng.randint(0, 6))
            out.append({"parent": {k: rng.choice(PARENT_VALS) for k in names}, "win32": rng.random() < 0.3})
        return out

    def impl_batch(self, cases):
        return H.run_hostenv_cases(cases)

    def model_line(self, case):
        return {"m": "host", "op": "env", "win32": bool(case.get("win32")), "parent": case["parent"]}

    def compare(self, case, o, m):
        return None if o["env"] == m["env"] else f"default environment {o['env']!r}, model {m['env']!r}"

    def kind(self, case, o):
        e = o.get("env") or {}
        barred = any(v.startswith("()") for v in case["parent"].values())
        return f"hostenv/{'win32' if case.get('win32') else 'posix'}/inherits{min(len(e), 3)}{'+' if len(e) > 3 else ''}{'/barred' if barred else ''}"

    def nontrivial(self, case, o):
        return bool(case["parent"])


# =============================================================================== supplementary: the command line
CLI_DEFAULT_LOCS = ["cwd:server_config.json", "cwd:mcp_config.json", "cwd:config.json", "home:.config/mcp/config.json",
                    "home:.mcp_config.json"]
CLI_ABS = ["abs:custom.json", "abs:my conf.json", "abs:conf %s {0}.json", "abs:sub/dir/c.json"]
CLI_SERVERS = ["sqlite", "db", "my server", "服务", "0", "server", "config", "x=y", "a b=c"]


def _cli_doc(names, w0):
    return {"mcpServers": {n: {"command": f"@W{w0 + i}", "args": [n]} for i, n in enumerate(names)}}


def gen_cli_case(rng):
    present, w = {}, 0
    locs = rng.sample(CLI_DEFAULT_LOCS, rng.choice([0, 1, 1, 2, 3])) + rng.sample(CLI_ABS, rng.choice([1, 2]))
    names = ["sqlite"] + rng.sample(CLI_SERVERS[1:], 2)
    for loc in locs:
        present[loc] = _cli_doc(names, w)
        w += len(names)
    abs_locs = [l for l in locs if l.startswith("abs:")]
    intent_cfg = rng.choice(abs_locs + [None, None, "abs:absent.json", "abs:no/such/dir/c.json"])   # the last two do not exist
    intent_srv = rng.choice(names + [None])
    toks = []

    def opt(name, value):
        form = rng.choice(["long", "short", "eq"])
        long_, short = {"config": ("--config", "-c"), "server": ("--server", "-s")}[name]
        if form == "eq":
            return [f"{long_}={value}"]
        return [long_ if form == "long" else short, value]

    groups = []
    # earlier occurrences that a later one overrides
    for _ in range(rng.choice([0, 0, 1, 2])):
        groups.append(opt("server", rng.choice(names + ["ghost"])))
    for _ in range(rng.choice([0, 0, 1])):
        groups.append(opt("config", "@ABS/" + rng.choice(CLI_ABS).split(":", 1)[1]))
    rng.shuffle(groups)
    final = []
    if intent_cfg is not None:
        final.append(opt("config", "@ABS/" + intent_cfg.split(":", 1)[1]))
    elif any(g[0].startswith(("--config", "-c")) for g in groups) or rng.random() < 0.2:
        final.append(opt("config", ""))                       # an empty --config: back to discovery
    if intent_srv is not None:
        final.append(opt("server", intent_srv))
    elif any(g[0].startswith(("--server", "-s")) for g in groups):
        intent_srv = "sqlite"
        final.append(opt("server", "sqlite"))
    rng.shuffle(final)
    for g in groups + final:
        toks += g
    flags = []
    if rng.random() < 0.3:
        flags.append(rng.choice(["-v", "--verbose"]))
    listing = rng.random() < 0.12
    if listing:
        flags.append(rng.choice(["-l", "--list-servers"]))
    for f in flags:
        toks.insert(rng.randint(0, len(toks)) if not toks else rng.choice([0, len(toks)]), f)
    broken = None
    r = rng.random()
    if r < 0.06:
        toks.append(rng.choice(["--server", "-c"]))
        broken = "missing-value"
    elif r < 0.10:
        toks.insert(0, rng.choice(["--frobnicate", "positional", "--server-name=x"]))
        broken = "unknown"
    return {"argv": toks, "present": present,
            "intent": {"config": intent_cfg, "server": intent_srv or "sqlite", "list": listing, "broken": broken}}


class Cli(Suite):
    """`__main__.main()` driven through `sys.argv` in a scratch cwd / HOME, against `Model.Host.act` + `cliLaunch`
    (option table, defaults and default locations regenerated from the source)."""
    name = "cli"
    supplementary = True

    def cases(self, ctx, budget):
        rng = ctx.sub_rng("c20-cli", budget)
        doc = _cli_doc(["sqlite", "db"], 0)
        out = [
            {"argv": [], "present": {"cwd:config.json": doc, "home:.mcp_config.json": _cli_doc(["sqlite", "db"], 2)},
             "intent": {"config": None, "server": "sqlite", "list": False, "broken": None}},
            {"argv": ["--server", "db"], "present": {l: _cli_doc(["sqlite", "db"], 2 * i) for i, l in enumerate(CLI_DEFAULT_LOCS)},
             "intent": {"config": None, "server": "db", "list": False, "broken": None}},
            {"argv": ["-s", "db"], "present": {"home:.mcp_config.json": doc, "home:.config/mcp/config.json": _cli_doc(["sqlite", "db"], 2)},
             "intent": {"config": None, "server": "db", "list": False, "broken": None}},
            {"argv": ["--server", "db"], "present": {"abs:custom.json": doc},
             "intent": {"config": None, "server": "db", "list": False, "broken": None}},          # nothing to discover
            {"argv": ["-c", "@ABS/custom.json", "--config", "", "-s", "db"], "present": {"abs:custom.json": doc, "cwd:mcp_config.json": _cli_doc(["db"], 2)},
             "intent": {"config": None, "server": "db", "list": False, "broken": None}},
            {"argv": ["--config=@ABS/my conf.json", "--server=my server", "-v"], "present": {"abs:my conf.json": _cli_doc(["my server"], 0)},
             "intent": {"config": "abs:my conf.json", "server": "my server", "list": False, "broken": None}},
            {"argv": ["-l", "-c", "@ABS/custom.json"], "present": {"abs:custom.json": doc},
             "intent": {"config": "abs:custom.json", "server": "sqlite", "list": True, "broken": None}},
            {"argv": ["-c", "@ABS/custom.json", "-s", "nope"], "present": {"abs:custom.json": doc},
             "intent": {"config": "abs:custom.json", "server": "nope", "list": False, "broken": None}},
            {"argv": ["-c", "@ABS/custom.json"], "present": {"abs:custom.json": None},
             "intent": {"config": "abs:custom.json", "server": "sqlite", "list": False, "broken": None}},
        ]
        # the NAMED configuration is missing while every default location holds a decoy that names a witness
        decoys = {l: _cli_doc(["sqlite", "db"], 2 * i) for i, l in enumerate(CLI_DEFAULT_LOCS)}
        for argv in (["--config", "@ABS/absent.json"], ["-c", "@ABS/absent.json", "-s", "db"], ["--config=@ABS/no/dir/x.json", "-v"],
                     ["-s", "db", "--config", "server_config.json.bak"], ["-c", "@ABS/absent.json", "--list-servers"]):
            cfg = next(a for a in argv if "json" in a).split("=")[-1]
            out.append({"argv": argv, "present": decoys,
                        "intent": {"config": "abs:" + cfg.replace("@ABS/", ""), "server": "db" if "db" in argv else "sqlite",
                                   "list": "--list-servers" in argv, "broken": None}})
        listing = {"config": "abs:custom.json", "server": "sqlite", "list": True, "broken": None}
        out += [
            {"argv": ["-l", "-c", "@ABS/custom.json"], "present": {"abs:custom.json": None}, "intent": listing},          # not JSON
            {"argv": ["--list-servers", "--config", "@ABS/custom.json"], "present": {"abs:my conf.json": doc}, "intent": listing},  # missing
            {"argv": ["-l", "-c", "@ABS/custom.json"], "present": {"abs:custom.json": {"mcpServers": {}}}, "intent": listing},
            {"argv": ["-l", "-c", "@ABS/custom.json"], "present": {"abs:custom.json": {"servers": 1}}, "intent": listing},
        ]
        n = {"quick": 40, "thorough": 600, "search": 150}[budget]
        out += [gen_cli_case(rng) for _ in range(n)]
        for i, c in enumerate(out):
            if i % 2:
                c["via"] = "run"
        return out

    def impl_batch(self, cases):
        obs = H.run_cli_cases(cases)
        self._last = {id(c): o for c, o in zip(cases, obs)}
        return obs

    def model_line(self, case):
        o = getattr(self, "_last", {}).get(id(case))
        if o is None:
            return None
        docs, files = {}, []
        for loc, doc in case["present"].items():
            docs[H._cli_model_path(loc)] = None if doc is None else model_doc(doc)
            files += [f"@D{i}/witness" for i in H.placeholders(doc or {})]
        return {"m": "host", "op": "cli", "argv": case["argv"], "existing": list(docs), "home": "@HOME", "docs": docs,
                "dflt": dflt_of(o), "files": files}

    def compare(self, case, o, m):
        a = sorted(_launch_key(l) for l in o["launches"])
        b = sorted(_launch_key({"cmd": _model_cmd(l["argv"][0]), "argv": l["argv"][1:], "env": l["env"]}) for l in m["launches"])
        want_exit = {"usage": [2], "no-config": [1], "list": ["returned", 0, 1], "test": [0, 1]}[m["action"]]
        if a != b:
            return f"launches differ (model action {m['action']})"
        if o["exit"] not in want_exit:
            return f"exit status {o['exit']!r}, model action {m['action']}"
        return None

    def oracle(self, case, o):
        it = case["intent"]
        got = o["launches"]
        if it["broken"] or it["list"]:
            if got:
                return ("cli-launch-without-request", f"command line {case['argv']!r} "
                        f"({'malformed' if it['broken'] else 'asks for the server list'}) launched {[l['cmd'] for l in got]}", {"launches": []})
            return None
        if it["config"] is not None:
            cands = [it["config"]]
        else:
            cands = [l for l in case["present"] if not l.startswith("abs:")]
        allowed = []
        for loc in cands:
            sc = (case["present"].get(loc) or {}).get("mcpServers", {}).get(it["server"])
            if sc:
                allowed.append({"cmd": sc["command"], "argv": sc.get("args", [])})
        if not got:
            # the selected file may be one that lacks the server (discovery takes ONE location): only an explicit
            # configuration that has the server must launch it
            if it["config"] is not None and allowed:
                return ("cli-not-launched", f"command line {case['argv']!r}: server {it['server']!r} of {it['config']} was not launched "
                        f"(exit {o['exit']})", {"launches": allowed})
            return None
        if len(got) > 1 or {"cmd": got[0]["cmd"], "argv": got[0]["argv"]} not in allowed:
            return ("cli-wrong-launch", f"command line {case['argv']!r} names server {it['server']!r} in "
                    f"{it['config'] or 'a default location'}; launched {[(l['cmd'], l['argv']) for l in got]}", {"launches": allowed})
        return None

    def kind(self, case, o):
        it = case["intent"]
        forms = "".join(sorted({("e" if "=" in t and t.startswith("--") else "l" if t.startswith("--") else "s")
                                for t in case["argv"] if t.startswith("-") and len(t) > 1}))
        what = "broken-" + it["broken"] if it["broken"] else "list" if it["list"] else             ("explicit" if it["config"] else "discover%d" % sum(1 for l in case["present"] if not l.startswith("abs:")))
        return f"cli/{what}/forms-{forms or 'none'}/exit-{o['exit']}"

    def nontrivial(self, case, o):
        return bool(case["argv"])

    def shrink_candidates(self, case):
        argv = case["argv"]
        for i in range(len(argv)):
            yield dict(case, argv=argv[:i] + argv[i + 1:])
        for loc in list(case["present"]):
            yield dict(case, present={k: v for k, v in case["present"].items() if k != loc})


def suites():
    return [Entry(), HostEnv(), Cli()]
