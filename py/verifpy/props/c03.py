"""C03 — client initialization never settles on a protocol version it did not offer."""
from __future__ import annotations

import itertools

from .. import version_h as V
from ..core import canon
from ..runner import Suite

MANIFEST = dict(
    text="Lean 4 theorems about a model of send_initialize / send_initialize_with_client_tracking taking the supported list as a parameter (arbitrary lists, preferred versions and answers: any version string, a result that does not validate, a JSON-RPC error of any integer code, silence): the proposal is the preferred version if listed else the first entry; the call succeeds only with an answered version of the list and returns it; a version string outside the list raises the mismatch error; on success the transcript is exactly request, answer, one initialized notification; on every other outcome no initialized notification is written; a tracked client's batch mode is supports_batching (regenerated if-chain) of the returned version. Instantiated with SUPPORTED_VERSIONS regenerated from source. Correspondence: exhaustive product of supported lists (length <=3 over 3 real + 3 invented versions) x preferred x answers through the real functions over anyio memory streams with a scripted peer under a virtual-time loop.",
    note="Trusted: Lean kernel, the translator for SUPPORTED_VERSIONS and the supports_batching if-chain, the correspondence harness and virtual-time loop; Pydantic validation of the result (which shapes count as malformed) and anyio stream semantics are sampled, not proved. A malformed result is only required not to succeed and not to be followed by the notification, not to raise the mismatch class.",
    technique="Lean 4 proof over a parametric model + constants regenerated from source + exhaustive differential correspondence run under virtual time",
    design="5/C03",
)
GEN = ["Versions"]
SUPP_GEN = ["VersionLib"]
SUPP_THEOREMS = ["c03_helpers_are_aliases"]  # Props/C03Supp.lean: INFO only
THEOREMS = [
    "c03_translated",
    "c03_proposed_spec",
    "c03_proposed_offered",
    "c03_success_only_offered",
    "c03_mismatch_on_foreign_version",
    "c03_initialized_exactly_once_on_success",
    "c03_no_initialized_on_failure",
    "c03_outcome_total",
    "c03_tracking_mode",
    "c03_success_implies_handed",
    "c03_stalled_writer_never_success",
    "c03_handed_only_on_success",
    "c03_refusing_writer_never_success",
    "c03_sequence_each_call_fresh",
    "c03_connections_independent",
    "c03_default_list",
]
RULE = (
    "product of non-empty ordered supported lists of length<=3 over {3 real, 3 invented versions} (plus the caller passing no list) x "
    "preferred in {each universe member, absent, a version in no list, ''} x answers {each universe member, an outside version, '', a "
    "whitespace twin, 14 malformed result shapes, JSON-RPC errors of every named code of types/errors.py + samples x messages with and "
    "without the words 'protocol version', silence}; quick: all version answers + silence for every (list, preferred) over all lists of length<=2 and "
    "68 seeded lists of length 3, with a seeded rotation of malformed/error answers, thorough: the full product; a hardening block "
    "(falsy / twin / source-constant / format-hostile versions and error texts, falsy results and error data, peers that close either "
    "direction, duplicate answers, 1..300 foreign messages of 8 kinds before the answer, timeouts 0/1/2 ticks and answers one tick "
    "around every poll boundary and the deadline, 3 tie orders, tracking entry point without client / with a hook-less client); "
    "sequences of 2-3 calls on the same streams and tracked client, the same failure repeated 2-4 times then a success, 2-3 "
    "connections alive at once (alternately / concurrently); options x every failure mode, preferred versions and error members of "
    "every JSON type, the caller's stream objects raising every exception class (also one without a text) from each operation, "
    "text that looks like syntax; a third of all cases (every scenario kind at least once) with the root logger at DEBUG; real send_initialize(_with_client_tracking) under the "
    "virtual-time loop vs clientInit/trackedInit; slow-writer: the same call with a write stream of buffer 0 / 1 (full or empty) "
    "whose reader takes the notification 1, T-1, T, T+1, 2T ticks after answering or never, vs clientInitW; non-trivial = distinct (list, preferred, answer, tracking)"
)
TRUSTED = [
    "Gen/Versions.lean regenerated from versioning.py (SUPPORTED_VERSIONS) and batching.py (if-chain of supports_batching)",
    "anyio memory streams / asyncio scheduling (sampled under the virtual-time loop)",
]
ASSUMPTIONS = [
    "supported lists are lists of versions: non-empty, no empty-string member (an empty preferred string counts as absent)",
    "the peer answers the initialize request at most once; C01 covers foreign traffic before the answer",
    "sent = the write stream's send completed (the item is with the write side: taken by its reader or in its buffer)",
    "supports_batching itself is C13's subject; here the tracked mode is compared with it",
]

PREFS = [None] + V.UNIVERSE + [V.OUTSIDE, ""]
TIES = ("events", "timers", "io")
AT_CHOICES = (1, 10, 511, 512, 513, 700, 1024, 2047)  # 512 / 1024: poll boundaries of _await_response; 2047: one tick before the deadline
RESULT_VARIANTS_CHEAP = ("extra", "falsy-members", "version-last", "hostile-members")
DEFAULT_D = 61440  # 60 s
VERSION_ANSWERS = V.UNIVERSE + [V.OUTSIDE, "", "2025-06-18 "]


def all_lists(maxlen=3, repetition=True):
    for n in range(1, maxlen + 1):
        if repetition:
            yield from (list(t) for t in itertools.product(V.UNIVERSE, repeat=n))
        else:
            yield from (list(t) for t in itertools.permutations(V.UNIVERSE, n))


def rpc_answers(full):
    """JSON-RPC error answers: every named code + samples + the integer constants of the anchored source (both signs) x messages
    with/without the words 'protocol version', falsy and format-hostile messages, falsy `data` members."""
    from chuk_mcp.protocol.types import errors as E

    strs, ints = V.harvest_constants()
    codes = list(dict.fromkeys(V.named_error_codes() + ints))
    library_texts = [m for m in getattr(E, "ERROR_MESSAGES", {}).values() if isinstance(m, str)]
    out = []
    for c in codes:
        for m in V.ERROR_MESSAGES[:3]:
            out.append({"k": "rpc", "code": c, "msg": m})
    for c in (-32602, -32008, 0):  # the code the client looks at, the library's own version-mismatch code, a falsy code
        for m in V.ERROR_MESSAGES[3:] + library_texts + V.HOSTILE_TEXT + [t for t in strs if "ersion" in t]:
            out.append({"k": "rpc", "code": c, "msg": m})
    for d in (0, "", [], {}, False, None, 0.0, {"protocol version": "x"}, "protocol version"):
        out.append({"k": "rpc", "code": -32602, "msg": "boom", "data": d})
        out.append({"k": "rpc", "code": -32602, "msg": "Unsupported protocol version", "data": d})
    seen, uniq = set(), []
    for a in out:
        key = canon(a)
        if key not in seen:
            seen.add(key)
            uniq.append(a)
    return uniq


def answer_version_string(ans):
    """the protocolVersion string the answer carries, if any"""
    if ans["k"] == "version":
        return ans["s"]
    if ans["k"] == "malformed":
        r = V.MALFORMED[ans["shape"]]
        if isinstance(r, dict) and isinstance(r.get("protocolVersion"), str):
            return r["protocolVersion"]
    return None


def other_backend(cases, share, ctx, name):
    """A share of the cases (by content hash) also against the library started WITHOUT Pydantic (MCP_FORCE_FALLBACK=1) in a worker
    process; messages of 100 kB and more are left out there (the fallback validator is slow)."""
    from ..core import sha

    out = [dict(c, backend="fallback") for c in cases if int(sha(c), 16) % share == 1 and len(canon(c)) < 20000]
    ctx.notes.append(f"{name}: {len(out)} of the cases also run in a worker process with MCP_FORCE_FALLBACK=1 (the library without Pydantic)")
    return out


class ClientInit(Suite):
    name = "client-init"

    def cases(self, ctx, budget):
        rng = ctx.sub_rng("c03", budget)
        malformed = [{"k": "malformed", "shape": s} for s in V.MALFORMED]
        rpcs = rpc_answers(full=True)
        versions = [{"k": "version", "s": s} for s in VERSION_ANSWERS]
        if budget == "quick":
            short = [l for l in all_lists(2)]
            l3 = [l for l in all_lists(3, repetition=False) if len(l) == 3]
            rep3 = [l for l in all_lists(3) if len(l) == 3 and len(set(l)) < 3]
            lists = short + rng.sample(l3, 60) + rng.sample(rep3, 8)
            ctx.exhaustive_parts.append(
                "client-init: every list of length<=2 (with repetition) over the 6-version universe (+ 68 seeded lists of length 3) "
                "x 9 preferred x {9 version answers, silence}")
        else:
            lists = list(all_lists(3))
            ctx.exhaustive_parts.append(
                "client-init: every list of length<=3 (with repetition) over the 6-version universe x 9 preferred x every answer")
        lists = [None] + lists
        out = []
        k = 0
        for sup in lists:
            for pref in PREFS:
                answers = list(versions) + [{"k": "silence"}]
                if budget == "quick" and sup is not None:
                    answers += rng.sample(malformed, 2) + rng.sample(rpcs, 3)
                elif sup is None or len(sup) == 1:
                    answers += malformed + rpcs
                else:
                    answers += malformed + rng.sample(rpcs, 60)
                for ans in answers:
                    k += 1
                    a = dict(ans)
                    if a["k"] == "version" and k % 3 == 0:
                        a["extra"] = RESULT_VARIANTS_CHEAP[(k // 3) % len(RESULT_VARIANTS_CHEAP)]
                    c = {"sup": sup, "pref": pref, "ans": a, "D": 2048,
                         "at": AT_CHOICES[k % len(AT_CHOICES)], "tie": TIES[(k // 4) % 3],
                         "track": k % 2 == 0}
                    if k % 17 == 0:
                        c["track"] = ("none", "bare")[(k // 17) % 2]  # tracking entry point without / with a hook-less client
                    if sup is None and ans["k"] in ("silence", "version") and pref in (None, "2024-11-05"):
                        c["D"] = None  # the default 60 s timeout: free under virtual time
                    out.append(c)
                    # success cases: both entry points
                    eff = sup if sup is not None else V.server_supported()
                    if ans["k"] == "version" and ans["s"] in eff and c["track"] in (True, False):
                        out.append(dict(c, track=not c["track"]))
        base = V.assign_debug(out + self.extras(rng, budget) + self.extras2(rng, budget), self.static_kind, ctx=ctx, name=self.name)
        return base + other_backend(base, 30 if budget == "quick" else 40, ctx, self.name)

    @classmethod
    def static_kind(cls, case):
        if "steps" in case:
            return ("seq", len(case["steps"]), case.get("conns"), bool(case.get("concurrent")),
                    tuple(s_["ans"]["k"] + ("/" + s_["raise_on"]["where"] if s_.get("raise_on") else "") for s_ in case["steps"]))
        ro = case.get("raise_on") or {}
        return (case["ans"]["k"], cls.entry(case), cls.scenario({k_: v_ for k_, v_ in case.items() if k_ != "debug"}), ro.get("where"), ro.get("cls"), case.get("wbuf"), bool(case.get("filler")),
                str(case.get("take")), type(case.get("pref")).__name__, bool(case.get("sup_tuple")), case.get("sup_kind"),
                type(case["ans"].get("code")).__name__, type(case["ans"].get("msg")).__name__)

    def extras2(self, rng, budget):
        """Hardening sweep 2 (classes C, E, F, G): options x every failure mode, caller- and peer-supplied positions of every JSON
        type, every exception class out of the caller's stream objects, text that looks like syntax."""
        from .c04 import SYNTAX_TEXT
        quick = budget == "quick"
        out = []
        k = 0

        def add(sup, pref, ans, **kw):
            nonlocal k
            k += 1
            c = {"sup": sup, "pref": pref, "ans": dict(ans), "D": 2048, "at": AT_CHOICES[k % len(AT_CHOICES)],
                 "tie": TIES[k % 3], "track": (True, False, True, False, "none", "bare")[k % 6]}
            c.update(kw)
            out.append(c)

        L = ["2025-06-18", "2025-03-26", "1999-12-31"]
        good, foreign = {"k": "version", "s": "2025-03-26"}, {"k": "version", "s": "2031-01-01"}
        failures = [foreign, {"k": "silence"}, {"k": "closed"}, {"k": "malformed", "shape": "version-zero"}, {"k": "malformed", "shape": "result-empty-list"},
                    {"k": "rpc", "code": -32602, "msg": "Unsupported protocol version"}, {"k": "rpc", "code": -32603, "msg": ""},
                    {"k": "rpc", "code": 0, "msg": None}]
        # C. every option at a non-default value x EVERY failure mode (and the success): timeout (incl. 0 / tiny / default), preferred
        #    version, caller's list vs none, tracking entry points, write side
        for sup in (None, L):
            for pref in (None, "2025-03-26", "1999-12-31", V.OUTSIDE, ""):
                for D in (None, 0, 1, 2, 512, 2048):
                    for ans in [good] + failures:
                        at = 1 if D in (None, 2, 512, 2048) else 10
                        for track in (True, False, "none", "bare"):
                            if quick and (k % 3) and track in ("none", "bare"):
                                k += 1
                                continue
                            add(sup, pref, ans, D=D, at=at, track=track)
                for ans in failures:
                    add(sup, pref, ans, wbuf=0, take=1)
                    add(sup, pref, ans, wbuf=1, filler=1, take=None)
                    add(sup, pref, ans, pref_none=pref is None, sup_tuple=sup is not None)
        # E. the preferred version of every JSON type (it is then simply not in the list); the list handed over as a tuple;
        #    error members of every JSON type
        for pref in (0, 7, 1.5, True, False, [], ["2025-06-18"], {}, {"v": 1}, "2025-06-18 ", "2025-06-18\n"):
            for sup in (None, L, ["1999-12-31"]):
                for ans in (good, {"k": "version", "s": sup[0] if sup else "2025-06-18"}, foreign, {"k": "silence"}):
                    add(sup, pref, ans)
        for sup in (L, ["1999-12-31"], ["2025-03-26", "2025-06-18"]):
            for pref in (None, sup[-1]):
                for ans in [good, {"k": "version", "s": sup[-1]}] + failures:
                    add(sup, pref, ans, sup_tuple=True)
        # ... and as every other sequence type the library accepts as the caller's list, through both entry points
        for kind in V.SEQUENCE_KINDS[1:]:
            for sup in (L, ["1999-12-31"], ["2024-11-05"], ["2024-10-07"], ["2025-03-26", "2025-06-18"]):
                for pref in (None, sup[-1], V.OUTSIDE):
                    for ans in [good, {"k": "version", "s": sup[-1]}, {"k": "version", "s": "2025-06-18"}] + failures[:3]:
                        for track in (True, False):
                            add(sup, pref, ans, sup_kind=kind, track=track)
        for code in ("-32602", -32602.0, True, False, None, [], {}, 2**70, -32602):
            for msg in ("protocol version", "boom", 7, None, [], {"protocol version": 1}, True, ""):
                add(L, None, {"k": "rpc", "code": code, "msg": msg})
        # F. the caller's stream objects raise — every exception class, also one whose text cannot be produced — from the send of the
        #    request, from the send of the notification, from receive
        for cls_ in V.EXC_CLASSES:
            for where in ("send-request", "send-notification", "receive"):
                for ans in (good, foreign, {"k": "rpc", "code": -32603, "msg": "boom"}):
                    for track in (True, False):
                        add(L, None, ans, raise_on={"where": where, "cls": cls_}, track=track, at=10)
        # N. declared members of the reply around its payload: "error": null next to a result, "result": null next to an error,
        #    "method": null, no "jsonrpc" member, members in unusual order with an extra one
        for envl in ("error-null", "method-null", "no-jsonrpc", "id-last"):
            for ans in (good, {"k": "version", "s": "1999-12-31"}, foreign):
                for track in (True, False):
                    add(L, None, dict(ans, envelope=envl), track=track)
        for envl in ("result-null", "id-last", "no-jsonrpc"):
            for ans in ({"k": "rpc", "code": -32602, "msg": "Unsupported protocol version"}, {"k": "rpc", "code": -32603, "msg": "boom"}):
                add(L, None, dict(ans, envelope=envl))
        # I. an answer far above every buffer (1 MB), with small foreign messages before it
        for ans in (good, foreign):
            add(L, None, dict(ans, extra="megabyte"), track=True)
            add(L, None, dict(ans, extra="megabyte"), noise=[["notif", 3]], wbuf=0, take=1)
        if not quick:
            add(L, None, good, noise=[["notif", 1000]], D=4096)
        # L. the caller's other task closes the write stream while the notification's send is pending (rendezvous write side)
        for ans in (good, foreign):
            for when in (1, 50):
                for track in (True, False):
                    add(L, None, ans, wbuf=0, take=None, self_close=when, track=track, at=10)
        # M. unusual spellings that compare unequal: BOM / zero-width characters around a listed version
        for v in ("\ufeff2025-06-18", "2025-06-18\ufeff", "2025\u200b-06-18", "2025-06-18\u200e", "２０２５-０６-１８"):
            add(L, None, {"k": "version", "s": v})
            add([v, "2025-06-18"], v, {"k": "version", "s": "2025-06-18"}, track=False)
            add([v, "2025-06-18"], None, {"k": "version", "s": v}, track=False)  # (the batching mode of non-ASCII digit spellings is C13's subject)
        # G. text that looks like syntax: as answered versions, as members of the caller's list, in error messages
        for t in SYNTAX_TEXT:
            add(L, None, {"k": "version", "s": t})
            add([t, "2025-06-18"], None, {"k": "version", "s": t}, track=True)
            add([t, "2025-06-18"], t, {"k": "version", "s": "2025-06-18"})
            add(["2025-06-18"], t, {"k": "version", "s": t})
            for code in (-32602, -32008):
                add(L, None, {"k": "rpc", "code": code, "msg": t})
                add(L, None, {"k": "rpc", "code": code, "msg": t + " (code: -32602) JSON-RPC Error: protocol version"})
        return out

    def extras(self, rng, budget):
        """Hardening sweep: falsy / twin / magic / format-hostile values, limits, rarely taken branches, unusual but valid peers,
        arrivals on every timer boundary — on a small set of lists, each dimension varied against a fixed rest."""
        strs, _ints = V.harvest_constants()
        quick = budget == "quick"
        lists = [None, ["2025-06-18"], ["2024-11-05", "2025-06-18"], ["unknown"], ["unknown", "2025-06-18"],
                 ["2025-06-17", "2025-06-19"], ["initialize", "protocolVersion", "protocol version"], ["2025-07-01", "None"]]
        if quick:
            lists = [None, ["2024-11-05", "2025-06-18"], ["unknown", "2025-06-18"], ["initialize", "protocolVersion", "protocol version"]]
        twins = ["2025-06-18\n", "2025-6-18", "２０２５-０６-１８", "2025-06-18\x00", " 2025-06-18", "2025-06-18\u2028", "2025-06-18\r",
                 "2025-06-18.0", "20250618", "True", "0", "false", "null", "None", "[]", "{}"]
        magic = list(strs) if not quick else rng.sample(strs, min(30, len(strs)))
        malformed = [{"k": "malformed", "shape": sh} for sh in V.MALFORMED]
        rpcs = rpc_answers(full=True)
        out = []
        k = 0

        def add(sup, pref, ans, **kw):
            nonlocal k
            k += 1
            c = {"sup": sup, "pref": pref, "ans": dict(ans), "D": 2048, "at": AT_CHOICES[k % len(AT_CHOICES)],
                 "tie": TIES[k % 3], "track": (True, False, True, False, "none", "bare")[k % 6]}
            c.update(kw)
            out.append(c)

        for sup in lists:
            eff = sup if sup is not None else V.server_supported()
            prefs = list(dict.fromkeys([None, eff[-1], ""] + ([] if quick else [V.OUTSIDE])))
            for pref in prefs:
                good = {"k": "version", "s": eff[-1]}
                foreign = {"k": "version", "s": "2031-01-01"}
                # every member of the list answered in every well-formed dressing; both tracked and not
                for v in eff:
                    for variant in V.RESULT_VARIANTS:
                        if variant == "long-instructions" and (quick and pref is not None):
                            continue
                        add(sup, pref, {"k": "version", "s": v, "extra": variant}, track=True)
                        add(sup, pref, {"k": "version", "s": v, "extra": variant}, track=False)
                # foreign answers: twins of listed versions, constants of the source, format-hostile text, falsy
                for v in twins + magic + V.HOSTILE_TEXT:
                    if quick and len(v) > 1000 and pref is not None:
                        continue
                    if v not in eff:
                        add(sup, pref, {"k": "version", "s": v, "extra": RESULT_VARIANTS_CHEAP[k % len(RESULT_VARIANTS_CHEAP)]})
                for a in malformed:
                    add(sup, pref, a)
                for a in (rpcs if (not quick or (pref is None and sup is None)) else rng.sample(rpcs, 40)):
                    add(sup, pref, a)
                # peers that close: the read side without answering / right after answering; the write side after answering
                add(sup, pref, {"k": "closed"})
                add(sup, pref, {"k": "closed"}, noise=[["notif", 2]])
                for a in (good, foreign, {"k": "rpc", "code": -32603, "msg": "boom"}):
                    add(sup, pref, a, close_read=True)
                    add(sup, pref, a, dup=True)
                    add(sup, pref, a, wbuf=0, take="refuses")
                # foreign traffic before the answer, up to and beyond the 100-slot buffers the transports use
                for kind in V.NOISE_KINDS:
                    for n in ((1, 100) if quick and pref is not None else ((1, 2, 99, 100, 101) if quick else (1, 2, 99, 100, 101, 300))):
                        for a in (good, foreign, {"k": "silence"}):
                            if quick and n > 1 and a is not good:
                                continue
                            add(sup, pref, a, noise=[[kind, n]], D=512, at=(1, 10, 100, 511)[k % 4])
                add(sup, pref, good, noise=[[kd, 1] for kd in V.NOISE_KINDS])
                # timeouts: zero / tiny / the answer one tick before and after the deadline and on every poll boundary
                for D, ats in ((0, (1, 10)), (1, (2, 10)), (2, (1, 3)), (512, (511, 513)), (513, (512, 514)), (1024, (1023, 1025)),
                               (2048, (511, 512, 513, 1023, 1024, 1025, 1536, 2047, 2049))):
                    for at in ats:
                        for tie in TIES:
                            for a in (good, foreign):
                                add(sup, pref, a, D=D, at=at, tie=tie)
                if sup is None and pref is None:
                    for at in (1, 512, 61439, 61441):  # the default 60 s timeout
                        for tie in TIES:
                            add(sup, pref, good, D=None, at=at, tie=tie)
        return out

    def impl_batch(self, cases):
        return V.run_split("run_client", cases)

    @staticmethod
    def model_answer(case):
        a = case["ans"]
        D = case.get("D")
        D = DEFAULT_D if D is None else D
        if a["k"] not in ("silence",) and case.get("at", 10) > D:
            return {"k": "silence"}  # whatever arrives after the deadline is not an answer
        if a["k"] == "version":
            return {"k": "version", "s": a["s"]}
        if a["k"] == "malformed":
            return {"k": "malformed"}
        if a["k"] == "rpc":
            return {"k": "rpc", "code": a["code"], "msg": a.get("msg")}
        return {"k": a["k"]}

    @staticmethod
    def model_pref(case):
        p = case.get("pref")
        return p if isinstance(p, str) else None  # a preferred version that is not a string is in no list of versions

    def model_line(self, case):
        a = case["ans"]
        if a["k"] == "rpc" and (type(a.get("code")) is not int or not (a.get("msg") is None or isinstance(a.get("msg"), str))):
            return None  # error members outside JSON-RPC's types: oracle only (no success, no notification)
        if case.get("self_close") is not None:
            # closing one's own end does not wake a send that is already pending on a rendezvous stream nobody reads: the call stays
            # pending (never a success) — the write side that never takes the notification
            return {"m": "version", "op": "clientw", "sup": case["sup"], "pref": self.model_pref(case), "ans": self.model_answer(case),
                    "take": None}
        ro = case.get("raise_on")
        if ro and (ro["where"] != "send-notification" or ro["cls"] == "TimeoutError"):
            return None  # the caller's own stream object fails before / while waiting: oracle only
        if ro:
            return {"m": "version", "op": "clientw", "sup": case["sup"], "pref": self.model_pref(case), "ans": self.model_answer(case),
                    "take": "refuses"}
        D = case.get("D")
        if case["ans"]["k"] != "silence" and case.get("at", 10) == (DEFAULT_D if D is None else D):
            return None  # an answer at the very instant of the deadline may go either way (C01): oracle only
        if case.get("take") == "refuses":
            return {"m": "version", "op": "clientw", "sup": case["sup"], "pref": self.model_pref(case), "ans": self.model_answer(case),
                    "take": "refuses"}
        return {"m": "version", "op": "client", "sup": case["sup"], "pref": self.model_pref(case), "ans": self.model_answer(case)}

    def compare(self, case, o, m):
        if o.get("harness"):
            return None
        if case.get("raise_on") and m["outcome"] == "transport" and o["outcome"] in ("stream-raised", "invalid", "transport"):
            o = dict(o, outcome="transport")  # whichever exception the caller's stream raised (or its failing text produced)
        if case["ans"]["k"] == "malformed" and m["outcome"] == "invalid" and o["outcome"] == "mismatch":
            o = dict(o, outcome="invalid")  # a result that does not validate may also surface as the mismatch class (a backend that
            # coerces the member to text): the property only asks that it is not a success and sends nothing
        if o["outcome"] != m["outcome"]:
            return "outcome class differs"
        if o["outcome"] == "ok" and (o.get("v") != m.get("v") or o.get("type") != "InitializeResult"):
            return "returned version differs"
        if o["outcome"] == "rpc" and o.get("code") != m.get("code"):
            return "error code differs"
        if canon(o["trace"]) != canon(m["trace"]):
            return "transcript differs"
        if case.get("track") is True and "tracked" in m and canon(o.get("tracked")) != canon(m.get("tracked")):
            return "tracked batching state differs"
        return None

    def oracle(self, case, o):
        if o.get("harness"):
            return None
        sup = case["sup"] if case["sup"] is not None else V.server_supported()
        pref = case["pref"]
        ans = case["ans"]
        trace = o["trace"]
        want_prop = pref if (isinstance(pref, str) and pref and pref in sup) else sup[0]
        inits = [e for e in trace if e["w"] == "initialize"]
        if (case.get("raise_on") or {}).get("where") == "send-request" and not trace and o["outcome"] != "ok":
            return None  # the caller's stream refused the request itself: nothing was written, nothing succeeded
        if len(inits) != 1 or not trace or trace[0]["w"] != "initialize" or any(e["w"] == "other" for e in trace):
            return ("request-count", f"writes are {canon([e for e in trace if e['w'] != 'answered'])}: not exactly one initialize "
                    f"request first", {"first": {"w": "initialize", "v": want_prop}})
        if inits[0].get("v") != want_prop:
            return ("proposed-version", f"supported {sup}, preferred {pref!r}: proposed {inits[0].get('v')!r}", {"proposed": want_prop})
        n_initd = sum(1 for e in trace if e["w"] == "initialized")
        if o["outcome"] == "ok":
            v = o.get("v")
            if not (isinstance(v, str) and v in sup):
                return ("settled-on-unoffered-version", f"supported {sup}: initialization succeeded with version {canon(v)}",
                        {"outcome": "mismatch"})
            s = answer_version_string(ans)
            if s is None or s != v:
                return ("returned-version-not-the-answer", f"answer {canon(ans)}: initialization returned version {v!r}",
                        {"v": s})
            want = [{"w": "initialize", "v": want_prop}, {"w": "answered"}, {"w": "initialized"}]
            if canon(trace) != canon(want):
                side = ""
                if "wbuf" in case:
                    side = (f" (write stream of buffer size {case['wbuf']}{' holding a foreign message' if case.get('filler') else ''}; the peer "
                            f"{'never takes the notification' if case.get('take') is None else ('closes that direction after answering' if case.get('take') == 'refuses' else 'takes the notification ' + str(case['take']) + ' ticks after answering')}; "
                            f"timeout {case['D']} ticks): what reached the write side is")
                return ("initialized-not-exactly-once", f"successful initialization{side} with transcript {canon(trace)}", {"trace": want})
            if case.get("track") is True:
                wt = {"v": v, "batching": V.real_supports_batching(v)}
                b = o.get("batch") or {}
                got = (o.get("tracked") or {}).get("batching")  # the mode is what the property names
                if got != wt["batching"] or b.get("processor") != wt["batching"] or b.get("can_batch") != wt["batching"]:
                    return ("tracked-mode", f"negotiated {v!r}: tracked client reports {canon(o.get('tracked'))} / {canon(b)}",
                            {"tracked": wt})
            return None
        if o["outcome"] == "blocked":
            return None  # the call has not returned: nothing is claimed yet
        # every non-success outcome
        if n_initd:
            return ("initialized-after-failure", f"answer {canon(ans)} ended in {o['outcome']} but the initialized notification was "
                    f"written ({canon(trace)})", {"initialized": 0})
        D = DEFAULT_D if case.get("D") is None else case["D"]
        if o["outcome"] == "blocked":
            return None
        if ans["k"] == "version" and ans["s"] not in sup and o["outcome"] != "mismatch" and case.get("at", 10) < D and not case.get("raise_on"):
            return ("foreign-version-not-mismatch", f"supported {sup}: answered version {ans['s']!r} ended in {o['outcome']} "
                    f"{o.get('exc', '')}", {"outcome": "mismatch"})
        return None

    def kind(self, case, o):
        a = case["ans"]
        sub = a["k"]
        if a["k"] == "version":
            sup = case["sup"] if case["sup"] is not None else V.server_supported()
            sub = "version-in-list" if a["s"] in sup else "version-foreign"
        return f"{sub}/{o.get('outcome')}/{self.entry(case)}{self.scenario(case)}"

    @staticmethod
    def entry(case):
        t = case.get("track")
        return {True: "tracked", False: "plain", None: "plain", "none": "tracking-entry-without-client",
                "bare": "tracking-entry-hookless-client"}[t]

    @staticmethod
    def scenario(case):
        """which rarely taken branch / unusual peer behaviour the case exercises (evidence distribution)"""
        tags = []
        for kind, n in case.get("noise") or []:
            tags.append(f"noise:{kind}x{n if n in (1, 2) else ('<=100' if n <= 100 else '>100')}")
        for f in ("dup", "close_read"):
            if case.get(f):
                tags.append(f)
        if case.get("take") == "refuses":
            tags.append("write-side-closed")
        D = case.get("D")
        if D is None:
            tags.append("default-timeout")
        elif D <= 2:
            tags.append(f"timeout-{D}-ticks")
        if D is not None and case.get("at", 10) > D and case["ans"]["k"] != "silence":
            tags.append("answer-after-deadline")
        x = case["ans"].get("extra")
        if x and x is not True and x != "extra":
            tags.append("result:" + x)
        if "data" in case["ans"]:
            tags.append("error-data")
        if case["ans"].get("envelope"):
            tags.insert(0, "envelope:" + case["ans"]["envelope"])
        if case.get("self_close") is not None:
            tags.insert(0, "write-stream-closed-by-another-task")
        if case.get("backend"):
            tags.insert(0, case["backend"])
        if case.get("raise_on"):
            cls_ = case["raise_on"]["cls"]
            tags.insert(0, "stream-raises:" + case["raise_on"]["where"] + ":" + (cls_ if cls_ in ("Unprintable", "TimeoutError") else "other-class"))
        if case.get("pref") is not None and not isinstance(case["pref"], str):
            tags.insert(0, "preferred:" + type(case["pref"]).__name__)
        if case.get("sup_tuple") or case.get("sup_kind"):
            tags.insert(0, "list-as-" + (case.get("sup_kind") or "tuple"))
        if case["ans"]["k"] == "rpc" and type(case["ans"].get("code")) is not int:
            tags.insert(0, "error-code:" + type(case["ans"].get("code")).__name__)

        dbg = [t for t in tags if t == "DEBUG-logging"]
        tags = [t for t in tags if t != "DEBUG-logging"][:2] + dbg
        return ("/" + "+".join(tags)) if tags else ""

    def shrink_candidates(self, case):
        sup = case["sup"]
        if sup is not None and len(sup) > 1:
            for i in range(len(sup)):
                yield dict(case, sup=sup[:i] + sup[i + 1:])
        if case["pref"] is not None:
            yield dict(case, pref=None)
        if case.get("track"):
            yield dict(case, track=False)
        for f in ("noise", "dup", "close_read", "prefill"):
            if case.get(f):
                yield {k: v for k, v in case.items() if k != f}
        a = case["ans"]
        if a.get("extra"):
            yield dict(case, ans={k: v for k, v in a.items() if k != "extra"})
        if a["k"] == "rpc" and a.get("msg") not in ("boom",):
            yield dict(case, ans=dict(a, msg="boom"))
        if case.get("at") != 10 or case.get("tie") != "events":
            yield dict(case, at=10, tie="events")
        if case.get("D") is None:
            yield dict(case, D=2048)


class BatchingGuard(Suite):
    """Translation validation of the tracked mode's ingredients: the model's `batchingOf parseDate`
    (regenerated if-chain behind hand-modelled guards) against the real supports_batching on the
    version strings this property drives and a grid of dates."""

    name = "batching-mode"

    def cases(self, ctx, budget):
        vs = list(VERSION_ANSWERS) + V.server_supported() + ["unknown", "None", "initialize", "protocolVersion", "protocol version",
                                                             "2025-06-17", "2025-06-19", "2025-07-01", "2025-06", "a-b-c", "2025-06-",
                                                             "-", "--", "2025--18", "0-0-0", "0000-00-00", "9999-99-99", "10000-01-01",
                                                             "2025-6-18", "2025-06-018", " 2025-06-18", "2025-06-18\n", "%s-%d-{}"]
        for y in (1999, 2024, 2025, 2026):
            for m in range(1, 13):
                for d in (1, 17, 18, 19, 28):
                    vs.append("%04d-%02d-%02d" % (y, m, d))
        return [{"v": v} for v in vs]

    def impl_batch(self, cases):
        return [{"batching": V.real_supports_batching(c["v"])} for c in cases]

    def model_line(self, case):
        return {"m": "version", "op": "batching", "v": case["v"]}

    def kind(self, case, o):
        v = case["v"]
        parts = v.split("-")
        if not v:
            br = "falsy-version"
        elif len(parts) != 3:
            br = "not-three-parts"
        else:
            try:
                y, m, d = (int(p) for p in parts)
                br = "year>2025" if y > 2025 else ("month>6" if (y == 2025 and m > 6) else ("day>=18" if (y == 2025 and m == 6 and d >= 18) else "earlier"))
            except ValueError:
                br = "int()-fails"
        return "batching-mode/" + br + "/" + ("on" if o["batching"] else "off")


class SlowWriter(ClientInit):
    """Write-side backpressure: the write stream is a rendezvous (buffer 0) or full (buffer 1 holding
    somebody else's message); the peer reads the request, answers, and takes the next item only `take`
    ticks later (around the caller's timeout T: T-1, T, T+1, 2T) or never.  A success must still have
    handed exactly one notification over before returning; otherwise the call must not be a success."""

    name = "slow-writer"

    def cases(self, ctx, budget):
        rng = ctx.sub_rng("c03-slow", budget)
        T = 256
        takes = [1, T - 1, T, T + 1, 2 * T, None]
        sides = [{"wbuf": 0, "filler": 0}, {"wbuf": 1, "filler": 1}, {"wbuf": 1, "filler": 0},
                 {"wbuf": 1, "filler": 1, "prefill": 1},  # the buffer is already full when the call starts: the request waits too
                 {"wbuf": 100, "filler": 99}, {"wbuf": 100, "filler": 100}, {"wbuf": 100, "filler": 100, "prefill": 100}]
        takes = takes + ["refuses"]
        lists = [None, ["2025-06-18", "1999-12-31"], ["2024-11-05"], ["draft-7", "2025-03-26", "2025-06-18"]]
        if budget != "quick":
            lists += [l for l in all_lists(2)]
        rpcs = rpc_answers(full=False)
        out = []
        k = 0
        for sup in lists:
            eff = sup if sup is not None else V.server_supported()
            for pref in (None, eff[-1], V.OUTSIDE):
                answers = [{"k": "version", "s": s} for s in dict.fromkeys([eff[0], eff[-1], V.OUTSIDE, "2026-01-01"])]
                answers += [{"k": "silence"}, {"k": "malformed", "shape": rng.choice(sorted(V.MALFORMED))}, rng.choice(rpcs)]
                for ans in answers:
                    for side in sides:
                        for take in takes:
                            k += 1
                            c = {"sup": sup, "pref": pref, "ans": dict(ans), "D": T, "at": (1, 10, 100)[k % 3],
                                 "tie": ("events", "timers", "io")[(k // 3) % 3], "track": k % 2 == 0, "take": take}
                            c.update(side)
                            if budget == "quick" and side["wbuf"] == 100 and (k % 4) and ans["k"] != "version":
                                continue
                            out.append(c)
                            if ans["k"] == "version" and ans["s"] in eff and take in (T, T + 1, None):
                                out.append(dict(c, tie=("timers", "io", "events")[(k // 3) % 3], track=not c["track"]))
        ctx.exhaustive_parts.append(
            "slow-writer: write stream buffer 0 / 1 full / 1 empty / 1 full from the start / 100 with 99 and 100 foreign messages x peer "
            "taking the notification 1, T-1, T, T+1, 2T ticks after its answer, never, or closing that direction x 3 orders at equal instants")
        out = V.assign_debug(out, self.static_kind, ctx=ctx, name=self.name)
        return out + other_backend(out, 24 if budget == "quick" else 6, ctx, self.name)

    @staticmethod
    def write_side(case):
        """the model's WriteSide: an empty buffer of size >=1 takes the notification at once"""
        if case.get("take") == "refuses":
            return "refuses"
        if case.get("wbuf") is None or int(case.get("filler") or 0) < case["wbuf"]:
            return 0
        return case.get("take")

    def model_line(self, case):
        m = super().model_line(case)
        m["op"] = "clientw"
        m["take"] = self.write_side(case)
        return m

    def compare(self, case, o, m):
        if o.get("harness"):
            return None
        if case["ans"]["k"] == "malformed" and m["outcome"] == "invalid" and o["outcome"] == "mismatch":
            o = dict(o, outcome="invalid")  # see ClientInit.compare: a result that does not validate may surface as the mismatch class
        ws = self.write_side(case)
        slow = ws is None or (isinstance(ws, int) and ws >= case["D"] - 1)
        if slow and m["outcome"] in ("ok", "blocked") and o["outcome"] not in ("ok", "blocked"):
            # the model is the code's unbounded blocking send.  Giving up LOUDLY on a stalled writer (an
            # exception, nothing handed over) is equally within the property: not a divergence.
            return None if not any(e["w"] == "initialized" for e in o["trace"]) else "failure after a hand-over"
        if o["outcome"] != m["outcome"]:
            return "outcome class differs"
        if o["outcome"] == "ok" and o.get("v") != m.get("v"):
            return "returned version differs"
        if canon(o["trace"]) != canon(m["trace"]):
            return "transcript differs"
        return None

    def kind(self, case, o):
        side = "buf%s%s%s" % (case.get("wbuf"), "+%d-foreign" % case["filler"] if case.get("filler") else "",
                              "+prefilled" if case.get("prefill") else "")
        take = case.get("take")
        rel = "never" if take is None else ("refuses" if take == "refuses" else ("prompt" if take < case["D"] - 1 else "around-or-after-timeout"))
        return f"slow-writer/{side}/{rel}/{case['ans']['k']}/{o.get('outcome')}"

    def shrink_candidates(self, case):
        for c in super().shrink_candidates(case):
            yield c
        if case.get("filler"):
            yield dict({k: v for k, v in case.items() if k != "prefill"}, wbuf=0, filler=0)


class ClientSequence(ClientInit):
    """2-3 consecutive calls on the SAME streams with the SAME tracked client (and the same list object): a retry after a
    failure, a re-initialization after a success, with leftovers of the earlier attempt (late answer, duplicate answer)
    still in the read stream.  Every call must behave as a fresh negotiation; the tracked mode follows the last success."""

    name = "client-sequence"

    def cases(self, ctx, budget):
        rng = ctx.sub_rng("c03-seq", budget)
        L1 = ["2025-06-18", "2025-03-26", "2024-11-05"]
        L2 = ["2024-11-05", "1999-12-31"]

        def steps_for(sup):
            a, b = sup[0], sup[-1]
            return [
                {"ans": {"k": "version", "s": a}}, {"ans": {"k": "version", "s": b}},
                {"ans": {"k": "version", "s": b}, "dup": True},
                {"ans": {"k": "version", "s": "2031-01-01"}},
                {"ans": {"k": "version", "s": "2031-01-01"}, "noise": [["resp-prev-id", 1], ["resp-other-id", 1]]},
                {"ans": {"k": "version", "s": a}, "noise": [["resp-prev-id", 1]]},
                {"ans": {"k": "silence"}, "D": 64},
                {"ans": {"k": "silence"}, "D": 64, "noise": [["resp-prev-id", 1], ["req-same-id", 1]]},
                {"ans": {"k": "version", "s": a}, "D": 64, "at": 65},  # the answer comes one tick too late: it is left in the stream
                {"ans": {"k": "rpc", "code": -32602, "msg": "Unsupported protocol version"}},
                {"ans": {"k": "rpc", "code": -32603, "msg": ""}},
                {"ans": {"k": "malformed", "shape": "version-zero"}},
            ]

        out = []
        k = 0
        for sups in ((L1, L1), (L2, L2), (L1, L2), (L2, L1), (None, None)):
            pools = [steps_for(s if s is not None else V.server_supported()) for s in sups]
            for prefs in ((None, None), ("2024-11-05", None), (None, "2024-11-05")):
                for x in pools[0]:
                    for y in pools[1]:
                        k += 1
                        st = [dict(x, sup=sups[0], pref=prefs[0]), dict(y, sup=sups[1], pref=prefs[1])]
                        for i, stp in enumerate(st):
                            stp.setdefault("D", 2048)
                            stp.setdefault("at", (1, 10, 512)[(k + i) % 3])
                            stp["tie"] = TIES[(k + i) % 3]
                        out.append({"steps": st, "share_list": True})
        pool = steps_for(L1)
        triples = [(x, y, z) for x in pool for y in pool for z in pool]
        for x, y, z in (rng.sample(triples, 300) if budget == "quick" else triples):
            k += 1
            st = [dict(s_, sup=L1, pref=None) for s_ in (x, y, z)]
            for i, stp in enumerate(st):
                stp.setdefault("D", 2048)
                stp.setdefault("at", 10)
                stp["tie"] = TIES[(k + i) % 3]
            out.append({"steps": st, "share_list": True})
        # D. the SAME failure 2, 3, 4 times in a row on one connection, then a success (and the tracked mode then follows it)
        fails = [pool[3], pool[6], pool[8], pool[9], pool[10], pool[11],
                 {"ans": {"k": "version", "s": "2025-03-26"}, "raise_on": {"where": "send-notification", "cls": "Unprintable"}},
                 {"ans": {"k": "version", "s": "2025-03-26"}, "raise_on": {"where": "receive", "cls": "KeyError"}},
                 {"ans": {"k": "version", "s": "2025-03-26"}, "raise_on": {"where": "send-request", "cls": "OSError"}}]
        for f in fails:
            for reps in (2, 3, 4):
                for ok_ in (pool[0], pool[1]):
                    k += 1
                    st = [dict(s_, sup=L1, pref=None) for s_ in [f] * reps + [ok_]]
                    for i, stp in enumerate(st):
                        stp.setdefault("D", 2048)
                        stp.setdefault("at", 10)
                        stp["tie"] = TIES[(k + i) % 3]
                    out.append({"steps": st, "share_list": True})
                    out.append({"steps": [dict(pool[1], sup=L1, pref=None, D=2048, at=10, tie="events")] + [dict(x) for x in st], "share_list": True})
        # B. two and three connections (streams + tracked client each) alive in one process, used alternately and concurrently
        short = [pool[0], pool[1], pool[3], pool[6], pool[9]]
        for x in short:
            for y in short:
                for z in short[:3]:
                    k += 1
                    st = [dict(x, sup=L1, pref=None, conn=0), dict(y, sup=L2 if k % 2 else L1, pref=None, conn=1), dict(z, sup=L1, pref=None, conn=0),
                          dict(x, sup=L2 if k % 2 else L1, pref=None, conn=1)]
                    if k % 2:  # L2 has other members: answer with its own
                        for stp in st:
                            if stp["sup"] is L2 and stp["ans"]["k"] == "version" and stp["ans"]["s"] in L1:
                                stp["ans"] = {"k": "version", "s": L2[0] if stp["ans"]["s"] == L1[0] else L2[-1]}
                    for i, stp in enumerate(st):
                        stp.setdefault("D", 2048)
                        stp.setdefault("at", 10)
                        stp["tie"] = TIES[(k + i) % 3]
                    out.append({"steps": st, "conns": 2})
                k += 1
                pair = [dict(x, sup=L1, pref=None, conn=0, D=x.get("D", 2048), at=x.get("at", 10), tie=TIES[k % 3]),
                        dict(y, sup=L1, pref="2024-11-05", conn=1, D=y.get("D", 2048), at=y.get("at", 12), tie=TIES[k % 3]),
                        dict(x, sup=L2, pref=None, conn=2, D=x.get("D", 2048), at=700, tie=TIES[k % 3])]
                if pair[2]["ans"]["k"] == "version" and pair[2]["ans"]["s"] in L1:
                    pair[2]["ans"] = {"k": "version", "s": L2[0]}
                out.append({"steps": pair, "conns": 3, "concurrent": True})
        ctx.exhaustive_parts.append(
            "client-sequence: every ordered pair of 12 step kinds (two listed versions, duplicate answer, foreign version, late answer of the "
            "previous attempt, silence, answer one tick late, errors, malformed) x 5 list pairings x 3 preferred pairings on one pair of "
            "streams and one tracked client; 9 failure kinds repeated 2-4 times then a success; 2 and 3 connections alive at once, "
            "alternately and concurrently")
        # M. the consumer rewrites the result object it was given; the next call on the same connection must not see that
        for x in (pool[0], pool[1]):
            for y in pool:
                k += 1
                st = [dict(x, sup=L1, pref=None, mutate_result=True), dict(y, sup=L1, pref=None), dict(x, sup=L1, pref="2024-11-05", mutate_result=True)]
                for i, stp in enumerate(st):
                    stp.setdefault("D", 2048)
                    stp.setdefault("at", 10)
                    stp["tie"] = TIES[(k + i) % 3]
                out.append({"steps": st, "share_list": True})
        out = V.assign_debug(out, self.static_kind, ctx=ctx, name=self.name)
        return out + other_backend(out, 16 if budget == "quick" else 3, ctx, self.name)

    def impl_batch(self, cases):
        return V.run_split("run_client_seq", cases)

    def model_line(self, case):
        def ans(st):
            ro = st.get("raise_on")
            if ro:  # the caller's stream raised: a failed call that leaves the tracked client alone (transcript not compared)
                return {"k": "malformed"} if ro["where"] == "send-notification" else {"k": "closed"}
            return self.model_answer(st)

        return {"m": "version", "op": "clientseq",
                "steps": [{"sup": st["sup"], "pref": self.model_pref(st), "ans": ans(st), "conn": st.get("conn", 0)} for st in case["steps"]]}

    def compare(self, case, o, m):
        for st, so, sm in zip(case["steps"], o["steps"], m["steps"]):
            if so is None:
                return "a call did not finish"
            if st.get("raise_on"):
                d = None if (so["outcome"] != "ok" and canon(so.get("tracked")) == canon(sm.get("tracked"))) else "call on a raising stream"
            else:
                d = ClientInit.compare(self, dict(st, track=True), so, sm)
            if d:
                return d
            if so.get("sup_after") is not None:
                return "the caller's list object was modified"
        return None

    def oracle(self, case, o):
        for i, (st, so) in enumerate(zip(case["steps"], o["steps"])):
            if so is None:
                continue
            # the list as the caller handed it to THIS call
            cur = dict(st, track=True)
            v = ClientInit.oracle(self, cur, so)
            if v is None and so.get("outcome") == "ok" and "late_v" in so and canon(so["late_v"]) != canon(so.get("v")):
                v = ("returned-version-changed-by-later-calls", f"the call returned version {so.get('v')!r}; after the later calls on the same "
                     f"streams the returned object says {canon(so['late_v'])}", {"v": so.get("v")})
            if v is not None:
                key, what, exp = v
                if i > 0:
                    key += "-in-sequence"
                    if case.get("conns"):
                        what = (f"[{case['conns']} connections alive in one process, {'concurrently' if case.get('concurrent') else 'alternately'}; "
                                f"this call is on connection {st.get('conn', 0)}] " + what)
                    what = (f"call no. {i + 1} on the same streams and tracked client (earlier calls: "
                            f"{', '.join(canon(s['ans']) + ' -> ' + str(p.get('outcome')) for s, p in zip(case['steps'][:i], o['steps'][:i]))}): " + what)
                return (key, what, exp)
        return None

    def kind(self, case, o):
        tag = ("%d-connections%s/" % (case["conns"], "-concurrent" if case.get("concurrent") else "")) if case.get("conns") else ""
        tag = (case["backend"] + "/" if case.get("backend") else "") + tag
        return "sequence/" + tag + ">".join(str((s or {}).get("outcome")) for s in o["steps"])

    def shrink_candidates(self, case):
        st = case["steps"]
        if len(st) > 1:
            for i in range(len(st)):
                yield dict(case, steps=st[:i] + st[i + 1:])
        for i, s_ in enumerate(st):
            for f in ("noise", "dup"):
                if s_.get(f):
                    yield dict(case, steps=st[:i] + [{k: v for k, v in s_.items() if k != f}] + st[i + 1:])


class HelperAliases(Suite):
    """The one-line helpers next to send_initialize and the legacy batching wrapper against the functions they name (supplementary:
    a difference is recorded in the evidence notes, it is not an obligation of the property)."""

    name = "helper-aliases"
    supplementary = True

    def cases(self, ctx, budget):
        self._ctx = ctx
        pool = V.version_pool(V.HOSTILE_TEXT[:18])
        return [{"op": "consts"}] + [{"op": "one", "v": v} for v in pool]

    def impl_batch(self, cases):
        return V.run_versionlib(cases)

    def model_line(self, case):
        return dict(case, m="versionlib")

    def compare(self, case, o, m):
        if case["op"] == "consts":
            bad = o["alias_all"] != m["all"] or o["alias_latest"] != m["latest"]
        else:
            bad = (o["alias_supported"] != m["supported"] or o["alias_valid"] != m["valid"] or o["alias_batching"] != o["batching"]
                   or not o["alias_batching_warned"])
        return "a helper differs from the function it names" if bad else None

    def kind(self, case, o):
        return "helper-aliases/" + case["op"]


class StdioInitialize(ClientInit):
    """The convenience entry point `stdio_client_with_initialize` (spawn + initialize + tracking) with a scripted child behind the
    `anyio.open_process` seam: the caller's list as every accepted sequence type x preferred x the child's answer."""

    name = "stdio-initialize"

    def cases(self, ctx, budget):
        out = []
        lists = [None, ["2025-06-18"], ["2024-11-05"], ["2024-10-07"], ["2025-03-26", "2024-11-05"], ["1999-12-31", "2025-06-18"]]
        for sup in lists:
            eff = sup if sup is not None else V.server_supported()
            for kind in (V.SEQUENCE_KINDS if sup is not None else [None]):
                for pref in dict.fromkeys([None, eff[-1], V.OUTSIDE]):
                    for ans in [{"k": "version", "s": v} for v in dict.fromkeys([eff[0], eff[-1], "2025-06-18", "2031-01-01"])] + [{"k": "silence"}]:
                        if budget == "quick" and ans["k"] == "silence" and (kind not in (None, "tuple") or pref is not None):
                            continue
                        out.append({"sup": sup, "sup_kind": kind, "pref": pref, "ans": ans, "track": False, "D": 1024, "at": 1})
        return V.assign_debug(out, lambda c: (c["ans"]["k"], c.get("sup_kind"), c["sup"] is None), ctx=ctx, name=self.name)

    def impl_batch(self, cases):
        obs = V.run_stdio_init(cases)
        for c, o in zip(cases, obs):
            if c["ans"]["k"] == "version" and o["trace"][:1] and o["trace"][0]["w"] == "initialize":
                o["trace"].insert(1, {"w": "answered"})  # the scripted child answers right after it saw the request
        return obs

    def model_line(self, case):
        return {"m": "version", "op": "client", "sup": case["sup"], "pref": self.model_pref(case), "ans": self.model_answer(case)}

    def kind(self, case, o):
        return "stdio-initialize/" + ("list-as-" + case["sup_kind"] if case.get("sup_kind") else "default-list") + "/" + str(o.get("outcome"))


def suites():
    return [ClientInit(), SlowWriter(), ClientSequence(), StdioInitialize(), BatchingGuard(), HelperAliases()]
