"""C03 — client initialization never settles on a protocol version it did not offer."""
from __future__ import annotations

import itertools

from .. import version_h as V
from ..core import canon
from ..runner import Suite

MANIFEST = dict(
    text="Lean 4 theorems about a model of send_initialize / send_initialize_with_client_tracking taking the supported list as a parameter (arbitrary lists, preferred versions and answers: any version string, a result that does not validate, a JSON-RPC error of any integer code, silence): the proposal is the preferred version if listed else the first entry; the call succeeds only with an answered version of the list and returns it; a version string outside the list raises the mismatch error; on success the transcript is exactly request, answer, one initialized notification; on every other outcome no initialized notification is written; a tracked client's batch mode is supports_batching (regenerated if-chain) of the returned version. Instantiated with SUPPORTED_VERSIONS regenerated from source. Correspondence: exhaustive product of supported lists (length <=3 over 3 real + 3 invented versions) x preferred x answers through the real functions over anyio memory streams with a scripted peer under a virtual-time loop.",
    note="Trusted: Lean kernel, the translator for SUPPORTED_VERSIONS and the supports_batching if-chain, the correspondence harness and virtual-time loop; Pydantic validation of the result (which shapes count as malformed) and anyio stream semantics are sampled, not proved. A malformed result is only required not to succeed and not to be followed by the notification, not to raise the mismatch class.",
    technique="Lean 4 proof over a parametric model + constants regenerated from source + exhaustive differential correspondence run under virtual time",
    design="5/C03",
)
GEN = ["Versions"]
THEOREMS = [
    "c03_translated",
    "c03_proposed_spec",
    "c03_proposed_offered",
    "c03_success_only_offered",
    "c03_mismatch_on_foreign_version",
    "c03_initialized_exactly_once_on_success",
    "c03_no_initialized_on_failure",
    "c03_outcome_total",
    "c03_tracking_mode",
    "c03_success_implies_handed",
    "c03_stalled_writer_never_success",
    "c03_handed_only_on_success",
    "c03_default_list",
]
RULE = (
    "product of non-empty ordered supported lists of length<=3 over {3 real, 3 invented versions} (plus the caller passing no list) x "
    "preferred in {each universe member, absent, a version in no list, ''} x answers {each universe member, an outside version, '', a "
    "whitespace twin, 14 malformed result shapes, JSON-RPC errors of every named code of types/errors.py + samples x messages with and "
    "without the words 'protocol version', silence}; quick: all version answers + silence for every (list, preferred) and a seeded "
    "rotation of malformed/error answers, thorough: the full product; real send_initialize(_with_client_tracking) under the "
    "virtual-time loop vs clientInit/trackedInit; slow-writer: the same call with a write stream of buffer 0 / 1 (full or empty) "
    "whose reader takes the notification 1, T-1, T, T+1, 2T ticks after answering or never, vs clientInitW; non-trivial = distinct (list, preferred, answer, tracking)"
)
TRUSTED = [
    "Gen/Versions.lean regenerated from versioning.py (SUPPORTED_VERSIONS) and batching.py (if-chain of supports_batching)",
    "anyio memory streams / asyncio scheduling (sampled under the virtual-time loop)",
]
ASSUMPTIONS = [
    "supported lists are lists of versions: non-empty, no empty-string member (an empty preferred string counts as absent)",
    "the peer answers the initialize request at most once; C01 covers foreign traffic before the answer",
    "sent = the write stream's send completed (the item is with the write side: taken by its reader or in its buffer)",
    "supports_batching itself is C13's subject; here the tracked mode is compared with it",
]

PREFS = [None] + V.UNIVERSE + [V.OUTSIDE, ""]
VERSION_ANSWERS = V.UNIVERSE + [V.OUTSIDE, "", "2025-06-18 "]


def all_lists(maxlen=3, repetition=True):
    for n in range(1, maxlen + 1):
        if repetition:
            yield from (list(t) for t in itertools.product(V.UNIVERSE, repeat=n))
        else:
            yield from (list(t) for t in itertools.permutations(V.UNIVERSE, n))


def rpc_answers(full):
    codes = V.named_error_codes()
    out = []
    for c in codes:
        for m in (V.ERROR_MESSAGES if (full and c == -32602) else V.ERROR_MESSAGES[:3]):
            out.append({"k": "rpc", "code": c, "msg": m})
    if not full:
        out += [{"k": "rpc", "code": -32602, "msg": m} for m in V.ERROR_MESSAGES[3:]]
    return out


def answer_version_string(ans):
    """the protocolVersion string the answer carries, if any"""
    if ans["k"] == "version":
        return ans["s"]
    if ans["k"] == "malformed":
        r = V.MALFORMED[ans["shape"]]
        if isinstance(r, dict) and isinstance(r.get("protocolVersion"), str):
            return r["protocolVersion"]
    return None


class ClientInit(Suite):
    name = "client-init"

    def cases(self, ctx, budget):
        rng = ctx.sub_rng("c03", budget)
        malformed = [{"k": "malformed", "shape": s} for s in V.MALFORMED]
        rpcs = rpc_answers(full=True)
        versions = [{"k": "version", "s": s} for s in VERSION_ANSWERS]
        if budget == "quick":
            short = [l for l in all_lists(2)]
            l3 = [l for l in all_lists(3, repetition=False) if len(l) == 3]
            rep3 = [l for l in all_lists(3) if len(l) == 3 and len(set(l)) < 3]
            lists = short + l3 + rng.sample(rep3, 24)
            ctx.exhaustive_parts.append(
                "client-init: every list of length<=2 (with repetition) and every repetition-free list of length 3 over the 6-version "
                "universe x 9 preferred x {9 version answers, silence}")
        else:
            lists = list(all_lists(3))
            ctx.exhaustive_parts.append(
                "client-init: every list of length<=3 (with repetition) over the 6-version universe x 9 preferred x every answer")
        lists = [None] + lists
        out = []
        k = 0
        for sup in lists:
            for pref in PREFS:
                answers = list(versions) + [{"k": "silence"}]
                if budget == "quick" and sup is not None:
                    answers += rng.sample(malformed, 2) + rng.sample(rpcs, 3)
                else:
                    answers += malformed + rpcs
                for ans in answers:
                    k += 1
                    a = dict(ans)
                    if a["k"] == "version" and k % 5 == 0:
                        a["extra"] = True
                    c = {"sup": sup, "pref": pref, "ans": a, "D": 2048,
                         "at": (1, 10, 512, 700)[k % 4], "tie": ("events", "timers", "io")[(k // 4) % 3],
                         "track": k % 2 == 0}
                    if sup is None and ans["k"] in ("silence", "version") and pref in (None, "2024-11-05"):
                        c["D"] = None  # the default 60 s timeout: free under virtual time
                    out.append(c)
                    # success cases: both entry points
                    eff = sup if sup is not None else V.server_supported()
                    if ans["k"] == "version" and ans["s"] in eff:
                        out.append(dict(c, track=not c["track"]))
        return out

    def impl_batch(self, cases):
        return V.run_client(cases)

    def model_line(self, case):
        a = case["ans"]
        if a["k"] == "version":
            ans = {"k": "version", "s": a["s"]}
        elif a["k"] == "malformed":
            ans = {"k": "malformed"}
        elif a["k"] == "rpc":
            ans = {"k": "rpc", "code": a["code"], "msg": a.get("msg")}
        else:
            ans = {"k": "silence"}
        return {"m": "version", "op": "client", "sup": case["sup"], "pref": case["pref"], "ans": ans}

    def compare(self, case, o, m):
        if o.get("harness"):
            return None
        if o["outcome"] != m["outcome"]:
            return "outcome class differs"
        if o["outcome"] == "ok" and (o.get("v") != m.get("v") or o.get("type") != "InitializeResult"):
            return "returned version differs"
        if o["outcome"] == "rpc" and o.get("code") != m.get("code"):
            return "error code differs"
        if canon(o["trace"]) != canon(m["trace"]):
            return "transcript differs"
        if case.get("track") and canon(o.get("tracked")) != canon(m.get("tracked")):
            return "tracked batching state differs"
        return None

    def oracle(self, case, o):
        if o.get("harness"):
            return None
        sup = case["sup"] if case["sup"] is not None else V.server_supported()
        pref = case["pref"]
        ans = case["ans"]
        trace = o["trace"]
        want_prop = pref if (pref and pref in sup) else sup[0]
        inits = [e for e in trace if e["w"] == "initialize"]
        if len(inits) != 1 or not trace or trace[0]["w"] != "initialize" or any(e["w"] == "other" for e in trace):
            return ("request-count", f"writes are {canon([e for e in trace if e['w'] != 'answered'])}: not exactly one initialize "
                    f"request first", {"first": {"w": "initialize", "v": want_prop}})
        if inits[0].get("v") != want_prop:
            return ("proposed-version", f"supported {sup}, preferred {pref!r}: proposed {inits[0].get('v')!r}", {"proposed": want_prop})
        n_initd = sum(1 for e in trace if e["w"] == "initialized")
        if o["outcome"] == "ok":
            v = o.get("v")
            if not (isinstance(v, str) and v in sup):
                return ("settled-on-unoffered-version", f"supported {sup}: initialization succeeded with version {canon(v)}",
                        {"outcome": "mismatch"})
            s = answer_version_string(ans)
            if s is None or s != v:
                return ("returned-version-not-the-answer", f"answer {canon(ans)}: initialization returned version {v!r}",
                        {"v": s})
            want = [{"w": "initialize", "v": want_prop}, {"w": "answered"}, {"w": "initialized"}]
            if canon(trace) != canon(want):
                side = ""
                if "wbuf" in case:
                    side = (f" (write stream of buffer size {case['wbuf']}{' holding a foreign message' if case.get('filler') else ''}; the peer "
                            f"takes the notification {'never' if case.get('take') is None else str(case['take']) + ' ticks after answering'}; "
                            f"timeout {case['D']} ticks): what reached the write side is")
                return ("initialized-not-exactly-once", f"successful initialization{side} with transcript {canon(trace)}", {"trace": want})
            if case.get("track"):
                wt = {"v": v, "batching": V.real_supports_batching(v)}
                b = o.get("batch") or {}
                got = (o.get("tracked") or {}).get("batching")  # the mode is what the property names
                if got != wt["batching"] or b.get("processor") != wt["batching"] or b.get("can_batch") != wt["batching"]:
                    return ("tracked-mode", f"negotiated {v!r}: tracked client reports {canon(o.get('tracked'))} / {canon(b)}",
                            {"tracked": wt})
            return None
        if o["outcome"] == "blocked":
            return None  # the call has not returned: nothing is claimed yet
        # every non-success outcome
        if n_initd:
            return ("initialized-after-failure", f"answer {canon(ans)} ended in {o['outcome']} but the initialized notification was "
                    f"written ({canon(trace)})", {"initialized": 0})
        if ans["k"] == "version" and ans["s"] not in sup and o["outcome"] != "mismatch":
            return ("foreign-version-not-mismatch", f"supported {sup}: answered version {ans['s']!r} ended in {o['outcome']} "
                    f"{o.get('exc', '')}", {"outcome": "mismatch"})
        return None

    def kind(self, case, o):
        a = case["ans"]
        sub = a["k"]
        if a["k"] == "version":
            sup = case["sup"] if case["sup"] is not None else V.server_supported()
            sub = "version-in-list" if a["s"] in sup else "version-foreign"
        return f"{sub}/{o.get('outcome')}/{'tracked' if case.get('track') else 'plain'}"

    def shrink_candidates(self, case):
        sup = case["sup"]
        if sup is not None and len(sup) > 1:
            for i in range(len(sup)):
                yield dict(case, sup=sup[:i] + sup[i + 1:])
        if case["pref"] is not None:
            yield dict(case, pref=None)
        if case.get("track"):
            yield dict(case, track=False)
        a = case["ans"]
        if a.get("extra"):
            yield dict(case, ans={k: v for k, v in a.items() if k != "extra"})
        if a["k"] == "rpc" and a.get("msg") not in ("boom",):
            yield dict(case, ans=dict(a, msg="boom"))
        if case.get("at") != 10 or case.get("tie") != "events":
            yield dict(case, at=10, tie="events")
        if case.get("D") is None:
            yield dict(case, D=2048)


class BatchingGuard(Suite):
    """Translation validation of the tracked mode's ingredients: the model's `batchingOf parseDate`
    (regenerated if-chain behind hand-modelled guards) against the real supports_batching on the
    version strings this property drives and a grid of dates."""

    name = "batching-mode"

    def cases(self, ctx, budget):
        vs = list(VERSION_ANSWERS) + V.server_supported()
        for y in (1999, 2024, 2025, 2026):
            for m in range(1, 13):
                for d in (1, 17, 18, 19, 28):
                    vs.append("%04d-%02d-%02d" % (y, m, d))
        return [{"v": v} for v in vs]

    def impl_batch(self, cases):
        return [{"batching": V.real_supports_batching(c["v"])} for c in cases]

    def model_line(self, case):
        return {"m": "version", "op": "batching", "v": case["v"]}

    def kind(self, case, o):
        return "batching-mode/" + ("on" if o["batching"] else "off")


class SlowWriter(ClientInit):
    """Write-side backpressure: the write stream is a rendezvous (buffer 0) or full (buffer 1 holding
    somebody else's message); the peer reads the request, answers, and takes the next item only `take`
    ticks later (around the caller's timeout T: T-1, T, T+1, 2T) or never.  A success must still have
    handed exactly one notification over before returning; otherwise the call must not be a success."""

    name = "slow-writer"

    def cases(self, ctx, budget):
        rng = ctx.sub_rng("c03-slow", budget)
        T = 256
        takes = [1, T - 1, T, T + 1, 2 * T, None]
        sides = [{"wbuf": 0, "filler": False}, {"wbuf": 1, "filler": True}, {"wbuf": 1, "filler": False}]
        lists = [None, ["2025-06-18", "1999-12-31"], ["2024-11-05"], ["draft-7", "2025-03-26", "2025-06-18"]]
        if budget != "quick":
            lists += [l for l in all_lists(2)]
        rpcs = rpc_answers(full=False)
        out = []
        k = 0
        for sup in lists:
            eff = sup if sup is not None else V.server_supported()
            for pref in (None, eff[-1], V.OUTSIDE):
                answers = [{"k": "version", "s": s} for s in dict.fromkeys([eff[0], eff[-1], V.OUTSIDE, "2026-01-01"])]
                answers += [{"k": "silence"}, {"k": "malformed", "shape": rng.choice(sorted(V.MALFORMED))}, rng.choice(rpcs)]
                for ans in answers:
                    for side in sides:
                        for take in takes:
                            k += 1
                            c = {"sup": sup, "pref": pref, "ans": dict(ans), "D": T, "at": (1, 10, 100)[k % 3],
                                 "tie": ("events", "timers", "io")[(k // 3) % 3], "track": k % 2 == 0, "take": take}
                            c.update(side)
                            out.append(c)
                            if ans["k"] == "version" and ans["s"] in eff and take in (T, T + 1, None):
                                out.append(dict(c, tie=("timers", "io", "events")[(k // 3) % 3], track=not c["track"]))
        ctx.exhaustive_parts.append(
            "slow-writer: write stream buffer 0 / 1+foreign message / 1 empty x peer taking the notification 1, T-1, T, T+1, 2T ticks "
            "after its answer or never x both orders at equal instants")
        return out

    @staticmethod
    def write_side(case):
        """the model's WriteSide: an empty buffer of size >=1 takes the notification at once"""
        if case.get("wbuf") is None or (case["wbuf"] >= 1 and not case.get("filler")):
            return 0
        return case.get("take")

    def model_line(self, case):
        m = super().model_line(case)
        m["op"] = "clientw"
        m["take"] = self.write_side(case)
        return m

    def compare(self, case, o, m):
        if o.get("harness"):
            return None
        slow = self.write_side(case) is None or self.write_side(case) >= case["D"] - 1
        if slow and m["outcome"] in ("ok", "blocked") and o["outcome"] not in ("ok", "blocked"):
            # the model is the code's unbounded blocking send.  Giving up LOUDLY on a stalled writer (an
            # exception, nothing handed over) is equally within the property: not a divergence.
            return None if not any(e["w"] == "initialized" for e in o["trace"]) else "failure after a hand-over"
        if o["outcome"] != m["outcome"]:
            return "outcome class differs"
        if o["outcome"] == "ok" and o.get("v") != m.get("v"):
            return "returned version differs"
        if canon(o["trace"]) != canon(m["trace"]):
            return "transcript differs"
        return None

    def kind(self, case, o):
        side = "buf%s%s" % (case.get("wbuf"), "+full" if case.get("filler") else "")
        take = case.get("take")
        rel = "never" if take is None else ("prompt" if take < case["D"] - 1 else "around-or-after-timeout")
        return f"slow-writer/{side}/{rel}/{case['ans']['k']}/{o.get('outcome')}"

    def shrink_candidates(self, case):
        for c in super().shrink_candidates(case):
            yield c
        if case.get("filler"):
            yield dict(case, wbuf=0, filler=False)


def suites():
    return [ClientInit(), SlowWriter(), BatchingGuard()]
