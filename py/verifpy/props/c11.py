"""C11 — Streamable HTTP: exactly one terminal message per request, whatever the server."""
from __future__ import annotations

import os

from .. import http_gen as G
from .. import http_h as H
from ..core import canon
from ..runner import Suite

MANIFEST = dict(
    text='Lean 4 theorems about two models of the Streamable-HTTP client transport: (1) the SSE text parser applied to a POST answer and a renderer of every conformant encoding (event field present/absent, space after the colon or not, CRLF/LF per line, comment/id/retry lines, multi-line data, three stream endings): parseText (renderText evs eols tail) = the events, for unbounded event lists; (2) the per-request outcome function (status class x content type x body x transport exception) and the serial sender loop as a fold with session-id tracking: every failure yields exactly one synthesised terminal with the request id and nothing else, bodies containing messages are passed through unchanged and in order (single, batch, SSE), nothing synthesised for a notification carries an id, the transcript is the concatenation of per-request outcomes, and POST k carries the latest issued session id. The hand-written models are tied to the code by a correspondence run of the real http_client() with httpx.AsyncClient replaced by httpx.MockTransport over the whole behaviour matrix, all conformant SSE encodings, all pairs and sampled longer sequences, plus an implementation-only oracle.',
    note='Trusted: Lean kernel (axioms propext, Classical.choice, Quot.sound only), the correspondence harness, the virtual-time loop; httpx (redirect handling, text decoding), json/orjson and Pydantic validation are parameters of the model (decoder) instantiated in the driver with Lean\'s JSON parser and sampled by the correspondence run. The models describe the repaired transport (fixes/C11-*.diff).',
    technique='Lean 4 proof (SSE grammar round trip by induction over events/lines/characters; decision-table case analysis; fold lemmas) + differential correspondence run with a scripted HTTP transport + independent property oracle',
    design='5/C11',
)
GEN: list = []
SUPP_GEN = ["HttpParams"]
THEOREMS = [
    "c11_parse_render", "c11_exactly_one_terminal", "c11_failure_only_synthesised", "c11_success_passthrough",
    "c11_json_body_messages", "c11_sse_body_messages", "c11_no_id_for_notification", "c11_failures_independent",
    "c11_every_request_processed", "c11_session_header_latest", "c11_repeated_failures",
    "c11_batch_invalid_member_skipped", "c11_encoding_twins", "c11_method_irrelevant",
]
# not stated by the property text (Props/C11Supp.lean): reported as INFO, never a verdict
SUPP_THEOREMS = [
    "c11_ctype_case_insensitive", "c11_options_irrelevant", "c11_instances_independent", "c11_close",
    "c11_post_protocol_headers", "c11_post_session_header", "c11_post_authorization", "c11_params_auth_headers",
    "c11_post_custom_headers", "c11_params_accept_iff", "c11_params_url_normalised",
    "c11_stream_chunk_independent", "c11_stream_plain_encodings",
]
RULE = (
    "behaviours: every cell of {200,202,204,301,404,500} x {application/json, text/event-stream, text/plain, absent} x "
    "{response, error (own / foreign / null id), batch array, notifications+server request+response, result with a foreign id, JSON object that is no JSON-RPC message, empty, truncated, non-JSON, non-UTF-8 (leading / "
    "inside a string), JSON that is no message, body without message} x {int id, string id, id 0, notification} plus mislabelled bodies, "
    "4 transport exceptions x 7 id shapes; SSE encodings: {no event field, 'event: message', 'event:message'} x data space x {LF, CRLF, "
    "mixed} x 4 comment/id/retry placements x 3 stream endings x multi-line data x 2 contents x {no / typed data-less / typed with data / comment-only} extra events; every word of length<=3 over {untyped message, typed message, typed non-message with data, typed without data, comment-only, blank} events; every pair over a 32-letter behaviour "
    "alphabet (session header present/changed/absent/on error status) (quick) + sampled words of length<=4 (thorough: 30000) + seeded "
    "random contents/encodings; real http_client() with MockTransport vs HttpDecide.run; python SSE renderer vs Sse.renderText; "
    "non-trivial = distinct case with at least one request"
)
TRUSTED = [
    "httpx (MockTransport seam, redirect handling, response.text / response.json decoding), json / orjson, Pydantic validation of "
    "JSONRPCMessage: parameter `dec` of the model, instantiated in the driver by Lean's JSON parser + the class's validation rules",
    "anyio memory streams and asyncio scheduling (sampled under the virtual-time loop)",
]
ASSUMPTIONS = [
    "the synthesised terminal message need not be an error: the `{}` result for an empty 2xx body counts",
    "a session id is 'issued' by a response with a non-error status; ids on error responses may or may not be adopted",
    "a body that is a well-formed response to a different id is passed through; no terminal for the request's own id is demanded then",
    "result / error members of server messages are JSON objects (the library's message class accepts nothing else)",
    "on an error status exactly one terminal with the request's id is demanded whatever the body says; the server's own messages in "
    "the error body may additionally be delivered (not counted as invented), a server error echoing the request's id counts as that terminal",
    "a 2xx JSON/SSE body holding a JSON-RPC error with a null or foreign id is a well-formed body: it is passed through and no terminal for "
    "the request's own id is demanded (at most one); likewise a 2xx JSON object without JSON-RPC members (the library's message class accepts it)",
    "3xx answers carry no Location header (httpx would follow it; the answer at the target is what counts)",
]

TERMINAL = ("result", "error")


GROUP = {
    "non-json": "malformed-body", "truncated": "malformed-body", "non-utf8": "malformed-body",
    "json-not-message": "no-message-in-body", "no-message-in-body": "no-message-in-body",
}


def _failure_class(case, j):
    """canonical class of a failing behaviour (key of a finding): exception, http-error, empty-body/<label>[/falsy-id],
    malformed-body, no-message-in-body"""
    r = [x for x in case["reqs"] if x.get("garbage") is None][j]
    e = G.expect(r["b"])
    cls = e["cls"]
    cls = GROUP.get(cls, cls)
    if cls == "empty-body":
        cls += "/" + ("unlabelled" if G.ct_class(r["b"]) in ("other", "absent") else G.ct_class(r["b"]))
        if G.ct_class(r["b"]) in ("other", "absent") and r["id"] is not None and not G.idval(r["id"]):
            cls += "/falsy-id"
    return cls


def _sse_feature(body):
    """which conformant-encoding feature an SSE body uses (class of a lost-message finding)"""
    evs = [e for e in body["events"] if e.get("msg") is not None]
    if any(not e["data"] for e in body["events"]):
        return "sse/with-data-less-event"
    if any(e.get("msg") is None for e in body["events"]):
        return "sse/with-non-message-event"
    if any(e.get("name") is None for e in evs):
        return "sse/no-event-field"
    if any(not c["sp"] for e in evs for c in e["dc"]) or any(not e["nc"]["sp"] for e in evs):
        return "sse/no-space-after-colon"
    return "sse/other"


def oracle_close(case, obs):
    """the connection is closed with requests outstanding: nothing is invented, no request gets two terminal
    messages, and every request gets its one terminal message or the read stream is closed (the reader sees
    end-of-stream instead of waiting for ever)"""
    reqs = [r for r in case["reqs"] if r.get("garbage") is None]
    T = obs["transcript"]
    srv = set()
    for r in reqs:
        e = G.expect(r["b"])
        for m in list(e["srv"]) + list(e.get("may", [])):
            srv.add(canon(G.classify(m)))
    ids = [canon(r["id"]) for r in reqs if r["id"] is not None]
    for m in T:
        if m["id"] is None and m["kind"] not in ("request", "notification"):
            continue
        if canon(m) in srv or (m["kind"] in TERMINAL and canon(m["id"]) in ids):
            continue
        return ("invented-message", f"delivered message {canon(m)[:200]} is neither a server message nor a terminal for a request", {"absent": m})
    for j, r in enumerate(reqs):
        if r["id"] is None:
            continue
        n = sum(1 for m in T if m["kind"] in TERMINAL and m["id"] == r["id"])
        if n > 1:
            return ("duplicate-terminal/at-close", f"request {j}: {n} terminal messages", {"request": j, "terminals": "<=1"})
        if n == 0 and obs.get("eos") is not True:
            return ("no-terminal-and-stream-open-at-close",
                    f"request {j} was outstanding when the connection was closed: no terminal message and the read stream does not end",
                    {"request": j, "eos": True})
    return None


def _no_numbers(v):
    """numbers are opaque here (which decoder read them decides their precision: C17's subject, not C11's)"""
    if isinstance(v, bool) or v is None or isinstance(v, str):
        return v
    if isinstance(v, (int, float)):
        return "<number>"
    if isinstance(v, list):
        return [_no_numbers(x) for x in v]
    if isinstance(v, dict):
        return {k: _no_numbers(x) for k, x in v.items()}
    return str(v)


def _tag_of(payload):
    if not isinstance(payload, dict):
        return None
    if isinstance(payload.get("tag"), str):
        return payload["tag"]
    for k in ("data", "params"):
        if isinstance(payload.get(k), dict) and isinstance(payload[k].get("tag"), str):
            return payload[k]["tag"]
    return None


def oracle_twins(case, obs):
    """one message through every body encoding (one request per encoding): if any encoding delivers the server's
    message, the message is a JSON-RPC message the other bodies contain too — every encoding must deliver it, and
    with the same text content"""
    T = obs["transcript"]
    n = len(case["reqs"])
    seen = []
    for j, r in enumerate(case["reqs"]):
        served = [m for m in T if m["kind"] in TERMINAL and m["id"] == r["id"] and (_tag_of(m["payload"]) or "").startswith("tw")]
        seen.append((j, bool(served), canon(_no_numbers(served[0]["payload"])) if served else None))
    delivered = [x for x in seen if x[1]]
    if delivered and len(delivered) != n:
        lost = [x[0] for x in seen if not x[1]]
        enc = [case["reqs"][j]["b"]["body"]["enc"] + "/" + case["reqs"][j]["b"]["ct"] for j in lost]
        return ("lost-message/encoding-twins", f"the same message is delivered from {len(delivered)} of {n} body encodings but not from {enc}",
                {"requests": lost, "delivered_from": [x[0] for x in delivered]})
    if len({x[2] for x in delivered}) > 1:
        return ("encoding-twins-differ", "the same message is delivered with different (non-numeric) content depending on the body encoding", {"equal": True})
    # a notification carried next to the response: from every encoding or from none
    notes = [m for m in T if m["kind"] == "notification" and (_tag_of(m["payload"]) or "").startswith("tw")
             and not _tag_of(m["payload"]).endswith("-b") and "v" in (m["payload"].get("params") or {})]
    if notes and len(notes) != n:
        return ("lost-message/encoding-twins", f"the same notification is delivered {len(notes)} times from {n} body encodings", {"count": n})
    if len({canon(_no_numbers(m["payload"])) for m in notes}) > 1:
        return ("encoding-twins-differ", "the same notification is delivered with different (non-numeric) content depending on the body encoding", {"equal": True})
    return None


def oracle(case, obs):
    """The property, read off the implementation's observation alone."""
    if obs.get("crash"):
        return ("client-crashed", f"http_client raised {obs['crash']}", {"fence": True})
    if case.get("leave_at") is not None:
        return oracle_close(case, obs)
    if case.get("twins") and not obs.get("crash"):
        r3 = oracle_twins(case, obs)
        if r3 is not None:
            return r3
    if case.get("close_rd_after") is not None:
        return None   # the caller stopped listening: nothing is observable any more, only "does not raise / hang on exit"
    if obs.get("round2") is not None:
        r2 = oracle(H.connection_case(case, obs["round2"].get("label")), dict(obs["round2"], round2=None, params_changed=False))
        if r2 is not None:
            return (r2[0], "second connection with the same parameters object: " + r2[1], r2[2])
    for j, other in enumerate(obs.get("others") or []):
        r2 = oracle(H.connection_case(case, other.get("label")), dict(other, others=None, params_changed=False))
        if r2 is not None:
            return (r2[0], f"transport {j + 2} of {len(obs['others']) + 1} alive in the process: " + r2[1], r2[2])
    all_reqs = case["reqs"]
    reqs = [r for r in all_reqs if r.get("garbage") is None]
    T = [m for m in obs["transcript"] if not (m["id"] == {"s": H.FENCE_ID})]
    exps = [G.expect(r["b"]) for r in reqs]
    rid = [r["id"] for r in reqs]
    srv = [[G.classify(m) for m in e["srv"]] for e in exps]
    srv_keys = [set(canon(m) for m in s) for s in srv]
    all_srv = set().union(*srv_keys) if srv_keys else set()
    for e in exps:  # the server's own messages in an error-status body: delivering them too is no invention
        all_srv |= set(canon(G.classify(m)) for m in e.get("may", []))
    req_ids = [canon(i) for i in rid if i is not None]
    mangled_ids = set()
    for r, e in zip(reqs, exps):
        if e["mangled"]:
            for m in G.body_msgs(r["b"]["body"]):
                mangled_ids.add(canon(G.idtag(m.get("id"))))

    # later requests are processed whatever happened before
    if obs["fence"] is not True:
        how = "was answered by the transport itself instead of being POSTed" if obs["fence"] else "was never answered"
        return ("sender-stopped", f"the request sent after the sequence {how} ({obs['posts']} POSTs seen for {len(reqs) + 1} messages)", {"fence": True})

    # loss-free, ordered pass-through
    for j, e in enumerate(exps):
        if e["cls"] is not None or e["mangled"]:
            continue
        got = [m for m in T if canon(m) in srv_keys[j]]
        if e["strict"]:
            if [canon(m) for m in got] != [canon(m) for m in srv[j]]:
                form = reqs[j]["b"]["body"]["form"]
                what = "lost-message" if len(got) < len(srv[j]) else "reordered-or-duplicated"
                return (f"{what}/{_sse_feature(reqs[j]['b']['body']) if form == 'sse' else 'json-' + ('batch' if form == 'batch' else 'single')}",
                        f"request {j}: {len(srv[j]) - len(got)} of the server's messages not delivered" if what == "lost-message" else f"request {j}: delivered messages differ in order or number", {"request": j, "delivered": srv[j]})
        else:
            want = [canon(m) for m in srv[j]]
            k = 0
            for m in got:
                while k < len(want) and want[k] != canon(m):
                    k += 1
                if k == len(want):
                    return ("reordered-or-duplicated/unlabelled", f"request {j}: delivered messages are not a subsequence of the body", {"request": j})
                k += 1

    # nothing invented (not judged when a body's reading is left to the code: see G.expect, "free")
    free = any(e.get("free") for e in exps)
    for m in ([] if free else T):
        if m["id"] is None and m["kind"] not in ("request", "notification"):
            continue  # id-less terminal / empty message: not an observable of the property
        if canon(m) in all_srv:
            continue
        if m["kind"] in TERMINAL and (canon(m["id"]) in req_ids or canon(m["id"]) in mangled_ids):
            continue
        return ("invented-message", f"delivered message {canon(m)[:200]} is neither a server message nor a terminal for a request", {"absent": m})

    # exactly one terminal per request
    for j, e in enumerate(exps):
        if rid[j] is None:
            continue
        n = sum(1 for m in T if m["kind"] in TERMINAL and m["id"] == rid[j])
        own = sum(1 for m in srv[j] if m["kind"] in TERMINAL and m["id"] == rid[j])
        if e["cls"] is not None or e["mangled"] or own == 1:
            if n != 1:
                cls = _failure_class(case, j) or ("malformed-body" if e["mangled"] else "well-formed-body")
                return (f"{'no-terminal' if n == 0 else 'duplicate-terminal'}/{cls}",
                        f"request {j} (id {canon(rid[j])}): {n} terminal messages on the read stream", {"request": j, "terminals": 1})
        elif n > 1:
            return ("duplicate-terminal/other", f"request {j}: {n} terminal messages", {"request": j, "terminals": "<=1"})

    # session header: a POST carries the most recent session id issued (on an accepted status) by the
    # answers that were complete before it reached the server; ids offered on error statuses since may be adopted
    events = obs.get("events") or []
    hdrs = obs["hdrs"]

    def beh(k):
        return all_reqs[k]["b"] if isinstance(k, int) and 0 <= k < len(all_reqs) and all_reqs[k].get("garbage") is None else None

    for j, (k, a, d) in enumerate(events):
        last, maybe = None, set()
        for d2, k2 in sorted((e[2], e[0]) for e in events if e[2] is not None and e[2] < a):
            b = beh(k2)
            if b is None or "exc" in b or b.get("sess") is None:
                continue
            if b["status"] < 400:
                last, maybe = b["sess"], set()
            else:
                maybe.add(b["sess"])
        if last is not None and hdrs[j] != last and hdrs[j] not in maybe:
            return ("session-header-stale", f"POST {j} carries session {hdrs[j]!r}, most recent issued is {last!r}", {"post": j, "session": last})
        if last is None and not maybe and hdrs[j] is not None:
            # nothing issued to THIS connection yet: only what the caller configured may be sent
            cfg = case.get("cfg") or {}
            configured = [case.get("session0")] + [v for k_, v in (cfg.get("headers") or {}).items() if k_.lower() == "mcp-session-id"]
            if not any(c and c in hdrs[j] for c in configured):
                return ("session-header-not-issued", f"POST {j} carries session {hdrs[j]!r} although the server has issued this connection none "
                        f"and none is configured", {"post": j, "session": None})
    if obs.get("params_changed"):
        # the mechanism behind a session id leaking from one connection into another: judged last, so that a case in
        # which the leak is visible on the wire is reported as that
        return ("parameters-object-mutated", "using the connection changed the StreamableHTTPParameters object it was built from "
                "(headers / session_id): the next connection built from it does not start from what the caller configured", {"params_changed": False})
    return None


class _Base(Suite):
    def impl_batch(self, cases):
        # a single case (shrinking, replay) runs in a process no other case has touched; in a batch, a case that
        # seems to violate the property is confirmed the same way — state left behind by EARLIER cases (class-level
        # or module-level state of the code under test) must not make an input look failing that does not fail alone
        if len(cases) == 1:
            return [H.run_pristine(cases[0])]
        obs = H.run_cases(cases)
        for i, c in enumerate(cases):
            try:
                bad = oracle(c, obs[i]) is not None
            except Exception:
                bad = True
            if bad:
                obs[i] = H.run_pristine(c)
        return obs

    def model_line(self, case):
        return H.model_line(case)

    def model_obs(self, out, case):
        if "driver_error" in out:
            return {"driver_error": out["driver_error"]}
        return H.comparable_model(out)

    def compare(self, case, o, m):
        if "driver_error" in m:
            return "driver error"
        if o.get("crash"):
            return "client crashed"
        if not H.same(case, H.comparable_impl(o), m):
            return "transcript or headers differ"
        def relabel(ob):
            # the model ran the case as the first connection sees it: strip the per-connection suffix of the session ids
            lab = ob.get("label")
            if not lab:
                return ob
            return dict(ob, hdrs=[(h[: -len(lab) - 1] if isinstance(h, str) and h.endswith("-" + lab) else h) for h in ob["hdrs"]])
        if o.get("round2") is not None and not H.same(case, H.comparable_impl(relabel(o["round2"])), m):
            return "second connection differs"
        for other in o.get("others") or []:
            if not H.same(case, H.comparable_impl(relabel(other)), m):
                return "a second transport in the same process behaves differently"
        return None

    def oracle(self, case, o):
        return oracle(case, o)

    def nontrivial(self, case, o):
        return len(case["reqs"]) > 0

    def shrink_candidates(self, case):
        return G.shrink_candidates(case)

    def kind(self, case, o):
        r = [x for x in case["reqs"] if x.get("garbage") is None][0]
        b = r["b"]
        idk = "notif" if r["id"] is None else ("falsy" if not G.idval(r["id"]) else "req")
        if "exc" in b:
            return f"{self.name}/exc/{idk}"
        e = G.expect(b)
        return f"{self.name}/{b['status'] // 100}xx/{b['ct']}/{e['cls'] or ('mangled' if e['mangled'] else b['body']['form'])}/{idk}"


class Singles(_Base):
    name = "singles"

    def cases(self, ctx, budget):
        ctx.exhaustive_parts.append("singles: every cell of status x content-type x body class x request kind; every transport exception x id shape")
        return G.decorate(G.singles(), salt=0)


class SseEncodings(_Base):
    name = "sse-encodings"

    def cases(self, ctx, budget):
        if budget != "quick":
            ctx.exhaustive_parts.append("sse-encodings: every combination of event field x data space x eol x ignored lines x ending x multi-line x content")
        return G.decorate(G.sse_encodings(stride=1 if budget != "quick" else 3), salt=2)  # 3 is coprime to the periods (2, 4) of the derived choices

    def kind(self, case, o):
        body = case["reqs"][0]["b"]["body"]
        e = [x for x in body["events"] if x.get("msg") is not None][-1]
        name = "noevent" if e["name"] is None else ("event-sp" if e["nc"]["sp"] else "event-nosp")
        ka = "keepalive" if any(not x["data"] for x in body["events"]) else "plain"
        return f"sse/{name}/{'sp' if e['dc'][0]['sp'] else 'nosp'}/{body['tail']}/{ka}"


class Sequences(_Base):
    name = "sequences"

    def cases(self, ctx, budget):
        out = G.pairs()
        ctx.exhaustive_parts.append("sequences: every ordered pair over the 32-letter behaviour alphabet")
        rng = ctx.sub_rng("c11-seq", budget)
        n = {"quick": 400, "thorough": 30000, "search": 8000}[budget]
        out += G.sampled_sequences(rng, n, maxlen=4)
        return G.decorate(out, salt=3)

    def kind(self, case, o):
        return f"seq/len{len(case['reqs'])}"


class Seeded(_Base):
    name = "seeded"

    def cases(self, ctx, budget):
        rng = ctx.sub_rng("c11-rand", budget)
        n = {"quick": 800, "thorough": 40000, "search": 15000}[budget]
        return G.decorate([G.random_single(rng, k) for k in range(n)], salt=5)


class Hardening(_Base):
    """generic hardening sweep (falsy values, type twins, constants of the source, format-hostile
    text, limits and backpressure, reuse, rarely taken branches, unusual structure, timing)"""
    name = "hardening"

    def cases(self, ctx, budget):
        ctx.notes.append(
            "branch coverage of transports/http/transport.py under the generated cases (coverage.py, branch mode, measured while "
            "building the sweep): every statement reached except get_streams() before start (69), set_protocol_version (115), the "
            "defensive handlers 120/127-128/330-333/431-432/453-454, the streaming SSE branch 352-391 (dead: httpx responses always "
            "have .text) and the pending-future branch 473-480 (dead: the unified message class always has a `method` attribute); "
            "the hard/* buckets of the distribution name the sweep classes")
        return G.decorate(G.hardening(ctx.sub_rng("c11-hard", budget), budget), salt=7) + G.hardening2(ctx.sub_rng("c11-hard2", budget), budget) \
            + G.hardening3(ctx.sub_rng("c11-hard3", budget), budget) + G.decorate(G.twin_cases(budget == "quick"), salt=11)

    def kind(self, case, o):
        return "hard/" + case.get("hk", "?") + ("/debug-logging" if case.get("debug") else "")


HTTPX_OWN = {"host", "content-length", "accept-encoding", "connection"}
HEADER_DICTS = [
    [], [["X-Trace", "1"]], [["Accept", "*/*"], ["Content-Type", "text/plain"]], [["accept", "*/*"], ["content-type", "text/plain"]],
    [["Authorization", "Basic abc"]], [["authorization", "Basic abc"]], [["AUTHORIZATION", "Basic zzz"], ["X-A", ""]],
    [["User-Agent", "ua/1"]], [["user-agent", ""]], [["Mcp-Session-Id", "cfg-sess"]], [["mcp-session-id", "cfg-lower"]],
    [["X-Empty", ""], ["Bearer ", "odd"], ["Accept-Language", "de"]], [["MCP-Protocol-Version", "2025-06-18"], ["Last-Event-ID", "7"]],
]
BEARERS = [None, "", "tok", "Bearer tok", "bearer tok", "Bearer ", " Bearer x"]


class Headers(Suite):
    """header construction (parameters.setup_auth_headers + _send_message_internal) against
    HttpHeaders.setupAuth / postHeaders.  Supplementary obligation: a divergence here is recorded as a
    note (INFO) and is not by itself a broken correspondence of the property; the session-header part
    of the property is judged by the oracle of the main suites."""
    name = "headers"
    supplementary = True

    def cases(self, ctx, budget):
        rng = ctx.sub_rng("c11-headers", budget)
        out = []
        for hd in HEADER_DICTS:
            for bearer in BEARERS:
                env = rng.choice([None, "", "envtok", "Bearer envtok"])
                out.append({"headers": hd, "bearer": bearer, "env": env, "session0": rng.choice([None, "", "s0"]),
                            "issued": [rng.choice([None, "A", "B"]) for _ in range(3)]})
        for _ in range(60 if budget == "quick" else 3000):
            hd = [list(x) for x in rng.choice(HEADER_DICTS)] + [list(x) for x in rng.choice(HEADER_DICTS)]
            seen, uniq = set(), []
            for k, v in hd:   # a dict: unique keys (exact spelling)
                if k not in seen:
                    seen.add(k)
                    uniq.append([k, v])
            out.append({"headers": uniq, "bearer": rng.choice(BEARERS), "env": rng.choice([None, "", "e", "Bearer e"]),
                        "session0": rng.choice([None, "", "s0"]), "issued": [rng.choice([None, "A", "B", "C"]) for _ in range(rng.randint(1, 4))]})
        return out

    @staticmethod
    def _as_case(c):
        reqs = []
        for k, sess in enumerate(c["issued"]):
            rid = {"i": k + 1}
            reqs.append(G.mkreq(rid, G.response_b(200, "json", G.body_for("json", G.content("response", rid, f"hd{k}")), sess)))
        cfg = {"headers": {k: v for k, v in c["headers"]} if c["headers"] is not None else None}
        if c["bearer"] is not None:
            cfg["bearer"] = c["bearer"]
        if c["env"] is not None:
            cfg["env_bearer"] = c["env"]
        case = G.mkcase(reqs, c["session0"])
        case["cfg"] = cfg
        return case

    def impl_batch(self, cases):
        out = []
        for c in cases:
            o = H.run_case(self._as_case(c))
            out.append({"cfg": o.get("cfg_headers"), "wire": o.get("wire"), "crash": o.get("crash")})
        return out

    def model_line(self, c):
        state, sessions = c["session0"], []
        for sess in c["issued"] + [None]:      # + the fence
            sessions.append(state)
            if sess is not None:
                state = sess
        return {"m": "http", "op": "headers", "headers": c["headers"], "ua": "chuk-mcp/1.0.0", "bearer": c["bearer"],
                "env": c["env"], "sessions": sessions}

    def compare(self, c, o, m):
        if o.get("crash") or "driver_error" in m:
            return "crash / driver error"
        if o["cfg"] != m["cfg"]:
            return f"configured headers {o['cfg']} vs model {m['cfg']}"
        if len(o["wire"]) != len(m["posts"]):
            return "number of POSTs"
        for k, (wire, post) in enumerate(zip(o["wire"], m["posts"])):
            names = {a.lower() for a, _ in post}
            for n in sorted(names):
                want = [v for a, v in post if a.lower() == n]
                got = [v for a, v in wire if a.lower() == n]
                if want != got:
                    return f"POST {k} header {n}: sent {got}, model {want}"
            extra = {a.lower() for a, _ in wire} - names - HTTPX_OWN
            if extra:
                return f"POST {k} carries headers the model does not build: {sorted(extra)}"
        return None

    def kind(self, c, o):
        return "headers/" + ("cfg-dict" if c["headers"] else "no-cfg") + ("/bearer" if c["bearer"] else "") + ("/env" if c["env"] else "")


class Params(Suite):
    """the field validators of StreamableHTTPParameters against the REGENERATED Gen/HttpParams predicates
    (translation validation).  Supplementary: divergences are notes."""
    name = "params"
    supplementary = True
    URLS = ["", "http://", "https://x", "http://x/", "https://x///", "ftp://x", "HTTP://x", " http://x", "httpx://y", "http:/x", "https:/",
            "//x", "http://x/mcp/ ", "https://h\u00e9/mcp/", "/", "h", "https://", "http://a//b//"]
    NUMS = [-1024, -1, 0, 1, 512, 1024, 61440, 10 ** 12]     # in 1/1024 units for the float fields

    def cases(self, ctx, budget):
        out = []
        for u in self.URLS:
            out.append({"url": u, "timeout": 1024, "max_retries": 3, "retry_delay": 1024, "mcr": 10})
        for f in ("timeout", "max_retries", "retry_delay", "mcr"):
            for v in self.NUMS:
                c = {"url": "http://x/mcp", "timeout": 1024, "max_retries": 3, "retry_delay": 1024, "mcr": 10}
                c[f] = v if f in ("timeout", "retry_delay") else (v // 1024 if abs(v) >= 1024 else v)
                out.append(c)
        rng = ctx.sub_rng("c11-params", budget)
        for _ in range(40 if budget == "quick" else 2000):
            out.append({"url": rng.choice(self.URLS), "timeout": rng.choice(self.NUMS), "max_retries": rng.choice([-2, -1, 0, 1, 7]),
                        "retry_delay": rng.choice(self.NUMS), "mcr": rng.choice([-1, 0, 1, 2, 100])})
        return out

    def impl_batch(self, cases):
        from chuk_mcp.transports.http import StreamableHTTPParameters
        out = []
        for c in cases:
            try:
                p = StreamableHTTPParameters(url=c["url"], timeout=c["timeout"] / 1024, max_retries=c["max_retries"],
                                             retry_delay=c["retry_delay"] / 1024, max_concurrent_requests=c["mcr"])
                out.append({"ok": True, "bad": [], "url_stored": p.url})
            except ValueError as ex:
                bad = sorted({str(e["loc"][0]) for e in ex.errors()}) if hasattr(ex, "errors") else ["?"]
                out.append({"ok": False, "bad": bad})
        return out

    def model_line(self, c):
        return dict(c, m="http", op="params")

    def compare(self, c, o, m):
        if "driver_error" in m:
            return "driver error"
        fields = ["url", "timeout", "max_retries", "retry_delay", "max_concurrent_requests"]
        want_bad = sorted(f for f in fields if not m.get(f, True))
        if want_bad != o["bad"]:
            return f"rejected fields {o['bad']} vs regenerated validators {want_bad}"
        if o["ok"] and o["url_stored"] != m["url_stored"]:
            return f"stored url {o['url_stored']!r} vs {m['url_stored']!r}"
        return None

    def kind(self, c, o):
        return "params/" + ("accepted" if o["ok"] else "rejected:" + ",".join(o["bad"]))


class StreamBranch(Suite):
    """the streaming branch of _process_sse_response (dead code behind `hasattr(response, "text")`, still
    with the pre-repair grammar) driven directly with a response stub, against SseStream.parseStream:
    every chunking of plain and of conformant-but-not-plain bodies.  Supplementary: divergences are notes."""
    name = "stream-branch"
    supplementary = True

    def cases(self, ctx, budget):
        rng = ctx.sub_rng("c11-stream", budget)
        texts = []
        k = 0
        for eol in ("\n", "\r\n"):
            for nm in (2, 3):
                k += 1
                msgs = [G.notif(f"st{k}-{j}", G.EXTRAS[(k + j) % len(G.EXTRAS)]) for j in range(nm - 1)] + [G.result({"i": 7}, f"st{k}")]
                texts.append("".join(f"event: message{eol}data: {G.dumps(m)}{eol}{eol}" for m in msgs))
                texts.append("".join(f"event: {['message', 'response', 'ping'][j % 3]}{eol}data: {G.dumps(m)}{eol}{eol}" for j, m in enumerate(msgs)))
        # conformant encodings the branch does not understand, unterminated tails, comments, blank lines
        for c in G.sse_encodings(stride=37)[:12]:
            texts.append(G.sse_text(c["reqs"][0]["b"]["body"]))
        texts += ["", "\n", "\n\n", "event: message", "event: message\ndata: {}", "data: {}\n\n", ": c\nevent: message\ndata: {}\n\n",
                  "event: message\r\ndata: {\"jsonrpc\":\"2.0\",\r\ndata: \"id\":7,\"result\":{}}\r\n\r\n", "event:  message \ndata:  {}\n\n"]
        out = []
        for t in texts:
            out.append({"chunks": [t]})
            out.append({"chunks": list(t)})                       # one character at a time
            for _ in range(3 if budget == "quick" else 30):
                cuts = sorted(rng.randrange(len(t) + 1) for _ in range(rng.randint(1, 6))) if t else []
                pieces, last = [], 0
                for c in cuts + [len(t)]:
                    pieces.append(t[last:c])                      # may be empty: `if not chunk: continue`
                    last = c
                out.append({"chunks": pieces})
                if len(pieces) > 1:
                    # the stream breaks off with an exception after a prefix of the chunks
                    out.append({"chunks": pieces[:rng.randrange(1, len(pieces))], "fail": True})
        return out

    def impl_batch(self, cases):
        return [H.run_stream(c["chunks"], fail=bool(c.get("fail"))) for c in cases]

    def model_line(self, c):
        return {"m": "http", "op": "stream", "chunks": c["chunks"], "aborted": bool(c.get("fail"))}

    def compare(self, c, o, m):
        if "skipped" in o:
            return None
        if "driver_error" in m:
            return "driver error"
        want = []
        for x in m.get("outs", []):
            p_ = x["pass"]
            want.append({"kind": p_["kind"], "id": p_["id"], "payload": p_["payload"]})
        got = [x for x in o["transcript"]]
        if c.get("fail"):
            # the handler of the branch routes one error carrying the request's id after what was dispatched
            if not (got and got[-1]["kind"] in TERMINAL and got[-1]["id"] == {"i": 7}):
                return "no terminal for the request after the stream broke off"
            got = got[:-1]
        if canon(H._norm(got)) != canon(H._norm(want)):
            return "streaming branch differs from SseStream.parseStream"
        return None

    def kind(self, c, o):
        if "skipped" in o:
            return "stream/skipped"
        return f"stream/{'aborted' if c.get('fail') else 'complete'}/chunks{min(len(c['chunks']), 9)}/delivered{min(len(o['transcript']), 3)}"


class Render(Suite):
    """the Python renderer used by the harness against the Lean `renderText`; `parseText` on it
    against the generator's own event list (model-only: no implementation run)"""
    name = "sse-render"

    def cases(self, ctx, budget):
        rng = ctx.sub_rng("c11-render", budget)
        out = [c["reqs"][0]["b"]["body"] for c in G.sse_encodings(stride=3)]
        out += [c["reqs"][0]["b"]["body"] for c in G.singles()
                if c["reqs"][0]["b"].get("body", {}).get("form") == "sse" and any(not e["data"] for e in c["reqs"][0]["b"]["body"]["events"])]
        for k in range(300 if budget == "quick" else 5000):
            b = G.random_single(rng, k)["reqs"][0]["b"]["body"]
            if b["form"] == "sse":
                out.append(b)
        return out

    def impl_batch(self, cases):
        obs = []
        for b in cases:
            evs = [[(e["name"] or "message"), "\n".join(e["data"])] for e in b["events"] if e["data"]]
            obs.append({"text": G.sse_text(b), "conformant": True, "events": evs})
        return obs

    def model_line(self, case):
        return H.render_line(case)

    def kind(self, case, o):
        return f"render/{case.get('tail')}"


class RealSocket(_Base):
    """thorough tier: the same observation against a real TCP server and the real httpx transport"""
    name = "real-socket"

    def cases(self, ctx, budget):
        if budget == "quick" or os.environ.get("VERIF_NO_SOCKET") == "1":
            return []
        rng = ctx.sub_rng("c11-socket", budget)
        out = []
        pool = [c for c in G.singles() if "exc" not in c["reqs"][0]["b"]]
        out += rng.sample(pool, 150)
        out += rng.sample(G.sse_encodings(), 60)
        out += [c for c in G.sampled_sequences(rng, 60, maxlen=3)]
        # no asyncio.TimeoutError on a real socket; 301 without Location and 204 with a body are not expressible
        keep = []
        for c in out:
            ok = True
            for r in c["reqs"]:
                b = r["b"]
                if b.get("exc") == "asyncio_timeout":
                    ok = False
                if "exc" not in b and b["status"] == 204 and b["body"]["form"] != "empty":
                    ok = False
            if ok:
                keep.append(c)
        return keep

    def impl_batch(self, cases):
        return [H.run_case_socket(c) for c in cases]

    def kind(self, case, o):
        return "socket/" + super().kind(case, o).split("/", 1)[1]


def suites():
    H.start_zygote()
    return [Singles(), SseEncodings(), Sequences(), Seeded(), Hardening(), Headers(), Params(), StreamBranch(), Render(), RealSocket()]
