"""C13, the version-aware batch processor itself (`BatchProcessor`, protocol/features/batching.py):
the state after any sequence of version updates and what `process_message_data` does with a batch."""
from __future__ import annotations

import json

from ..runner import Suite
from .. import core
from .c13_transport import mode_of, versions, VALID, INVALID, ODD


class Processor(Suite):
    name = "processor"

    def cases(self, ctx, budget):
        rng = ctx.sub_rng("processor", budget)
        vs = versions() + [None]
        datas = [[], [VALID[0]], [VALID[0], VALID[1], VALID[2]], [VALID[1], VALID[1]], VALID[0], {}, 0, "", None, False, "[]",
                 [0], [{}], [[]], [None, VALID[0], "", VALID[2]], ODD, [VALID[0]] * 3]
        out = []
        for v in vs:
            for d in datas:
                n = len(d) if isinstance(d, list) else 1
                for beh in (["ok"] * n, ["none"] * n, (["ok", "raise", "none", "ok"] * n)[:n]):
                    out.append({"init": "unset", "updates": [v], "data": d, "handler": beh})
            out.append({"init": v, "updates": [], "data": [VALID[0], VALID[1]], "handler": ["ok", "none"]})
        for _ in range(300 if budget == "quick" else 5000):
            k = rng.randrange(0, 5)
            d = [rng.choice(VALID + INVALID + ODD) for _ in range(k)] if rng.random() < 0.8 else rng.choice(datas)
            n = len(d) if isinstance(d, list) else 1
            out.append({"init": rng.choice(["unset"] + vs), "updates": [rng.choice(vs) for _ in range(rng.randrange(0, 4))],
                        "data": d, "handler": [rng.choice(["ok", "ok", "none", "raise"]) for _ in range(n)]})
        return out

    def impl_batch(self, cases):
        from chuk_mcp.protocol.features.batching import BatchProcessor

        out = []
        for c in cases:
            calls = []
            beh = list(c["handler"])

            def handler(item):
                b = beh[len(calls)] if len(calls) < len(beh) else "ok"
                calls.append(core.canon(item))
                if b == "raise":
                    raise ValueError("%s {0} %(x)s  ")
                if b == "none":
                    return None
                return {"jsonrpc": "2.0", "id": item.get("id") if isinstance(item, dict) else None, "result": {}}

            try:
                p = BatchProcessor() if c["init"] == "unset" else BatchProcessor(c["init"])
                for v in c["updates"]:
                    p.update_protocol_version(v)
                state = {"enabled": p.batching_enabled, "version": p.protocol_version}
                r = p.process_message_data(c["data"], handler)
                if isinstance(r, dict) and isinstance(r.get("error"), dict) and not calls:
                    kind, detail = "error", r["error"].get("code")
                elif isinstance(r, list):
                    kind, detail = "list", len(r)
                elif r is None:
                    kind, detail = "none", None
                else:
                    kind, detail = "single", None
            except Exception as ex:  # noqa
                state, kind, detail = None, "raised", type(ex).__name__
            out.append({"state": state, "kind": kind, "detail": detail, "calls": calls})
        return out

    def last_version(self, case):
        v = None if case["init"] == "unset" else case["init"]
        for u in case["updates"]:
            v = u
        return v

    def model_line(self, case):
        return {"m": "versions", "v": self.last_version(case)}

    def compare(self, case, o, m):
        rejected = o["kind"] == "error" and o["detail"] == -32600
        if isinstance(case["data"], list) and rejected != (not m["supports"]):
            return "rejected"
        if o["state"] is not None and o["state"]["enabled"] is not m["supports"]:
            return "state"
        return None

    def oracle(self, case, o):
        v = self.last_version(case)
        mode = mode_of(v)
        d = case["data"]
        exp = {"version": v, "batching": mode}
        if o["state"] is not None and (o["state"]["enabled"] is not mode or o["state"]["version"] != v):
            return ("processor-state", f"after the updates the processor reports version={o['state']['version']!r} "
                    f"batching={o['state']['enabled']!r}; the last version set is {v!r}", exp)
        if not isinstance(d, list):
            if o["kind"] == "error" and o["detail"] == -32600:
                return ("single-rejected", "a single message (not a JSON array) was rejected as a batch", exp)
            return None
        if not mode:
            if not (o["kind"] == "error" and o["detail"] == -32600) or o["calls"]:
                return ("batch-not-rejected", "a batch at a version without batching was not answered by a single -32600 error "
                        "with no member processed", dict(exp, kind="error", code=-32600, calls=[]))
            return None
        if o["kind"] == "error":
            return ("batch-rejected-with-batching", "a batch was rejected although the version supports batching", exp)
        want_calls = [core.canon(x) for x in d]
        if o["kind"] != "raised" and o["calls"] != want_calls:
            return ("batch-member-skipped", "not every member of an accepted batch was processed, in order "
                    "(a failing member must not stop the others)", dict(exp, calls=want_calls))
        return None

    def kind(self, case, o):
        d = case["data"]
        return "processor/" + ("batch" if isinstance(d, list) else "single") + "/" + o["kind"] + \
            ("/updates" if case["updates"] else "") + ("/handler-raises" if "raise" in case["handler"] else "")


def suites():
    return [Processor()]
