"""C19 — server session bookkeeping behaves like a map from unique ids to records."""
from __future__ import annotations

import itertools
import json

from .. import session_h as H
from ..core import canon
from ..runner import Suite

MANIFEST = dict(
    text="Lean 4 theorems about an association-list model of InMemorySessionManager with the clock and the id supply as inputs, for operation histories of any length: refinement to the standard library's finite map (Std.ExtHashMap: insert/erase/modify/filter/size) with equal outputs for every operation; expiry keeps exactly the sessions not idle for longer than the limit, unchanged, and counts the rest; the code's collect-then-delete loop equals that filter; live ids are pairwise distinct and, under a fresh id supply, no create/initialize ever hits a live id; initialize adds exactly one session holding the client's info and the answered version (for an arbitrary answer policy); dispatch with a session id updates that session's activity and nothing else. Tied to the code by a correspondence run of the real SessionManager and ProtocolHandler under a patched integer clock: every operation word up to the stated length over a 3-session universe plus seeded histories up to length 200, outputs and the whole store compared after every step; 'listing returns a copy' is decided there by mutating the returned dict. Extension: every message kind through ProtocolHandler (no method / unknown / handler returns, raises, nonsense; activity is refreshed after the no-method exit and before the handler), the orphan session of an id-less initialize, a scripted repeating id supply (overwrite), and generate_session_id regenerated from source with format and injectivity theorems over canonical uuid texts.",
    note="Trusted: Lean kernel (propext, Classical.choice, Quot.sound), Std.ExtHashMap as the meaning of 'a simple map', uuid4 freshness (explicit hypothesis of c19_ids_unique; every id the implementation returns is also checked to be new), the harness and its clock seam. Python aliasing has no counterpart in the model: the copy semantics of list_sessions is checked only by the correspondence run.",
    technique="Lean 4 refinement proof (association list -> Std.ExtHashMap) + model-based differential run of operation sequences against the real code with a controlled clock",
    design="5/C19",
)
GEN: list[str] = []
# generate_session_id regenerated from source: next to the property (it trusts uuid4), Props/C19Supp.lean
SUPP_GEN = ["SessionId"]
SUPP_THEOREMS = ["c19_session_id_translated", "c19_session_id_format", "c19_session_id_injective"]
THEOREMS = [
    "c19_refines_map",
    "c19_cleanup_exact",
    "c19_cleanup_loop",
    "c19_ids_unique",
    "c19_initialize_creates_one",
    "c19_activity_on_dispatch",
    "c19_activity_on_every_message_kind",
    "c19_initialize_without_id_leaves_a_session",
    "c19_repeated_id_overwrites",
    "c19_managers_independent",
    "c19_no_silent_removal",
    "c19_envelope_class_irrelevant",
    "c19_cleanup_idempotent_monotone",
]
RULE = (
    "operation histories over {tick, create, get, update activity, delete, cleanup(max_age), list+mutate, clear, "
    "count, cleanup with the default limit, handle initialize (requested version supported / unsupported / malformed / empty / non-string / absent), handle request with session id (successful / unknown method / failing handler / nonsense / notification / no method; live, never-issued, empty and format-hostile session ids)} on the real SessionManager/ProtocolHandler with "
    "time.time patched to an integer clock: every word of length<=5 (quick) / <=6 (thorough) over the 8-symbol alphabet "
    "on slot 0, <=4 / <=5 over the 10-symbol one, <=3 / <=4 over the 20-symbol alphabet on slots 0..2, every word of "
    "length<=8 over the 5-symbol expiry core (thorough), plus seeded histories of length<=200; each step's output and the full store "
    "are compared with the Lean model and, independently, with a reference dict; non-trivial = distinct history "
    "with at least one session created"
)
TRUSTED = [
    "uuid4 never repeats an id (hypothesis of c19_ids_unique; additionally every returned id is checked against all earlier ones in each run)",
    "Std.ExtHashMap (Lean standard library) as the reference finite map",
    "the clock seam: the name `time` inside chuk_mcp.server.session.memory is replaced by an integer-valued clock",
]
ASSUMPTIONS = [
    "time.time() does not advance between the reads made inside one operation (the patched clock only moves between operations)",
    "what is recorded as client info when initialize carries no clientInfo is not fixed by the property (masked on both sides)",
    "a message dispatched with a live session id — request or notification, unified or typed envelope, whatever its outcome (result, unknown method, failing or nonsensical handler, initialize) — is activity of that session: the oracle demands last-activity = now ('expiry removes exactly the sessions idle for longer than the limit' — a session whose client has just been heard from is not idle); only for a message WITHOUT a method both stamps are accepted",
    "cleanup_expired() without argument is compared with cleanup_expired(d), d being the default read from the signature at run time; a non-numeric default is not compared; fractional limits are checked against the reference dict only (the Lean model is integer-valued)",
    "initialize is driven with requested versions of every kind (supported, unsupported, malformed, empty, non-string, absent); WHICH version is answered is C04's subject — the oracle takes the answered version from the response (result.protocolVersion) and demands that the session records exactly that; the model is fed the observed answer policy (requested -> answered) as its `answer` function",
]

SUPPORTED = ["2025-06-18", "2025-03-26", "2024-11-05"]
# requested versions of every kind: unsupported dates, malformed, empty, non-string JSON values
ODD_VERSIONS = ["1999-01-01", "2099-12-31", "garbage", "", " 2025-06-18", "2025-6-18", "2024-11-05\n", 123, 0, -1, 1.5,
                True, False, None, ["2025-06-18"], [], {"v": "2025-06-18"}, {}]

# ---- alphabets -----------------------------------------------------------------------------
T1 = ["T", 1]
C = ["C", {"name": "c", "version": "1"}, "2025-06-18"]
# the shared initialize symbol asks for a version the server does not support, so that the
# requested and the answered version differ and "records the ANSWERED version" has content
I = ["I", None, {"client": {"name": "i"}, "version": "1999-01-01"}, 1]
L = ["L", "both"]
K = ["K"]
# the request symbol of the small alphabets ends on an error path (its handler raises): dispatch with a
# session id is activity whatever the outcome; the 20-symbol alphabet has the successful / unknown / notification ones
A8 = [T1, C, I, ["U", 0], ["D", 0], ["X", 1], L, ["R", 0, "verif/raises", 7]]
A10 = A8 + [["G", 0], K]
A20 = [
    T1, C, I, L, K, ["N"], ["X", 0], ["X", 1],
    ["G", 0], ["G", 2], ["U", 0], ["U", 1], ["U", 2], ["D", 0], ["D", 1],
    ["R", 0, "ping", 0], ["R", 1, "nosuch/method", "q"], ["R", 2, "notifications/initialized", None],
    ["I", 0, {"version": "2025-03-26"}, "init"], ["I", 1, {"noparams": True}, 0],
]
CORE5 = [T1, C, ["U", 0], ["X", 1], ["D", 0]]


def words(alpha, n, max_new=3):
    """every word of length exactly n (shorter ones are its prefixes and are checked step by
    step) that issues at most `max_new` ids (3-session universe)"""
    for w in itertools.product(alpha, repeat=n):
        if sum(1 for o in w if o[0] in ("C", "I")) <= max_new:
            yield {"ops": list(w)}


def rand_json(rng, depth=0):
    r = rng.random()
    if depth > 2 or r < 0.45:
        return rng.choice([None, True, False, 0, -1, 7, "", "x", "Ünï", 1.5, "2025-06-18"])
    if r < 0.75:
        return {rng.choice(["name", "version", "a", "b", ""]): rand_json(rng, depth + 1) for _ in range(rng.randint(0, 3))}
    return [rand_json(rng, depth + 1) for _ in range(rng.randint(0, 3))]


FALSY_AND_HOSTILE = [None, {}, [], "", 0, False, "%s %d", "{0} {}", "a\nb\r\nc", "\u2028", "'\"\\", "clientInfo",
                     "protocolVersion", "2025-03-26", 3600, {"name": "", "version": 0}, {"": None}]
SYNTAX_TEXT = ['{"jsonrpc":"2.0","id":1,"result":{}}', "[NaN]", ":Infinity,", '\n{"id":1}', "data: x", "id: 1", ":", "{}", "null", '"']
FALSY_AND_HOSTILE = FALSY_AND_HOSTILE + SYNTAX_TEXT + [{t: t for t in SYNTAX_TEXT}]
R_METHODS = [("verif/reenter", 8), ("verif/reenter-then-raises", 9), ("verif/reenter", None), ("verif/raises-keyerror", 1), ("verif/raises-recursion", 0), ("ping", 3), ("ping", 0), ("ping", ""), ("nosuch/method", "x"), ("nosuch/method", 0), ("verif/raises", 1),
             ("verif/raises-empty", ""), ("verif/nonsense", 2), ("verif/silent", 5), ("verif/answers", 0),
             ("tools/list", 9), ("notifications/initialized", None), ("notifications/cancelled", None),
             ("verif/raises", None), ("notifications/initialized", 4), (None, 1), ("", 1)]


def seeded(rng, maxlen):
    n = rng.choice([rng.randint(1, 12), rng.randint(5, 40), rng.randint(20, maxlen)])
    ops = []
    issued = 0
    horizon = rng.choice([1, 2, 3, 10, 3600])

    def ref():
        r = rng.random()
        if issued == 0 or r < 0.08:
            return rng.choice([-1, issued, issued + 3] + H.GHOSTS[:6])
        if r < 0.6:
            return max(0, issued - 1 - rng.randint(0, min(2, issued - 1)))
        return rng.randrange(issued)

    for _ in range(n):
        r = rng.random()
        if r < 0.03:
            ops.append(["S", rng.choice([0, 1, 1, 2, 42])])  # the application re-seeds the process-wide generator
        elif r < 0.16:
            ops.append(["T", rng.choice([0, 1, 1, 1, 2, horizon, horizon + 1, max(horizon - 1, 0), 3599, 3600, 3601, 7200, 86400, 86400 * 400, -1, -3600])])
        elif r < 0.30:
            op = ["C", rng.choice([{"name": "c%d" % issued, "version": "1.0"}, {}, rand_json(rng), rng.choice(FALSY_AND_HOSTILE)]),
                  rng.choice(SUPPORTED + ["9999-01-01", "", "v", "%s", "{}"])]
            if rng.random() < 0.25:
                op.append(rng.choice([None, {}, {"k": 0}, {"": []}]))
            ops.append(op)
            issued += 1
        elif r < 0.38:
            spec = {}
            q = rng.random()
            if q < 0.1:
                spec["noparams"] = True
            else:
                if q < 0.85:
                    spec["client"] = rng.choice([{"name": "i%d" % issued, "version": "2"}, {}, None, rand_json(rng),
                                                 rng.choice(FALSY_AND_HOSTILE)])
                if rng.random() < 0.3:
                    spec["reuse"] = True
                if rng.random() < 0.85:
                    spec["version"] = rng.choice(SUPPORTED) if rng.random() < 0.45 else rng.choice(ODD_VERSIONS)
            ops.append(["I", rng.choice([None, None, ref()]), spec, rng.choice([0, 1, -5, "", "abc", "7", None])])
            issued += 1
        elif r < 0.48:
            ops.append(["G", ref()])
        elif r < 0.60:
            ops.append(["U", ref()])
        elif r < 0.68:
            ops.append(["D", ref()])
        elif r < 0.80:
            ops.append(["X", rng.choice([0, 1, 2, horizon, horizon - 1, horizon + 1, -1, 3600, 3599, None, None, 0.0, 0.5, 1.5])])
        elif r < 0.86:
            ops.append(["L", rng.choice(["add", "pop", "clear", "both", "none"])])
        elif r < 0.88:
            ops.append(["K"])
        elif r < 0.91:
            ops.append(["N"])
        else:
            m = rng.choice(R_METHODS)
            op = ["R", rng.choice([None, ref(), ref(), ref()]), m[0], m[1]]
            if rng.random() < 0.5:
                op.append(rng.choice(["typed", "typed", "parse"]))
            ops.append(op)
    case = {"ops": ops}
    if rng.random() < 0.12:
        # our own id supply, repeats included (a subclass overriding generate_session_id)
        case["supply"] = [rng.randrange(3) for _ in range(rng.randint(1, 8))]
    return case


# ---- reference dict (the property oracle; independent of the Lean model) ---------------------


def _same(a, b):
    """JSON equality with JSON types (True is not 1); repr first because it is cheap"""
    return repr(a) == repr(b) or canon(a) == canon(b)


KEY_OF = {"S": "tick", "B": "create", "C": "create", "G": "lookup", "U": "update-activity", "D": "delete", "X": "expiry", "L": "listing-copy",
          "K": "clear", "N": "count", "I": "initialize", "R": "activity-on-dispatch", "T": "tick"}


def reference_check(case, obs):
    """walk the history with a plain dict; first disagreement -> (key, what, expected)"""
    ref: dict[int, list] = {}
    scripted = case.get("supply") is not None  # the id supply is ours and may repeat: dict assignment then replaces
    for n, (op, st) in enumerate(zip(case["ops"], obs["steps"])):
        code, now, out = op[0], st["now"], st["out"]
        want_out = None
        lenient_last = None  # session whose last-activity may be old or now
        must_touch = None  # session whose last-activity must be now
        if code == "C":
            if not st["fresh"] and not scripted:
                return ("id-not-unique", f"step {n}: create_session returned an id that was handed out before", {"fresh": True})
            ref[out[1]] = [op[1], op[2], now, now]
        elif code == "B":
            if not st["fresh"] and not scripted:
                return ("id-not-unique", f"step {n}: create_session returned an id that was handed out before", {"fresh": True})
            for k in range(st["first"], st["first"] + op[1]):
                ref[k] = [op[2], op[3], now, now]
        elif code == "G":
            want_out = ["rec", ref.get(op[1])]
        elif code == "U":
            want_out = ["flag", op[1] in ref]
            if op[1] in ref:
                ref[op[1]][3] = now
        elif code == "D":
            want_out = ["flag", op[1] in ref]
            ref.pop(op[1], None)
        elif code == "X":
            limit = st.get("default") if op[1] is None else op[1]
            if not isinstance(limit, (int, float)) or isinstance(limit, bool):
                return None  # the default limit is not readable from the signature: nothing to compare the rest with
            gone = [k for k, r in ref.items() if now - r[3] > limit]
            for k in gone:
                del ref[k]
            want_out = ["count", len(gone)]
        elif code == "K":
            want_out = ["count", len(ref)]
            ref.clear()
        elif code == "N":
            want_out = ["count", len(ref)]
        elif code == "L":
            want_out = ["listing", sorted([[k] + r for k, r in ref.items()], key=lambda e: e[0])]
            if st.get("alien"):
                return ("listing", f"step {n}: list_sessions() contains {st['alien']} ids that were never handed out", None)
            if st.get("intruder_visible"):
                return ("listing-copy", f"step {n}: an entry added to the dict returned by list_sessions() is visible in the store", {"store": "unchanged"})
        elif code == "I" and op[3] is None:
            # an initialize without id is not a successful initialize: whether it leaves a session behind is not fixed by
            # the property (the code does leave one); what is there afterwards is taken as observed, the rest must not change
            if out[1] is not None:
                got = next((r for r in st["snap"]["sessions"] if r[0] == out[1]), None)
                if got is not None:
                    spec = op[2]
                    client = spec["client"] if ("client" in spec and not spec.get("noparams")) else got[1]
                    ref[out[1]] = [client, got[2], now, now]
            lenient_last = op[1]
        elif code == "I":
            if st["has_result"]:
                if out[1] is None:
                    return ("initialize", f"step {n}: successful initialize returned no session id", None)
                if not st["fresh"] and not scripted:
                    return ("id-not-unique", f"step {n}: initialize returned a session id that was handed out before", {"fresh": True})
                got = next((r for r in st["snap"]["sessions"] if r[0] == out[1]), None)
                spec = op[2]
                client = spec["client"] if ("client" in spec and not spec.get("noparams")) else (got[1] if got else None)
                ref[out[1]] = [client, out[2], now, now]
                must_touch = op[1]
            else:
                return None  # an unsuccessful initialize is outside this property (C08)
        elif code == "R":
            # a message dispatched with a live session id — request or notification, through the unified or a typed envelope,
            # whatever its outcome — is activity of that session: "expiry removes exactly the sessions idle for longer than
            # the limit", and a session whose client has just been heard from is not idle.  Only for a message WITHOUT a
            # method (a response-shaped object, nothing a client does on a session) both stamps are accepted.
            if isinstance(op[2], str) and op[2] != "":
                must_touch = op[1]
            else:
                lenient_last = op[1]
        if must_touch is not None and not isinstance(must_touch, str) and must_touch in ref:
            ref[must_touch][3] = now
        if lenient_last is not None and not isinstance(lenient_last, str) and lenient_last in ref:
            got = next((r for r in st["snap"]["sessions"] if r[0] == lenient_last), None)
            if got is not None and got[4] == now:
                ref[lenient_last][3] = now
        key = KEY_OF[code]
        if want_out is not None and not _same(out, want_out):
            return ("listing" if code == "L" else key, f"step {n} {op}: returned {out}, a map would return {want_out}", {"out": want_out})
        want_snap = sorted([[k] + r for k, r in ref.items()], key=lambda e: e[0])
        if not _same(st["snap"]["sessions"], want_snap) or st["snap"]["count"] != len(ref):
            return (key, f"step {n} {op}: store is {st['snap']}, a map would hold {want_snap}", {"sessions": want_snap, "count": len(ref)})
    return None


class Histories(Suite):
    name = "histories"

    def cases(self, ctx, budget):
        out = []
        # directed: one initialize per kind of requested version (supported, unsupported, malformed,
        # empty, non-string, absent), alone / after other sessions / carrying a session id, then looked up
        for v in SUPPORTED + ODD_VERSIONS + ["<absent>"]:
            spec = {"client": {"name": "d", "version": "0"}}
            if v != "<absent>":
                spec["version"] = v
            out.append({"ops": [["I", None, spec, 1], ["G", 0], ["L", "none"]]})
            out.append({"ops": [C, T1, ["I", 0, spec, "i"], ["G", 1], ["U", 1], T1, ["X", 1], ["G", 1]]})
            out.append({"ops": [["I", None, dict(spec, version=SUPPORTED[1]), 0], ["I", 0, spec, ""], ["G", 1], ["G", 0]]})
        # directed: dispatch with a session id, one per outcome (result, unknown method, failing handler, handler
        # returning nonsense / nothing, notifications, no method), placed so that only the dispatch keeps the session alive
        for me, mid in R_METHODS:
            out.append({"ops": [C, T1, ["R", 0, me, mid], T1, ["X", 1], ["G", 0], ["N"]]})
            out.append({"ops": [I, C, T1, ["R", 1, me, mid], ["R", 0, me, mid], T1, T1, ["X", 2], ["L", "none"]]})
        # directed: cleanup_expired() without argument = with its signature default, around that default
        for dt in (3599, 3600, 3601, 0):
            out.append({"ops": [C, ["T", dt], ["X", None], ["G", 0], C, ["X", 0], ["X", None]]})
            out.append({"ops": [C, ["T", dt], ["U", 0], ["T", 3600], ["X", None], ["T", 1], ["X", None], ["N"]]})
        # directed: falsy / format-hostile / look-alike values in every caller-supplied position
        for v in FALSY_AND_HOSTILE:
            out.append({"ops": [["C", v, "2025-06-18"], ["G", 0], ["I", None, {"client": v, "version": "2025-06-18"}, 0], ["G", 1],
                                ["C", {"name": "m"}, "2025-03-26", v if isinstance(v, dict) or v is None else {"k": v}], ["L", "both"]]})
        for g in H.GHOSTS:
            out.append({"ops": [C, ["G", g], ["U", g], ["D", g], ["R", g, "ping", 0], ["I", g, {"client": {}}, ""], ["N"], ["G", 0]]})
        for a in (0, 0.0, 0.5, 1, 1.5, -1, -0.5):
            out.append({"ops": [C, ["X", a], T1, ["U", 0], ["X", a], T1, ["X", a], ["T", 1], ["X", a], ["N"]]})
        # directed: an initialize WITHOUT id (with and without a carried session id), then everything that could see its session
        for sp in ({"client": {"name": "n"}, "version": "2025-06-18"}, {"version": "1999-01-01"}, {"noparams": True}):
            out.append({"ops": [["I", None, sp, None], ["N"], ["L", "none"], ["G", 0], T1, ["X", 0], ["N"]]})
            out.append({"ops": [C, T1, ["I", 0, sp, None], ["G", 0], ["G", 1], ["I", 1, sp, 5], T1, T1, ["X", 1], ["L", "both"]]})
        # directed: every id supply over {0,1} of length 3 (repeats = a live or a dead id handed out again)
        for sup in itertools.product((0, 1), repeat=3):
            out.append({"supply": list(sup), "ops": [C, T1, ["I", None, {"client": {"name": "s"}, "version": "2025-06-18"}, 1], ["N"], T1,
                                                     ["C", {"name": "third"}, "2025-03-26"], ["G", 0], ["G", 1], ["N"], ["X", 1], ["L", "both"]]})
            out.append({"supply": list(sup), "ops": [C, ["D", 0], C, C, ["N"], ["U", 0], K, C, ["G", 0]]})
        # directed: the SAME failing request 2, 3, 4 times in a row with a session id, then a success; a failure between successes
        for me, mid in R_METHODS:
            for k in (2, 3, 4):
                ops = [C, C]
                for _ in range(k):
                    ops += [T1, ["R", 0, me, mid]]
                ops += [T1, ["R", 0, "ping", 1], ["R", 1, me, mid], T1, ["R", 1, "ping", 2], ["X", 1], ["N"], T1, T1, ["X", 1], ["N"]]
                out.append({"ops": ops})
        # directed: the environment moves — hours, a day, a year pass (or the clock is put back) between two operations
        for jump in (60, 61, 3599, 3600, 3601, 7200, 86400, 86400 * 400, -3600):
            for me, mid in [("ping", 1), ("nosuch/method", 2), ("verif/raises", 3), ("notifications/initialized", None), ("verif/reenter", 4)]:
                out.append({"ops": [I, C, ["T", jump], ["R", 0, me, mid], ["G", 0], ["N"], ["U", 1], ["T", jump], ["I", 1, {"client": {}}, 5],
                                    ["R", 0, me, mid], ["N"], ["X", 3600], ["N"], ["L", "none"]]})
        # directed: typed / unified / parsed envelopes of every message kind, crossed with activity and expiry: the session a
        # message (request or notification) was just received on must survive a cleanup with a limit longer than that
        for env in ("legacy", "typed", "parse"):
            for me, mid in R_METHODS:
                if me is None and env == "parse":
                    continue
                out.append({"ops": [C, C, ["T", 5], ["R", 0, me, mid, env], ["G", 0], ["T", 5], ["X", 7], ["N"], ["G", 0], ["G", 1],
                                    ["I", 0, {"client": {"name": "e"}, "version": "2025-06-18"}, 3, env], ["T", 5], ["X", 7], ["N"]]})
        # directed: the process-wide random generator is re-seeded (by a tool, a handler, the host) between operations that
        # draw session ids: ids stay unique, every successful initialize still creates its own session
        for k in (0, 1, 42):
            sp = {"client": {"name": "r"}, "version": "2025-06-18"}
            out.append({"ops": [["S", k], ["I", None, sp, 1], ["S", k], ["I", None, sp, 2], ["G", 0], ["G", 1], ["N"],
                                ["S", k], C, ["S", k], C, ["N"], ["S", k], ["I", 0, sp, 3], ["N"], ["L", "none"]]})
            out.append({"ops": [["S", k], C, ["S", k], ["B", 5, {"name": "b"}, "2025-06-18"], ["S", k], C, ["N"], ["G", 0]]})
        # directed: growth x clock — stores of N sessions around every power of two and round number, one of them idle for
        # longer than an hour while the caller's own limit is longer (or none); then one more create / initialize, and
        # the old session must still be there: nothing but delete / cleanup / clear removes a session
        sizes = [100, 255, 256, 257, 1000, 1023, 1024, 1025, 2000]
        if budget != "quick":
            sizes += [127, 128, 129, 511, 512, 513, 999, 1001, 1022, 2047, 2048, 2049, 4095, 4096, 4097, 10000]
        for k, n_live in enumerate(sizes):
            jump = (3601, 86400, 7200)[k % 3]
            fresh = {"name": "f"}
            out.append({"ops": [C, ["U", 0], ["T", jump], ["B", n_live - 1, fresh, "2025-06-18"], ["N"], ["G", 0],
                                ["C", fresh, "2025-06-18"], ["G", 0],
                                ["I", None, {"client": fresh, "version": "2025-06-18"}, 1], ["G", 0], ["N"],
                                ["X", 10 ** 7], ["G", 0], ["X", jump - 1], ["N"]]})
        # directed: reuse — the same initialize envelope object dispatched three times, many sessions at once
        sp = {"client": {"name": "again"}, "version": "2025-06-18", "reuse": True}
        out.append({"ops": [["I", None, sp, 1], ["I", None, sp, 1], ["I", 0, sp, 1], ["N"], ["D", 1], ["I", 1, sp, 1], ["L", "pop"]]})
        big = [C] * 120 + [T1] + [["U", k] for k in range(0, 120, 3)] + [T1, ["X", 1], ["N"], ["L", "both"]] + [C] * 120 + [["X", 0], K]
        out.append({"ops": big})
        if budget == "quick":
            out += list(words(A8, 5)) + list(words(A10, 4)) + list(words(A20, 3))
            nseed, maxlen = 900, 200
            ctx.exhaustive_parts.append("histories: every word of length<=5 over the 8-symbol alphabet {tick, create, initialize, update, delete, cleanup, list+mutate, request} on slot 0; every word of length<=4 over the 10-symbol alphabet (+get, clear); every word of length<=3 over the 20-symbol alphabet (slots 0..2)")
        else:
            out += list(words(A8, 6)) + list(words(A10, 5))
            out += list(words(A20, 4))
            out += list(words(CORE5, 8, max_new=8))
            nseed, maxlen = (20000, 200) if budget == "thorough" else (6000, 120)
            ctx.exhaustive_parts.append("histories: every word of length<=6 over the 8-symbol alphabet; every word of length<=5 over the 10-symbol alphabet; every word of length<=4 over the 20-symbol alphabet (slots 0..2); every word of length<=8 over the 5-symbol expiry core {tick, create, update, cleanup, delete}")
        rng = ctx.sub_rng("c19", budget)
        for _ in range(nseed):
            out.append(seeded(rng, maxlen))
        # dimensions crossed with everything above: a host with logging at DEBUG (every third case), and a second,
        # busy ProtocolHandler alive in the same process (every fifth case)
        for k, c in enumerate(out):
            if k % 3 == 1:
                c["debug"] = True
            if k % 5 == 2:
                c["twin"] = True
            if k % 60 == 4:
                c["opt"] = True  # in an interpreter started with -O
        # directed, all under -O: create, idle, cleanup at / around the limit, lookups, counts; update and delete in between
        for a in (0, 1, 2, 3600):
            for dt in (a, a + 1):
                out.append({"opt": True, "ops": [C, C, ["T", dt], ["U", 1], ["X", a], ["N"], ["G", 0], ["G", 1], ["T", dt], ["X", a], ["N"],
                                                 I, ["T", a + 1], ["X", a], ["N"], ["L", "both"], C, ["D", 3], ["X", None], K, ["N"]]})
        return out

    def impl_batch(self, cases):
        obs = [None] * len(cases)
        opt = [i for i, c in enumerate(cases) if c.get("opt")]
        if opt:
            # these run in an interpreter started with -O (asserts and __debug__ blocks of the code under test are off)
            import subprocess
            import sys as _sys

            p = subprocess.run([_sys.executable, "-O", "-m", "verifpy.session_worker"], input=json.dumps([cases[i] for i in opt]),
                               capture_output=True, text=True, timeout=900)
            res = json.loads(p.stdout) if p.returncode == 0 and p.stdout else None
            if res is None or not res.get("optimized") or len(res["obs"]) != len(opt):
                raise RuntimeError("the -O worker of C19 failed: rc=%s %s" % (p.returncode, p.stderr[-300:]))
            for i, o in zip(opt, res["obs"]):
                obs[i] = o
        for i, c in enumerate(cases):
            if obs[i] is None:
                obs[i] = H.run_case(c)
        self._last = {id(c): o for c, o in zip(cases, obs)}
        return obs

    def model_line(self, case):
        o = self._last.get(id(case))
        if o is None:
            return None
        return H.model_line(case, o)

    def model_obs(self, out, case):
        return H.model_shape(out, case, self._last[id(case)])

    def compare(self, case, o, m):
        if "driver_error" in m:
            return "driver error"
        return None if canon(H.impl_shape(case, o)) == canon(m) else "differs"

    def oracle(self, case, o):
        if o.get("harness_error"):
            return ("operation-raised", f"an operation of the history raised: {o['harness_error']}", None)
        return reference_check(case, o)

    def kind(self, case, o):
        n = len(case["ops"])
        codes = {op[0] for op in case["ops"]}
        tag = "+".join(sorted(codes & {"I", "R", "X", "L", "S"})) or "basic"
        envs = {op[4] for op in case["ops"] if op[0] in ("R", "I") and len(op) > 4}
        if envs - {"legacy"}:
            tag += "+" + ",".join(sorted(envs - {"legacy"}))
        if "B" in codes:
            tag += "+bulk%d" % max(op[1] for op in case["ops"] if op[0] == "B")
        answers = {st.get("answer") for op, st in zip(case["ops"], o.get("steps", [])) if op[0] == "R" and op[1] is not None}
        if "error" in answers:
            tag += "+Rerr"
        if any(op[0] == "X" and op[1] is None for op in case["ops"]):
            tag += "+Xdefault"
        if any(op[0] == "I" and op[3] is None for op in case["ops"]):
            tag += "+Isilent"
        if case.get("supply") is not None:
            tag += "+supply"
        if case.get("twin"):
            tag += "+twin"
        if case.get("debug"):
            tag += "+debug"
        if case.get("opt"):
            tag += "+O"
        kinds = {H.kind_of(op[2], op[3]) for op in case["ops"] if op[0] == "R"}
        if kinds - {"handlerReturned"}:
            tag += "+" + ",".join(sorted(k[:7] for k in kinds - {"handlerReturned"}))
        return f"len{'<=6' if n <= 6 else ('<=40' if n <= 40 else '<=200')}/{tag}"

    def nontrivial(self, case, o):
        return o.get("issued", 0) > 0

    def shrink_candidates(self, case):
        ops = case["ops"]
        n = len(ops)
        for size in (n // 2, n // 4, 1):
            if size < 1:
                continue
            for start in range(0, n, size):
                cand = ops[:start] + ops[start + size:]
                if len(cand) < n:
                    yield dict(case, ops=cand)
        for k in ("debug", "twin"):
            if case.get(k):
                yield {a: b for a, b in case.items() if a != k}
        for i, op in enumerate(ops):
            if op[0] == "T" and op[1] > 1:
                yield dict(case, ops=ops[:i] + [["T", 1]] + ops[i + 1:])
            if op[0] == "B" and op[1] > 1:
                for m in (op[1] // 2, op[1] - 1):
                    yield dict(case, ops=ops[:i] + [["B", m] + op[2:]] + ops[i + 1:])
            if op[0] == "C" and op[1] != {}:
                yield dict(case, ops=ops[:i] + [["C", {}, op[2]]] + ops[i + 1:])
            if op[0] == "L" and op[1] == "both":
                yield dict(case, ops=ops[:i] + [["L", "add"]] + ops[i + 1:])
                yield dict(case, ops=ops[:i] + [["L", "pop"]] + ops[i + 1:])


class IdFormat(Suite):
    """generate_session_id: the real method with uuid.uuid4 replaced by known uuids vs the function regenerated from its
    source (Gen/SessionId.lean); plus real draws.  Oracle: distinct uuids give distinct ids (ids are as unique as uuids)."""
    name = "idformat"
    supplementary = True  # real method vs the function regenerated from its source: a difference is INFO, the oracle is not

    def cases(self, ctx, budget):
        rng = ctx.sub_rng("c19id", budget)
        n = 300 if budget == "quick" else 20000
        ints = [0, 1, 2 ** 128 - 1, 2 ** 127, 0x123e4567e89b42d3a456426614174000, 0xaaaaaaaaaaaaaaaaaaaaaaaaaaaaaaaa]
        ints += [1 << k for k in range(0, 128, 7)] + [rng.getrandbits(128) for _ in range(n)]
        return [{"uuid": "%032x" % i} for i in ints] + [{"draws": 500 if budget == "quick" else 20000}]

    def impl_batch(self, cases):
        import uuid as _uuid
        from chuk_mcp.server.session import base as B
        from chuk_mcp.server.session.memory import InMemorySessionManager

        mgr = InMemorySessionManager()
        out = []
        seen = {}
        for c in cases:
            if "draws" in c:
                ids = [mgr.generate_session_id() for _ in range(c["draws"])]
                out.append({"distinct": len(set(ids)), "n": len(ids), "types": sorted({type(x).__name__ for x in ids}),
                            "shapes": sorted({(len(x), all(ch in "0123456789abcdef" for ch in x)) for x in ids if isinstance(x, str)})})
                continue
            u = _uuid.UUID(hex=c["uuid"])
            target, attr = (B.uuid, "uuid4") if hasattr(B, "uuid") else ((B, "uuid4") if hasattr(B, "uuid4") else (None, None))
            if target is None:
                out.append({"seam": "lost"})
                continue
            old = getattr(target, attr)
            setattr(target, attr, lambda u=u: u)
            try:
                sid = mgr.generate_session_id()
            finally:
                setattr(target, attr, old)
            o = {"id": sid, "text": str(u)}
            if isinstance(sid, str):
                o["clash"] = seen.get(sid, c["uuid"]) != c["uuid"]
                seen.setdefault(sid, c["uuid"])
            out.append(o)
        self._last = {id(c): o for c, o in zip(cases, out)}
        return out

    def model_line(self, case):
        o = self._last.get(id(case))
        if "uuid" not in case or not o or "text" not in o:
            return None
        return {"m": "sessionid", "u": [ord(ch) for ch in o["text"]]}

    def model_obs(self, out, case):
        return "".join(chr(x) for x in out["id"]) if "id" in out else out

    def compare(self, case, o, m):
        return None if o.get("id") == m else "differs"

    def oracle(self, case, o):
        if "draws" in case:
            if o["distinct"] != o["n"]:
                return ("id-not-unique", f"{o['n']} calls of generate_session_id gave {o['distinct']} distinct ids", {"distinct": o["n"]})
            return None
        if o.get("clash"):
            return ("id-not-unique", f"two different uuids give the same session id {o['id']!r}", None)
        return None

    def kind(self, case, o):
        return "idformat/" + ("draws" if "draws" in case else ("seam-lost" if o.get("seam") else "scripted-uuid"))


class BaseContract(Suite):
    """The abstract base class (informational: no demand, nothing compared): it cannot be instantiated, a subclass
    that delegates to the abstract defaults gets None back from each, and inherits a working generate_session_id."""
    name = "basecontract"
    uses_model = False

    def cases(self, ctx, budget):
        return [{"probe": "abstract-defaults"}]

    def impl_batch(self, cases):
        from chuk_mcp.server.session.base import BaseSessionManager

        out = []
        for _ in cases:
            o = {}
            try:
                BaseSessionManager()
                o["instantiable"] = True
            except TypeError:
                o["instantiable"] = False

            class Delegating(BaseSessionManager):
                def create_session(self, client_info, protocol_version, metadata=None):
                    return super().create_session(client_info, protocol_version, metadata)

                def get_session(self, session_id):
                    return super().get_session(session_id)

                def update_activity(self, session_id):
                    return super().update_activity(session_id)

                def cleanup_expired(self, max_age=3600):
                    return super().cleanup_expired(max_age)

                def list_sessions(self):
                    return super().list_sessions()

                def delete_session(self, session_id):
                    return super().delete_session(session_id)

            try:
                d = Delegating()
                o["defaults"] = [repr(d.create_session({}, "v")), repr(d.get_session("x")), repr(d.update_activity("x")),
                                 repr(d.cleanup_expired()), repr(d.list_sessions()), repr(d.delete_session("x"))]
                sid = d.generate_session_id()
                o["inherited_id"] = [type(sid).__name__, len(sid) if isinstance(sid, str) else None]
            except Exception as ex:
                o["error"] = type(ex).__name__
            out.append(o)
        return out

    def kind(self, case, o):
        return "basecontract/instantiable=%s/defaults=%s" % (o.get("instantiable"), ",".join(o.get("defaults", ["?"])))


def suites():
    return [Histories(), IdFormat(), BaseContract()]
